"""C18 — comments, pragmas, nonces and names never change the code."""
import itertools
import json
import sys

from common import *  # noqa

ensure_env()
from progcorpus import mode_of, optimize_of, run_teal, observable, small_recipes, random_case_params  # noqa
from build import wire_opts, BuildError  # noqa
from gen_prog import Gen, gen_context, I, B  # noqa
import c18_gen as G  # noqa

PROOF_FILES = ["Proofs/C18Text.v", "Proofs/C18Fuel.v", "Proofs/C18Sem.v", "Proofs/C18Commute.v", "Proofs/C18Stream.v"]

F_NAME = "c18-subroutine-name-linebreak-injects-code"
F_BLOCK = "c18-annotation-only-block-changes-branch-layout"
F_OPT = "c18-comment-defeats-slot-optimizer"
F_TAIL = "c18-trailing-comment-hides-return"
F_CRASH = "c18-annotation-masks-compiler-crash"
CRASHES = ("AssertionError", "RecursionError")

# (version, application mode, scratch_slots, frame_pointers, assembleConstants)
OPTS_QUICK = [(2, True, None, None, False), (3, False, None, None, False), (5, True, None, None, False), (6, True, True, None, False),
              (8, True, None, None, False), (8, True, None, False, False), (10, True, None, None, False), (10, True, False, None, False),
              (6, True, None, None, True), (10, True, None, None, True), (3, False, None, None, True)]


def opts_thorough():
    out = []
    for v in range(2, 11):
        for app in (True, False):
            for ss in (None, True, False):
                for fp in ((None, False, True) if v >= 8 else (None, False)):
                    out.append((v, app, ss, fp, False))
            if v >= 3:
                out.append((v, app, None, None, True))
                out.append((v, app, True, None, True))
    return out


def optimizer_on(opt):
    v, ss = opt[0], opt[2]
    return ss is True or (ss is None and v >= 9)


# ------------------------------------------------------------------------------------------------
# compile one program (recipe + subroutines) with the real compiler and with the model
# ------------------------------------------------------------------------------------------------
class Prog:
    """recipe of the main routine + subroutine definitions [(key, name|None, ret, nparams, body)]"""

    def __init__(self, main, subs=()):
        self.main = main
        self.subs = [tuple(s) for s in subs]

    def key(self):
        return (self.main, tuple(self.subs))

    def describe(self):
        return {"main": repr(self.main), "subs": repr(self.subs)}

    @staticmethod
    def from_desc(d):
        return Prog(eval(d["main"]), eval(d["subs"]))

    def latin1(self):
        return G.recipe_latin1(self.main) and all(G.recipe_latin1(s) for s in self.subs)

    def wirable(self):
        return self.latin1() and all(s[3] == 0 for s in self.subs)

    def units(self):
        """(unit id, recipe) for the main routine and every subroutine body"""
        return [("main", self.main)] + [(s[0], s[4]) for s in self.subs]

    def with_unit(self, uid, recipe):
        if uid == "main":
            return Prog(recipe, self.subs)
        return Prog(self.main, [s if s[0] != uid else (s[0], s[1], s[2], s[3], recipe) for s in self.subs])

    def with_name(self, key, name):
        return Prog(self.main, [s if s[0] != key else (s[0], name, s[2], s[3], s[4]) for s in self.subs])


def recipe_has_return(r):
    """PyTeal's has_return() on recipes"""
    if isinstance(r, str):
        return False
    k = r[0]
    if k in ("return", "exit"):
        return True
    if k == "seq":
        return recipe_has_return(r[-1]) if len(r) > 1 else False
    if k == "if":
        return len(r) > 3 and recipe_has_return(r[2]) and recipe_has_return(r[3])
    if k == "cond":
        return all(recipe_has_return(v) for (_, v) in r[1:])
    if k == "comment":
        return recipe_has_return(r[2])
    if k == "nonce":
        return recipe_has_return(r[3])
    if k == "pragma":
        return recipe_has_return(r[2])
    return False


def compile_prog(pt, m18, prog, opt, want_model=True):
    v, app, ss, fp, ac = opt
    b = G.ABuilder(pt)
    res = {"opt": opt}
    try:
        for (key, name, ret, npar, body) in prog.subs:
            b.def_sub(key, name, ret, npar, body)
    except Exception as e:  # noqa
        res["real"] = ("build-exc", type(e).__name__, str(e)[:200])
        return res
    r = call_real(b.build, prog.main)
    if r[0] != "ok":
        res["real"] = ("build-exc", r[1], r[2])
        return res
    expr = r[1]
    res["real"] = call_real(lambda: pt.compileTeal(expr, mode_of(pt, app), version=v, optimize=optimize_of(pt, ss, fp), assembleConstants=ac))
    res["names"] = {k: b.subs[k]["name"] for k in b.sub_defs}
    if want_model and prog.wirable() and not ac:       # createConstantBlocks is C12's model, not part of compile_model
        try:
            wp = b.wire_prog(prog.main, b.wire_subs())
            res["model"] = m18.ask("(compile %s %s)" % (wire_opts(v, app, ss, fp), wp))
        except (BuildError, KeyError, UnicodeEncodeError) as e:
            res["model"] = None
            res["wire_error"] = repr(e)
    return res


def model_agrees(res):
    """None: not comparable; True/False otherwise"""
    m = res.get("model")
    if m is None:
        return None
    if m[0] == S("error"):
        return None
    if m[0] == S("err") and isinstance(m[1], list) and m[1] and m[1][0] == S("unsupported"):
        return None
    real = res["real"]
    if real[0] == "ok":
        return m[0] == S("ok") and "\n".join(m[1:]) == real[1]
    if real[0] == "exc":
        return m[0] == S("err") and repr(m[1]) == real[1]
    return None


def teal_bytes(teal):
    """TEAL text as the assembler receives it: UTF-8 bytes"""
    return teal.encode("utf-8")


def stream(m18, teal):
    r = m18.ask("(stream %s)" % sx_str(teal_bytes(teal)))
    assert r[0] == S("ok"), r
    return [tuple(x) for x in r[1:]]


def statements(m18, teal):
    r = m18.ask("(statements %s)" % sx_str(teal_bytes(teal)))
    assert r[0] == S("ok"), r
    return [tuple(x) for x in r[1:]]


def resolve_consts(teal):
    """assembleConstants=True output with every constant load resolved against its block: `intc_N`/`intc N` -> `pushint V`,
    `bytec_N`/`bytec N` -> `pushbytes 0x..`, the block lines dropped, the trailing `// literal` echo of constant loads removed.
    Two programs that differ only in HOW constants are loaded (a Nonce's bytes join the frequency statistics of the constant
    blocks, so other constants may move between push and block form) resolve to the same text; what the loads push is C12's
    subject and is compared there."""
    lines = teal.split("\n")
    ints, byts = [], []
    for l in lines:
        if l.startswith("intcblock"):
            ints = l.split()[1:]
        elif l.startswith("bytecblock"):
            byts = l.split()[1:]
    out = []
    for l in lines:
        if l.startswith("intcblock") or l.startswith("bytecblock"):
            continue
        head = l.split(" //")[0] if l.split(" ")[0].split("_")[0] in ("intc", "bytec", "pushint", "pushbytes") else l
        tok = head.split()
        if tok and tok[0].startswith("intc"):
            k = int(tok[0].split("_")[1]) if "_" in tok[0] else int(tok[1])
            out.append("pushint " + (ints[k] if k < len(ints) else "?%d" % k))
        elif tok and tok[0].startswith("bytec"):
            k = int(tok[0].split("_")[1]) if "_" in tok[0] else int(tok[1])
            out.append("pushbytes " + (byts[k] if k < len(byts) else "?%d" % k))
        else:
            out.append(head)
    return "\n".join(out)


def is_nonce_push(line, lit, val):
    """`byte LIT`, or with assembleConstants `pushbytes 0xHEX // LIT` (the trailing echo is a comment)"""
    if line == "byte " + lit:
        return True
    if val is not None:
        head = "pushbytes 0x" + val.hex()
        return line == head or line.startswith(head + " //")
    return False


def strip_nonce(teal, lit, val=None):
    """remove the documented push-and-pop of the nonce bytes (first occurrence)"""
    lines = teal.split("\n")
    for i in range(len(lines) - 1):
        if is_nonce_push(lines[i], lit, val) and lines[i + 1] == "pop":
            return "\n".join(lines[:i] + lines[i + 2:]), True
    return teal, False


def mark_nonce(teal, lit, val=None):
    """turn the nonce pair into comment lines (for the annotation-only-block predicate)"""
    lines = teal.split("\n")
    for i in range(len(lines) - 1):
        if is_nonce_push(lines[i], lit, val) and lines[i + 1] == "pop":
            return "\n".join(lines[:i] + ["// nonce", "// pop"] + lines[i + 2:])
    return teal


def behaviours(avm, rng, app, teals, nctx):
    """run each TEAL text on the same nctx contexts; list of tuples of observables (None = inconclusive)"""
    out = []
    for _ in range(nctx):
        ctx = gen_context(rng, app)
        row = []
        for t in teals:
            r = avm.ask("(run %s %s)" % (sx(ctx), sx_str(teal_bytes(t))))
            if isinstance(r, list) and r and r[0] == S("parse-error"):
                row.append(("parse-error", None))
            else:
                row.append(observable(r))
        out.append((ctx, row))
    return out


# ------------------------------------------------------------------------------------------------
# the oracle for one (plain, variant) pair under one option set
# ------------------------------------------------------------------------------------------------
class Oracle:
    def __init__(self, ck, pt, m18, avm, nctx):
        self.ck, self.pt, self.m18, self.avm, self.nctx = ck, pt, m18, avm, nctx
        self.stats = {}
        self.mismatches = []
        self.violations = []
        self.known_hits = {}
        self.plain_cache = {}
        self.roles = {}

    def bump(self, k, n=1):
        self.stats[k] = self.stats.get(k, 0) + n

    def plain(self, prog, opt):
        key = (prog.key(), opt)
        if key not in self.plain_cache:
            res = compile_prog(self.pt, self.m18, prog, opt)
            self.check_model(prog, res, "plain")
            self.plain_cache[key] = res
        return self.plain_cache[key]

    def check_model(self, prog, res, what):
        ok = model_agrees(res)
        if ok is None:
            self.bump("model:not-comparable")
        elif ok:
            self.bump("model:agree")
        else:
            self.bump("model:DISAGREE")
            self.mismatches.append({"prog": prog.describe(), "opt": list(res["opt"]), "real": res["real"][:2], "model": repr(res.get("model"))[:3000], "what": what})

    def known(self, fid, what):
        self.known_hits[fid] = self.known_hits.get(fid, 0) + 1
        if self.ck.match_known(lambda f: f["id"] == fid) is not None:
            self.ck.known(fid, what)
            return True
        return False

    def violation(self, what, prog, variant, opt, extra=None):
        d = {"kind": "pair", "plain": prog.describe(), "variant": variant.describe(), "opt": list(opt)}
        if extra:
            d.update(extra)
        self.violations.append((what, d))

    def pair(self, prog, variant, opt, desc, kind, nonce_lit=None, force_run=False, may_be_invalid=False, nonce_val=None):
        """compare the real outputs of prog and variant under opt"""
        ck = self.ck
        p = self.plain(prog, opt)
        q = compile_prog(self.pt, self.m18, variant, opt)
        self.bump("pairs")
        self.bump("kind:" + kind)
        if q["real"][0] in ("build-exc", "exc") and q["real"][1] in ("TealSeqError", "TealTypeError") and may_be_invalid:
            # a stand-alone Comment after a value-typed last element is not a well-typed Seq: not an annotation of this program
            # (subroutine bodies are constructed during compilation, hence "exc" as well)
            self.bump("variant-ill-typed:" + q["real"][1])
            ck.count(("pair", prog.key(), variant.key(), opt), nontrivial=False)
            return
        if q["real"][0] == "build-exc":
            if p["real"][0] == "build-exc":
                self.bump("both-unbuildable")
                return
            self.violation("the annotated program cannot be constructed: %s %s (%s)" % (q["real"][1], q["real"][2][:100], desc), prog, variant, opt)
            return
        self.check_model(variant, q, "variant")
        pr, qr = p["real"], q["real"]
        nontrivial = pr[0] == "ok" and qr[0] == "ok"
        ck.count(("pair", prog.key(), variant.key(), opt), nontrivial=nontrivial)
        tail = any(recipe_has_return(a) != recipe_has_return(b) for (_, a), (_, b) in zip(prog.units(), variant.units()))
        names_nl = any("\n" in (n or "") for n in (q.get("names") or {}).values())
        if pr[0] != "ok" or qr[0] != "ok":
            if pr[0] == qr[0] and (pr[0] != "exc" or pr[1] == qr[1]):
                self.bump("both-fail:" + (pr[1] if pr[0] == "exc" else pr[0]))
                return
            crash_p = pr[0] == "exc" and pr[1] in CRASHES
            crash_q = qr[0] == "exc" and qr[1] in CRASHES
            if crash_p != crash_q:
                self.bump("known:crash-one-side")
                if self.known(F_CRASH, "a program on which compileTeal crashes (AssertionError in validateTree / RecursionError: the C20 defects) compiles once an annotation moves the loop away from the routine's first block, or vice versa"):
                    return
            if qr[0] == "exc" and tail and qr[1] == "TealCompileError" and (pr[0] == "ok" or pr[1] in PYTEAL_ERRORS):
                # (when the plain program is rejected as well, the hidden Return makes compileSubroutine fail first)
                self.bump("known:tail-compile-error")
                if self.known(F_TAIL, "a stand-alone Comment after the final Return/Approve of the main routine makes compilation fail (TealCompileError) — and in a subroutine appends a dead retsub"):
                    return
            self.violation("annotation changes whether the program compiles: plain=%s annotated=%s (%s)" % (pr[:2], qr[:2], desc), prog, variant, opt)
            return
        tp, tq = pr[1], qr[1]
        if opt[4]:
            tp, tq = resolve_consts(tp), resolve_consts(tq)
        tq_cmp = tq
        if nonce_lit is not None:
            tq_cmp, found = strip_nonce(tq, nonce_lit, nonce_val if opt[4] else None)
            if not found:
                if stream(self.m18, tp) == stream(self.m18, tq):
                    self.bump("nonce-in-unreachable-code")      # the wrapped expression is never emitted (after Break/Continue/Return)
                    return
                for ctx, (a, b) in behaviours(self.avm, ck.rng, opt[1], [tp, tq], self.nctx):
                    ck.count(("run", prog.key(), variant.key(), opt, sx(ctx)))
                    if a is not None and b is not None and a != b:
                        self.violation("BEHAVIOUR differs between a program and its Nonce-wrapped variant (%s): %s vs %s" % (desc, a, b), prog, variant, opt,
                                       {"ctx": sx(ctx), "plain_teal": tp.split("\n"), "variant_teal": tq.split("\n")})
                        return
                self.violation("Nonce did not emit the documented push (`byte %s`) immediately followed by `pop` (%s)" % (nonce_lit, desc), prog, variant, opt,
                               {"plain_teal": tp.split("\n"), "variant_teal": tq.split("\n")})
                return
        sp, sq = stream(self.m18, tp), stream(self.m18, tq_cmp)
        same = sp == sq
        self.bump("stream:equal" if same else "stream:differ")
        if len(ck.samples) < 6 and (not same or self.stats["pairs"] % 97 == 1):
            ck.sample({"annotation": desc, "opt": list(opt), "plain": tp.split("\n")[:14], "annotated": tq.split("\n")[:16], "streams_equal": same})
        run = force_run or not same
        if run:
            beh = behaviours(self.avm, ck.rng, opt[1], [tp, tq], self.nctx if not same else 1)
            for ctx, (a, b) in beh:
                ck.count(("run", prog.key(), variant.key(), opt, sx(ctx)))
                if a is None or b is None:
                    self.bump("run:inconclusive")
                    continue
                self.bump("run:" + ("equal" if a == b else "DIFFER"))
                if a != b:
                    if names_nl:
                        self.bump("known:name-behaviour")
                        if self.known(F_NAME, "a subroutine name containing a line feed injects instructions into the TEAL text (behaviour or assemblability changes)"):
                            return
                    self.violation("BEHAVIOUR differs between a program and its annotated variant (%s): %s vs %s" % (desc, a, b), prog, variant, opt,
                                   {"ctx": sx(ctx), "plain_teal": tp.split("\n"), "variant_teal": tq.split("\n")})
                    return
        if same:
            return
        # ---- streams differ, behaviour equal on the sampled contexts: classify ----
        if names_nl:
            self.bump("known:name-stream")
            if self.known(F_NAME, "a subroutine name containing a line feed injects instructions into the TEAL text (behaviour or assemblability changes)"):
                return
        stp, stq = statements(self.m18, tp), statements(self.m18, tq_cmp)
        layout_only = G.cfg_canon(stp) == G.cfg_canon(stq)
        marked = mark_nonce(tq, nonce_lit, nonce_val if opt[4] else None) if nonce_lit is not None else tq
        if layout_only and tail:
            self.bump("known:tail-dead-retsub")
            if self.known(F_TAIL, "a stand-alone Comment after the final Return/Approve of the main routine makes compilation fail (TealCompileError) — and in a subroutine appends a dead retsub"):
                return
        if layout_only and G.has_comment_only_block(marked):
            self.bump("known:annotation-only-block")
            if self.known(F_BLOCK, "an annotation that is the only content of a block (e.g. If(c).Then(Comment(t, Seq()))) keeps the block from being elided: bnz becomes bz + block (same behaviour)"):
                return
        if optimizer_on(opt) and G.has_store_comment_load(marked):
            # confirm the class: with the slot optimiser off the two streams must agree (up to layout)
            off = (opt[0], opt[1], False, opt[3], opt[4])
            p2 = self.plain(prog, off)
            q2 = compile_prog(self.pt, self.m18, variant, off, want_model=False)
            if p2["real"][0] == "ok" and q2["real"][0] == "ok":
                t2 = q2["real"][1]
                if nonce_lit is not None:
                    t2, _ = strip_nonce(t2, nonce_lit, nonce_val if opt[4] else None)
                a2, b2 = statements(self.m18, p2["real"][1]), statements(self.m18, t2)
                if stream(self.m18, p2["real"][1]) == stream(self.m18, t2) or G.cfg_canon(a2) == G.cfg_canon(b2):
                    self.bump("known:optimizer")
                    if self.known(F_OPT, "a comment between `store k` and `load k` keeps the scratch-slot optimiser (default from v9) from cancelling the pair: annotated code keeps store/load (same behaviour, higher cost)"):
                        return
        self.violation("instruction stream changes under an annotation (%s) and the difference is in no known class (layout_only=%s)" % (desc, layout_only),
                       prog, variant, opt, {"plain_teal": tp.split("\n"), "variant_teal": tq.split("\n")})


# ------------------------------------------------------------------------------------------------
# variants of a program
# ------------------------------------------------------------------------------------------------
def pragma_constraints(pt):
    from importlib import metadata
    ver = metadata.version("pyteal")
    return [">=0.1.0", "*", "<1.0.0 || >2", ">0.0.1 <99.0.0", "^" + ver, "~" + ver, ver, "=" + ver]


NONCES = [("utf8", 'n"q\\ //;'), ("base16", "0xA1b2C3"), ("base16", "A1B2"), ("base32", "MNXW45DFNZ2A===="), ("base64", "Y29udGVudA=="), ("utf8", "")]


def variants_of(prog, rng, pragmas, texts, dense):
    """yield (variant Prog, description, kind, nonce tuple or None, role) — every insertion point when dense,
    a sample otherwise; texts rotate through the hazard list"""
    ti = itertools.cycle(texts)
    for uid, rec in prog.units():
        paths = G.all_paths(rec)
        inserts = G.seq_insert_points(rec)
        asserts = G.assert_points(rec)
        if not dense:
            paths = rng.sample(paths, min(len(paths), 6))
            inserts = rng.sample(inserts, min(len(inserts), 4))
        for p in paths:
            role = G.role_of(rec, p)
            t = next(ti)
            yield prog.with_unit(uid, G.apply_wrap(rec, p, "comment", t)), "Comment(%r, .) at %s%s [%s]" % (t[:30], uid, list(p), role), "comment-wrap", None, role
        for (sp, i) in inserts:
            t = next(ti)
            n = len(G.get(rec, sp))
            role = "seq.after-last" if i == n else ("seq.before-first" if i == 1 else "seq.between")
            yield prog.with_unit(uid, G.apply_insert(rec, sp, i, t)), "Comment(%r) inserted at %s%s[%d] [%s]" % (t[:30], uid, list(sp), i, role), "comment-stmt", None, role
        for p in asserts:
            for t in (next(ti), next(ti)):
                yield prog.with_unit(uid, G.apply_assert_comment(rec, p, t)), "Assert comment %r at %s%s" % (t[:30], uid, list(p)), "assert-comment", None, "assert"
        ppaths = paths if dense else paths[:3]
        for k, p in enumerate(ppaths):
            if dense and k % 2 == 1 and len(ppaths) > 8:
                continue
            c = pragmas[k % len(pragmas)]
            yield prog.with_unit(uid, G.apply_wrap(rec, p, "pragma", c)), "Pragma(., %r) at %s%s" % (c, uid, list(p)), "pragma", None, G.role_of(rec, p)
        npaths = [()] + [p for p in paths if p][: (4 if dense else 1)]
        for k, p in enumerate(npaths):
            nb = NONCES[(k + len(rec)) % len(NONCES)]
            yield prog.with_unit(uid, G.apply_wrap(rec, p, "nonce", None, nb)), "Nonce(%s, %r, .) at %s%s" % (nb[0], nb[1], uid, list(p)), "nonce", nb, G.role_of(rec, p)


def same_text_variant(prog, rng, text):
    """the SAME comment text at several places: around up to three none-typed statements of Seqs (with observable effects
    where the base has them), as a stand-alone Comment and as every Assert's comment"""
    rec = prog.main
    pts = []
    for p in G.all_paths(rec):
        n = G.get(rec, p)
        parent_ok = p and isinstance(G.get(rec, p[:-1]), tuple) and G.get(rec, p[:-1])[:1] == ("seq",)
        if parent_ok and isinstance(n, tuple) and n[0] == "op" and n[3] == "n":
            pts.append(p)
    rng.shuffle(pts)
    for p in sorted(pts[:3], reverse=True):          # deeper/later paths first so that earlier paths stay valid
        rec = G.apply_wrap(rec, p, "comment", text)
    for p in G.assert_points(rec):
        rec = G.apply_assert_comment(rec, p, text)
    ins = [(sp, i) for (sp, i) in G.seq_insert_points(rec) if i < len(G.get(rec, sp))]
    if ins:
        sp, i = rng.choice(ins)
        rec = G.apply_insert(rec, sp, i, text)
    return Prog(rec, prog.subs)


def stacked_variant(prog, rng, pragmas, texts, n):
    """several annotations at once (applied one after the other at random points of the main routine)"""
    rec = prog.main
    for _ in range(n):
        kind = rng.choice(["comment", "comment", "insert", "pragma", "assert"])
        if kind == "comment":
            rec = G.apply_wrap(rec, rng.choice(G.all_paths(rec)), "comment", rng.choice(texts))
        elif kind == "pragma":
            rec = G.apply_wrap(rec, rng.choice(G.all_paths(rec)), "pragma", rng.choice(pragmas))
        elif kind == "insert":
            pts = [(p, i) for (p, i) in G.seq_insert_points(rec) if i < len(G.get(rec, p))]
            if pts:
                sp, i = rng.choice(pts)
                rec = G.apply_insert(rec, sp, i, rng.choice(texts))
        else:
            pts = G.assert_points(rec)
            if pts:
                rec = G.apply_assert_comment(rec, rng.choice(pts), rng.choice(texts))
    return Prog(rec, prog.subs)


# ------------------------------------------------------------------------------------------------
# parts of the check
# ------------------------------------------------------------------------------------------------
def part_splitlines(ck, m18, thorough):
    alphabet = ["a", "\n", "\r", "\x0b", "\x0c", "\x1c", "\x1d", "\x1e", "\x85", " ", "\x1f", "\x84", "\t", "\x00"]
    bad = []
    n = 0
    for k in range(0, 5 if thorough else 4):
        for tup in itertools.product(alphabet, repeat=k):
            s = "".join(tup)
            got = m18.ask((S("splitlines"), s))
            n += 1
            ck.count(("splitlines", s), nontrivial=any(c in s for c in alphabet[1:9]))
            if list(got[1:]) != s.splitlines():
                bad.append((s, list(got[1:]), s.splitlines()))
    rng = ck.rng
    for _ in range(3000 if thorough else 400):
        L = rng.choice([1, 5, 20, 80])
        s = "".join(rng.choice(alphabet) if rng.random() < 0.5 else chr(rng.randrange(256)) for _ in range(L))
        got = m18.ask((S("splitlines"), s))
        n += 1
        ck.count(("splitlines", s))
        if list(got[1:]) != s.splitlines():
            bad.append((s, list(got[1:]), s.splitlines()))
    for t in G.TEXTS:
        if G.latin1(t):
            got = m18.ask((S("splitlines"), t))
            n += 1
            if list(got[1:]) != t.splitlines():
                bad.append((t, list(got[1:]), t.splitlines()))
    ck.coverage["splitlines_cases"] = n
    # all 256 code points: which ones break a line (the model's is_linebreak table)
    breaks = [c for c in range(256) if len(("a" + chr(c) + "b").splitlines()) == 2]
    mbreaks = [c for c in range(256) if len(m18.ask((S("splitlines"), "a" + chr(c) + "b"))[1:]) == 2]
    if breaks != mbreaks:
        bad.append(("table", mbreaks, breaks))
    ck.coverage["linebreak_code_points_below_256"] = breaks
    return bad


def part_comment_ctor(ck, pt):
    """CommentExpr's own check and Comment's splitting on the real code, incl. code points beyond latin-1"""
    bad = []
    for t in G.TEXTS + ["a b", "a b"]:
        r = call_real(lambda: pt.compileTeal(pt.Seq(pt.Comment(t), pt.Approve()), pt.Mode.Application, version=6))
        ck.count(("comment-ctor", t))
        if r[0] != "ok":
            bad.append((t, r))
            continue
        want = "\n".join(["#pragma version 6"] + ["// " + l for l in t.splitlines()] + ["int 1", "return"])
        if r[1] != want:
            bad.append((t, r[1][:200]))
    return bad


def sub_label_of(real_teal, name):
    """label of the (only) subroutine header `\\n// name\\nlabel:` in a real output"""
    marker = "\n// " + name + "\n"
    i = real_teal.find(marker)
    if i < 0:
        return None
    rest = real_teal[i + len(marker):].split("\n", 1)[0]
    return rest[:-1] if rest.endswith(":") else None


def main(argv):
    args = parse_args(argv)
    if args.replay:
        return replay(args.replay)
    ck = Check("C18", args.tier)
    thorough = args.tier == "thorough"
    import pyteal as pt
    rc, out = sh("%s %s/harness/translate.py" % (PY, VERIF))
    if rc != 0:
        ck.violation("translator aborted: PyTeal's tables no longer have the expected shape", {"broken": "harness/translate.py", "log": out[-2000:]}, no_failing_input=True)
        return ck.finish(level="proof", rule="translator failed")
    ck.run_proofs("Props/C18.v", PROOF_FILES, extra_targets=["Extract/Main_c18.vo", "Extract/Main.vo"])
    m18 = Model("c18")
    avm = Model("main")
    rng = ck.rng
    pragmas = pragma_constraints(pt)

    # ---- (b1) splitlines: Python vs Coq ----
    sl_bad = part_splitlines(ck, m18, thorough)
    ctor_bad = part_comment_ctor(ck, pt)

    # ---- (b2)+(c) programs and their annotated variants ----
    orc = Oracle(ck, pt, m18, avm, nctx=4 if thorough else 3)
    opts_all = opts_thorough() if thorough else OPTS_QUICK
    bases = [(n, Prog(r, s)) for (n, r, s) in G.base_programs()]
    texts = list(G.TEXTS)
    roles = {}
    nvar = 0
    for bi, (name, prog) in enumerate(bases):
        vs = list(variants_of(prog, rng, pragmas, texts[bi % 7:] + texts[:bi % 7], dense=True))
        # every variant under a rotating pair of option sets (all option sets are covered across variants)
        for vi, (var, desc, kind, nb, role) in enumerate(vs):
            roles[role] = roles.get(role, 0) + 1
            k = (1 if kind in ("pragma", "nonce") or (kind == "comment-wrap" and vi % 3) else 2) if not thorough else 6
            for j in range(k):
                opt = opts_all[(vi * k + j + bi) % len(opts_all)]
                if prog.subs and opt[0] < 4:
                    opt = (6, opt[1], opt[2], opt[3], opt[4])
                lit = G.ABuilder(pt).nonce_lit(nb[0], nb[1]) if nb else None
                orc.pair(prog, var, opt, "%s: %s" % (name, desc), kind, nonce_lit=lit, force_run=(vi + j) % 5 == 0, may_be_invalid=(role == "seq.after-last"),
                         nonce_val=G.nonce_value(nb[0], nb[1]) if nb else None)
                nvar += 1
    # directed: the three stream-changing classes under every option set (so that every KNOWN class is exercised where it applies)
    bd = dict(bases)
    for opt in opts_all:
        p = bd["if-empty"]
        orc.pair(p, Prog(G.apply_wrap(p.main, (1, 2), "comment", "hi")), opt, "directed: If(c).Then(Comment('hi', Seq()))", "comment-wrap", force_run=True)
        p = bd["store-load"]
        orc.pair(p, Prog(G.apply_wrap(p.main, (2, 1), "comment", "c")), opt, "directed: Return(Comment('c', x.load())) after x.store", "comment-wrap", force_run=True)
        orc.pair(p, Prog(G.apply_insert(p.main, (), 2, "c")), opt, "directed: Comment('c') between store and Return(load)", "comment-stmt", force_run=True)
        if opt[0] >= 4:
            p = bd["sub-ret"]
            body = p.subs[0][4]
            orc.pair(p, p.with_unit("f", G.apply_insert(body, (), len(body), "done")), opt, "directed: Comment('done') after Return() in a subroutine", "comment-stmt", force_run=True)
        p = Prog(("seq", G.POP1, G.APPROVE))
        orc.pair(p, Prog(G.apply_insert(p.main, (), 3, "end")), opt, "directed: Comment('end') after Approve() in main", "comment-stmt")
    # the same text at several places of one program (and, across pairs, of one session): texts are reused on purpose
    same_bases = [bd[n] for n in ("log-put", "store-load-2", "assert", "while-break", "if-else", "for")]
    for k, p in enumerate(same_bases):
        for j, t in enumerate(("bump counter", "two\nlines", "hi")):
            opt = [o for o in opts_all if o[0] >= 5 and o[1]][(k + j) % 3]
            orc.pair(p, same_text_variant(p, rng, t), opt, "%s: the same text %r at several places" % (p.main[0], t), "same-text", force_run=True)
    # Nonce with every hazard text (utf8) and the other bases, at the top of a few bases, with and without assembleConstants:
    # whatever the text and the options, a Nonce adds the push-and-pop pair and nothing else
    nonce_bases = [bd["if-else"], bd["store-load-2"], bd["sub-uint"]]
    nonce_opts = [(6, True, None, None, True), (10, True, None, None, True), (8, True, None, None, False), (3, False, None, None, True)] if not thorough else \
        [o for o in opts_all if o[0] >= 3 and (o[4] or (o[2] is None and o[3] is None))]
    ncase = 0
    for ti, t in enumerate(texts):
        nb = ("utf8", "N18:" + t)
        r = call_real(G.ABuilder(pt).nonce_lit, nb[0], nb[1])
        if r[0] != "ok":
            orc.bump("nonce-text-rejected:" + r[1])          # e.g. a text Bytes() itself refuses
            continue
        for j in range(2 if not thorough else len(nonce_opts)):
            p = nonce_bases[(ti + j) % len(nonce_bases)]
            opt = nonce_opts[(ti + j) % len(nonce_opts)]
            if p.subs and opt[0] < 4:
                opt = (6,) + opt[1:]
            var = Prog(G.apply_wrap(p.main, (), "nonce", None, nb), p.subs)
            orc.pair(p, var, opt, "Nonce(utf8, 'N18:'+%r, .) at the top" % t[:30], "nonce", nonce_lit=r[1], force_run=True, nonce_val=G.nonce_value(*nb))
            ncase += 1
    for k, nb in enumerate([("base16", "0xA1b2C3"), ("base16", "a1B2"), ("base32", "MNXW45DFNZ2A===="), ("base32", "MNXW45DFNZ2A"), ("base64", "Y29udGVudA=="), ("base64", "//8=")]):
        for opt in nonce_opts:
            p = nonce_bases[k % len(nonce_bases)]
            if p.subs and opt[0] < 4:
                opt = (6,) + opt[1:]
            var = Prog(G.apply_wrap(p.main, (), "nonce", None, nb), p.subs)
            orc.pair(p, var, opt, "Nonce(%s, %r, .) at the top" % nb, "nonce", nonce_lit=G.ABuilder(pt).nonce_lit(*nb), force_run=True, nonce_val=G.nonce_value(*nb))
            ncase += 1
    ck.coverage["nonce_text_cases"] = ncase
    # random programs (main routine only), sampled insertion points, stacked annotations
    nrand = 400 if thorough else 40
    hist = {}
    for i in range(nrand):
        version, app, ss, fp = random_case_params(rng)
        g = Gen(rng, version, app, size=rng.choice([5, 10, 20, 40]), allow_new_ops=0.0)
        r = g.program(depth=rng.choice([1, 2, 3]))
        init = tuple(("op", "store", (("slot", k), ), "n", ((I(0) if t == "u" else B(b"")),)) for k, t in g.vars.items())
        if init:
            r = ("seq",) + init + (r,)
        for k_, v_ in g.hist.items():
            hist[k_] = hist.get(k_, 0) + v_
        prog = Prog(r)
        opt = (version, app, ss, fp, version >= 3 and rng.random() < 0.25)
        for (var, desc, kind, nb, role) in variants_of(prog, rng, pragmas, rng.sample(texts, 12), dense=False):
            roles[role] = roles.get(role, 0) + 1
            lit = G.ABuilder(pt).nonce_lit(nb[0], nb[1]) if nb else None
            orc.pair(prog, var, opt, "random#%d: %s" % (i, desc), kind, nonce_lit=lit, force_run=rng.random() < 0.15, may_be_invalid=(role == "seq.after-last"),
                     nonce_val=G.nonce_value(nb[0], nb[1]) if nb else None)
        for _ in range(2):
            var = stacked_variant(prog, rng, pragmas, texts, rng.choice([2, 3, 5]))
            orc.pair(prog, var, opt, "random#%d: stacked annotations" % i, "stacked", force_run=rng.random() < 0.3)
    ck.coverage["constructor_histogram"] = hist
    ck.coverage["insertion_roles"] = roles

    # ---- subroutine names ----
    name_bad = []
    sub_bases = [(n, p) for (n, p) in bases if p.subs]
    names = list(G.NAMES) + (G.LONG_NAMES if thorough else G.LONG_NAMES_QUICK)
    for bi, (name, prog) in enumerate(sub_bases):
        opts = [o for o in opts_all if o[0] >= 4]
        for ni, nm in enumerate(names):
            key = prog.subs[ni % len(prog.subs)][0]
            var = prog.with_name(key, nm)
            for j in range(2 if not thorough else 5):
                opt = opts[(ni * 2 + j + bi) % len(opts)]
                orc.pair(prog, var, opt, "%s: subroutine %s renamed to %r" % (name, key, nm[:40]), "rename", force_run=True)
            # the model's label/header functions against the real output
            if G.latin1(nm) and nm != "" and len(prog.subs) == 1:
                q = compile_prog(pt, m18, var, (6, True, None, None, False), want_model=False)
                if q["real"][0] == "ok":
                    resp = m18.ask((S("sublabel"), nm, 0))
                    ck.count(("sublabel", nm))
                    if resp[0] != S("ok") or resp[2] not in q["real"][1] or ("callsub " + resp[1]) not in q["real"][1]:
                        name_bad.append({"name": nm, "model": repr(resp)[:300], "real": q["real"][1][:400]})
    ck.coverage["names_tried"] = len(names)

    # ---- known findings replayed against the real code ----
    rk = call_real(replay_known, ck, pt, m18, avm)
    if rk[0] != "ok":
        orc.violations.append(("a witness program of a known finding (plain or annotated form) can no longer be built or compiled: %s %s" % (rk[1], rk[2][:200]),
                               {"kind": "known-replay", "exception": list(rk[1:])}))

    # ---- verdict ----
    ck.coverage["pair_statistics"] = orc.stats
    ck.coverage["known_class_hits"] = orc.known_hits
    ck.coverage["programs"] = len(bases) + nrand
    for what, d in orc.violations[:8]:
        ck.violation(what, d)
    if sl_bad:
        ck.model_problem("Coq splitlines differs from str.splitlines on %d inputs, first: %r" % (len(sl_bad), sl_bad[0]))
    if ctor_bad and not orc.violations:
        ck.violation("Comment(text) does not emit one `// line` per text.splitlines() line (or rejects a text): %r" % (ctor_bad[0],),
                     {"kind": "comment-ctor", "first": repr(ctor_bad[0])})
    if name_bad and not orc.violations:
        ck.violation("subroutine label/header differs from the model (sub_label / sub_header): theorems label_chars_safe / sub_header_* no longer transfer",
                     {"kind": "correspondence", "broken": "Comp.Annotate.sub_label/sub_header vs resolveSubroutines/TealLabel.assemble", "first": name_bad[0]}, no_failing_input=True)
    if orc.mismatches and not orc.violations:
        ck.violation("correspondence broken: compile_model (with the Coq annotation constructors) differs from compileTeal on %d programs; the stream/behaviour oracle on the real outputs found nothing wrong" % len(orc.mismatches),
                     {"kind": "correspondence", "broken": "text equality compileTeal vs compile_model o expand", "first": orc.mismatches[0]}, no_failing_input=True)
    if not ck.proof_ok and not orc.violations:
        ck.violation("proof obligation broken: Props/C18.v no longer checks", {"kind": "proof", "broken": "Props/C18.v", "log": ck.proof_log[-1500:]}, no_failing_input=True)
    ck.coverage["disagreements_checked"] = len(orc.mismatches) + len(orc.violations) + sum(orc.known_hits.values())
    m18.close()
    avm.close()
    return ck.finish(
        level="proof",
        rule="programs: hand-written bases covering every control construct, empty blocks, store/load adjacency, tail returns and subroutines, plus seeded random well-typed "
             "main routines; variants: ONE annotation at EVERY insertion point of the base (Comment around each sub-expression incl. conditions, operands, branch and loop bodies; "
             "stand-alone Comment before/after every statement of every Seq; Assert comments; Pragma with satisfied constraints around sub-expressions; Nonce at the top and inside; "
             "subroutine renames) with texts rotating through a hazard list (all splitlines break characters, quotes, //, ;, TEAL-looking text, non-ASCII, 5000 chars), plus stacked "
             "annotations on random programs; each pair compiled by the real compiler under rotating (version 2..10, mode, OptimizeOptions) and compared after comment stripping "
             "(extracted tokeniser) and label alpha-renaming; differing pairs are classified (CFG canonical form + class predicates) and both texts executed on the extracted AVM; "
             "model: compile_model∘expand text equality for every latin-1, parameterless program; distinct = (plain, variant, options[, context]); non-trivial = both compile",
        trusted_base=[
            "TEAL tokeniser/parser coq/AVM/Parse.v (hand-written from the assembler's documented behaviour; lines are split at \\n only) and AVM semantics coq/AVM",
            "Source semantics coq/Src/Denote.v; comment op = no-op, byte/pop as in AVM/Machine.v",
            "Comp/*.v and Comp/Annotate.v are hand models of pyteal (Comment/Assert/Nonce/Pragma/resolveSubroutines/TealLabel.assemble), tied by text equality on every run",
            "str.splitlines modelled on code points < 256 (U+2028/U+2029 exercised on the real code only)",
            "harness: c18_gen.py builds annotated programs through the public API (Comment, Assert(comment=), Pragma, Nonce, Subroutine(name=)); cfg_canon/class predicates are Python",
            "Extraction: ExtrOcamlBasic + ExtrOcamlNativeString; driver.ml",
        ])


# ------------------------------------------------------------------------------------------------
# known findings
# ------------------------------------------------------------------------------------------------
def replay_known(ck, pt, m18, avm):
    c = pt.Txn.fee() < pt.Int(3)
    comp = lambda e, v=6, **kw: call_real(lambda: pt.compileTeal(e, pt.Mode.Application, version=v, **kw))  # noqa
    # (2) name with a line feed
    def mk(name):
        @pt.Subroutine(pt.TealType.none, name=name)
        def f():
            return pt.Pop(pt.Int(7))
        return pt.Seq(f(), pt.Approve())
    a, b = comp(mk("foo")), comp(mk("foo\nint 0\nreturn"))
    if a[0] == "ok" and b[0] == "ok" and stream(m18, a[1]) != stream(m18, b[1]) and "\nint 0\nreturn\n" in b[1]:
        if ck.match_known(lambda f: f["id"] == F_NAME):
            ck.known(F_NAME, "a subroutine name containing a line feed injects instructions into the TEAL text (behaviour or assemblability changes)")
        else:
            ck.violation("Subroutine(name='foo\\nint 0\\nreturn') injects `int 0; return` into the program text", {"kind": "name", "teal": b[1].split("\n")})
    # (A)
    a, b = comp(pt.Seq(pt.If(c).Then(pt.Seq()), pt.Approve())), comp(pt.Seq(pt.If(c).Then(pt.Comment("hi", pt.Seq())), pt.Approve()))
    if a[0] == "ok" and b[0] == "ok" and stream(m18, a[1]) != stream(m18, b[1]):
        if ck.match_known(lambda f: f["id"] == F_BLOCK):
            ck.known(F_BLOCK, "an annotation that is the only content of a block (e.g. If(c).Then(Comment(t, Seq()))) keeps the block from being elided: bnz becomes bz + block (same behaviour)")
        else:
            ck.violation("If(c).Then(Comment('hi', Seq())) changes bnz into bz + block", {"kind": "block", "plain": a[1].split("\n"), "annotated": b[1].split("\n")})
    # (B)
    def sl(annot):
        x = pt.ScratchVar(pt.TealType.uint64)
        return pt.Seq(x.store(pt.Txn.fee()), pt.Return(pt.Comment("c", x.load()) if annot else x.load()))
    a, b = comp(sl(False), 9), comp(sl(True), 9)
    if a[0] == "ok" and b[0] == "ok" and stream(m18, a[1]) != stream(m18, b[1]):
        if ck.match_known(lambda f: f["id"] == F_OPT):
            ck.known(F_OPT, "a comment between `store k` and `load k` keeps the scratch-slot optimiser (default from v9) from cancelling the pair: annotated code keeps store/load (same behaviour, higher cost)")
        else:
            ck.violation("a Comment between store and load disables the slot optimiser", {"kind": "optimizer", "plain": a[1].split("\n"), "annotated": b[1].split("\n")})
    # (C)
    a, b = comp(pt.Seq(pt.Pop(pt.Int(1)), pt.Approve())), comp(pt.Seq(pt.Pop(pt.Int(1)), pt.Approve(), pt.Comment("end")))
    def sub(annot):
        @pt.Subroutine(pt.TealType.none)
        def g():
            return pt.Seq(pt.Pop(pt.Int(1)), pt.Return(), pt.Comment("done")) if annot else pt.Seq(pt.Pop(pt.Int(1)), pt.Return())
        return pt.Seq(g(), pt.Approve())
    a2, b2 = comp(sub(False)), comp(sub(True))
    if (a[0] == "ok" and b[0] != "ok") or (a2[0] == "ok" and b2[0] == "ok" and stream(m18, a2[1]) != stream(m18, b2[1])):
        if ck.match_known(lambda f: f["id"] == F_TAIL):
            ck.known(F_TAIL, "a stand-alone Comment after the final Return/Approve of the main routine makes compilation fail (TealCompileError) — and in a subroutine appends a dead retsub")
        else:
            ck.violation("a trailing Comment after a final Return changes the program", {"kind": "tail", "main": b[:2], "sub": (b2[1].split("\n") if b2[0] == "ok" else b2[:2])})


def replay(path):
    import pyteal as pt
    data = json.load(open(path))
    print(json.dumps({k: data[k] for k in data if k in ("what", "kind", "broken")}, indent=1))
    if data.get("kind") != "pair":
        return 0
    m18 = Model("c18")
    avm = Model("main")
    prog, var, opt = Prog.from_desc(data["plain"]), Prog.from_desc(data["variant"]), tuple(data["opt"])
    opt = opt + (False,) * (5 - len(opt))
    p = compile_prog(pt, m18, prog, opt)
    q = compile_prog(pt, m18, var, opt)
    print("plain    :", p["real"][0], "" if p["real"][0] != "ok" else "\n" + p["real"][1])
    print("annotated:", q["real"][0], "" if q["real"][0] != "ok" else "\n" + q["real"][1])
    if p["real"][0] == "ok" and q["real"][0] == "ok":
        same = stream(m18, p["real"][1]) == stream(m18, q["real"][1])
        print("streams equal:", same)
        if "ctx" in data:
            ctx = parse_sx(data["ctx"])
            a = observable(avm.ask("(run %s %s)" % (sx(ctx), sx_str(teal_bytes(p["real"][1])))))
            b = observable(avm.ask("(run %s %s)" % (sx(ctx), sx_str(teal_bytes(q["real"][1])))))
            print("behaviour:", a, b)
            return 1 if a != b else (0 if same else 1)
        return 0 if same else 1
    return 0 if p["real"][:2] == q["real"][:2] else 1


if __name__ == "__main__":
    sys.exit(run_main(main))
