"""C13 - Literals reach the program byte-for-byte.

(1) proofs: Props/C13.v (25 theorems about Lit/Escape.v, Lit/BaseN.v against AVM/Parse.v, Lit/RFC4648.v, Lit/Spec.v)
(2) correspondence: pyteal.util.escapeStr, valid_base16/32/64, valid_address, Bytes/Int/Addr/MethodSignature
    (`__teal__` op text) vs the extracted model, exhaustive-small + stratified + seeded random
(3) semantic oracle independent of the escape model: real compileTeal output, read line by line by the
    extracted assembler grammar (tokens_of_line + parse_stmt), vs Python's own decoding of the user's literal
(4) known findings replayed against the real code
"""
import base64
import binascii
import hashlib
import itertools
import json
import re
import sys
import time

from common import *  # noqa

ensure_env()

PROOFS = ["Proofs/LitEscapeProof.v", "Proofs/LitLineProof.v", "Proofs/LitArith.v", "Proofs/LitBaseNProof.v",
          "Proofs/LitIntProof.v", "Proofs/LitFinalProof.v", "Proofs/LitEncodeProof.v", "Proofs/LitGoTokProof.v"]
U64 = 1 << 64
B32 = "ABCDEFGHIJKLMNOPQRSTUVWXYZ234567"
B64 = "ABCDEFGHIJKLMNOPQRSTUVWXYZabcdefghijklmnopqrstuvwxyz0123456789+/"
BATCH = 96

# strings that have hurt (or would hurt) an escaper / tokeniser; always run first
CORPUS = [
    "", "a", '"', "\\", '\\"', '"\\', "\\\\", '\\\\"', '"" ', "//", "a // b", ";", "a; int 1", '" // x', '"; int 1; byte "',
    "\n", "\r", "\t", "\r\n", "a\nint 1", "\x00", "\x1f", "\x7f", "\x80", "\xff", "\xa0", "\xad", "'", "\\n", "\\x41", "\\x", "\\u0041",
    "\u00e9", "\u2028", "\u2029", "\u0085", "\u0100", "\u07ff", "\u0800", "\uffff", "\U00010000", "\U0001f600", "\U0010ffff",
    "base64", "b64", "base64(", "base64(AA//)", "0x00", "TMPL_X", "#pragma version 1", " ", "  a  ", "a\\", 'a\\"', "\\" * 7, '"' * 7,
    "x" * 300, ("\\\"\n;/" * 40),
    # backslash next to characters that an UNESCAPER might give a meaning (assembleConstants decodes the escaped text)
    "it\\'s", "\\'", "'\\", "\\\\'", "'", "\\'\\", "C:\\dir\\'x'", "\\t", "\\r", "\\a", "\\b", "\\f", "\\v", "\\0", "\\1", "\\7", "\\101",
    "\\377", "\\400", "\\08", "\\x4", "\\x41", "\\X41", "\\u0041", "\\u004", "\\U00000041", "\\N{DASH}", "\\N", "\\\n", "\\ ", "\\\\n",
    "\\\\x41", "\\\"n", "a\\\\", "\\\\\\", "\\\\\\\\", "%s", "{}", "{0}", "$x", "\\N{LATIN SMALL LETTER A}",
]
HAZ = ['"', "\\", "\n", "\r", "\t", "/", "//", ";", " ", "x", "n", "t", "r", "0", "a", "f", "F", "(", ")", "=", "#", "\x00", "\x1f",
       "\x7f", "\x80", "\xff", "\u00e9", "\u2028", "\u0100", "\uffff", "\U0001f600", "\U0010ffff", "'", "base64", "b64(", "\\x", '\\"', "\\\\", "\x0b", "\x0c",
       "\\'", "\\1", "\\0", "\\u0041", "\\N", "\\a", "1", "4", "u", "U", "N", "{", "}", "'"]


# ---------------------------------------------------------------------------------------------
# wire helpers
# ---------------------------------------------------------------------------------------------
def wire_bytes_of_text(s):
    """TEAL text as the bytes an assembler would see (UTF-8)."""
    return s.encode("utf-8", "surrogatepass")


def narrow(s):
    """Validators only test class membership and lengths: map every code point above 255 (and
    surrogates) to one fixed character outside every class, so the 8-bit model can be asked."""
    return "".join(c if ord(c) < 256 else "\xff" for c in s)


def ask_batched(model, cmd, items, enc, head=""):
    """items -> list of responses; each item rendered by enc(item) (already s-expression text)."""
    out = []
    for i in range(0, len(items), BATCH):
        req = "(" + cmd + head + " " + " ".join(enc(x) for x in items[i:i + BATCH]) + ")"
        res = model.ask(req)
        if not (isinstance(res, list) and res and res[0] == S("ok")):
            raise RuntimeError("model: %r -> %r" % (req[:200], res))
        if len(res) - 1 != len(items[i:i + BATCH]):
            raise RuntimeError("model answered %d items for %d" % (len(res) - 1, len(items[i:i + BATCH])))
        out += res[1:]
    return out


def opt(r):
    """(some x) / (none) -> x / None"""
    if r[0] == S("some"):
        return r[1]
    if r[0] == S("none"):
        return None
    raise RuntimeError("model: %r" % (r,))


def model_text(x):
    """model strings are latin-1 views of byte strings"""
    return None if x is None else x


def enc_bytes_arg(a):
    kind = a[0]
    if kind == "utf8":
        return "(utf8 %s)" % sx_hex(a[1])
    if kind == "raw":
        return "(raw %s)" % sx_hex(a[1])
    return "(base %s %s)" % (sx_str(narrow(a[1])), sx_str(narrow(a[2])))


# ---------------------------------------------------------------------------------------------
# the real side
# ---------------------------------------------------------------------------------------------
def real_op_text(expr):
    import pyteal as pt
    from pyteal.compiler.compiler import CompileOptions
    start, _ = expr.__teal__(CompileOptions(version=6, mode=pt.Mode.Application))
    assert len(start.ops) == 1 and getattr(start, "nextBlock", None) is None
    return start.ops[0].assemble()


def real_line(ctor, *args):
    """("ok", line) / ("rej", ExceptionClass)"""
    r = call_real(lambda: real_op_text(ctor(*args)))
    if r[0] == "ok":
        return ("ok", r[1])
    return ("rej", r[1])


def real_valid(fn, s):
    r = call_real(fn, s)
    return r[0] == "ok" if r[0] == "ok" or r[1] == "TealInputError" else r[1]


def to_latin(line):
    """model lines are byte strings shown as latin-1; the real line is a str -> its UTF-8 bytes as latin-1"""
    return wire_bytes_of_text(line).decode("latin-1")


# ---------------------------------------------------------------------------------------------
# independent expectations (Python's own decoders)
# ---------------------------------------------------------------------------------------------
def py_b16(s):
    if s.startswith("0x"):
        s = s[2:]
    if not re.fullmatch(r"(?:[0-9A-Fa-f]{2})*", s, re.A):
        return None
    return bytes.fromhex(s)


def py_b64(s):
    """RFC 4648 base64 with mandatory padding: shape checked procedurally (the stdlib tolerates excess
    padding even with validate=True), value from the stdlib."""
    if len(s) % 4 != 0 or not all(ord(c) < 128 for c in s):
        return None
    core = s.rstrip("=")
    npad = len(s) - len(core)
    if npad > 2 or any(c not in B64 for c in core) or (npad and len(core) % 4 != 4 - npad):
        return None
    try:
        return base64.b64decode(s.encode("ascii"), validate=True)
    except (binascii.Error, ValueError):
        return None


def py_b32(s):
    """RFC 4648 base32; the final group may be written without padding (padded here for the stdlib)."""
    if not all(ord(c) < 128 for c in s):
        return None
    body = s
    if "=" not in s:
        k = len(s) % 8
        if k in (2, 4, 5, 7):
            body = s + "=" * (8 - k)
        elif k != 0:
            return None
    elif len(s) % 8 != 0:
        return None
    if not re.fullmatch(r"[A-Z2-7]*=*", body, re.A):
        return None
    try:
        return base64.b32decode(body.encode("ascii"))
    except (binascii.Error, ValueError):
        return None


def py_addr(s):
    from algosdk import encoding
    try:
        if isinstance(s, str) and encoding.is_valid_address(s):
            return encoding.decode_address(s)
    except Exception:
        pass
    return None


def sha512_256(b):
    from algosdk import encoding
    return encoding.checksum(b)


def expected_value(lit):
    """lit = ("utf8", str) | ("raw", bytes) | ("base", base, text) | ("int", n) | ("addr", s) | ("method", s).
    -> ("bytes", b) / ("int", n) / None when the literal is malformed per the specification."""
    k = lit[0]
    if k == "utf8":
        try:
            return ("bytes", lit[1].encode("utf-8"))
        except UnicodeEncodeError:
            return None
    if k == "raw":
        return ("bytes", bytes(lit[1]))
    if k == "base":
        f = {"base16": py_b16, "base32": py_b32, "base64": py_b64}.get(lit[1])
        v = f(lit[2]) if f else None
        return None if v is None else ("bytes", v)
    if k == "int":
        n = lit[1]
        return ("int", n) if type(n) is int and 0 <= n < U64 else None
    if k == "addr":
        v = py_addr(lit[1])
        return None if v is None else ("bytes", v)
    if k == "method":
        s = lit[1]
        if type(s) is not str or s == "":
            return None
        try:
            return ("bytes", sha512_256(s.encode("utf-8"))[:4])
        except UnicodeEncodeError:
            return None
    raise ValueError(k)


def build_real(lit):
    import pyteal as pt
    k = lit[0]
    if k == "utf8":
        return pt.Bytes(lit[1])
    if k == "raw":
        return pt.Bytes(lit[1])
    if k == "base":
        return pt.Bytes(lit[1], lit[2])
    if k == "int":
        return pt.Int(lit[1])
    if k == "addr":
        return pt.Addr(lit[1])
    if k == "method":
        return pt.MethodSignature(lit[1])
    raise ValueError(k)


def lit_json(lit):
    def j(x):
        if isinstance(x, (bytes, bytearray)):
            return {"bytes_hex": bytes(x).hex()}
        if isinstance(x, str):
            return {"str_codepoints": [ord(c) for c in x]} if not x.isascii() or not x.isprintable() else x
        if isinstance(x, tuple):
            return lit_json(x)
        return x
    return [j(x) for x in lit]


def mode_from_what(what):
    for m in Oracle.MODES:
        if what.startswith("[%s]" % Oracle.mode_tag(m)):
            return m
    return (False, 1)


# ---------------------------------------------------------------------------------------------
# semantic oracle: real compileTeal text read by the extracted assembler grammar
# ---------------------------------------------------------------------------------------------
class Oracle:
    def __init__(self, ck, model):
        self.ck = ck
        self.model = model
        self.fail = []          # failing inputs of the PROPERTY on the real code
        self.checked = 0
        self.prevchar_differs = 0
        self.hist = {}
        self.by_mode = {}

    def asm(self, lines, msel, cmd="asm"):
        head = " (msel" + "".join(" (%s %s)" % (sx_str(wire_bytes_of_text(k)), sx_hex(v)) for k, v in msel) + ")"
        return ask_batched(self.model, cmd, lines, lambda l: sx_str(wire_bytes_of_text(l)), head=head)

    def read_program(self, teal, msel):
        """-> list of statements [(op, imms...)] or a description of what is unreadable"""
        res = self.asm(teal.split("\n"), msel)
        stmts = []
        for r in res:
            for st in r[1][1:]:
                stmts.append(st)
        return stmts

    # compile flavours: (assembleConstants, how many times each literal is used).  With assembleConstants a literal
    # used once becomes pushbytes/pushint, used more often an entry of bytecblock/intcblock loaded by bytec*/intc*.
    MODES = [(False, 1), (True, 1), (True, 2), (True, 3)]

    @staticmethod
    def mode_tag(mode):
        return "plain" if not mode[0] else "assembleConstants=True, each literal used %d time%s" % (mode[1], "" if mode[1] == 1 else "s")

    @staticmethod
    def resolve(stmts, plain):
        """statements of a program `#pragma; [intcblock]; [bytecblock]; (V pop)* V return` -> the list of values the
        V instructions push (constant-block references resolved), or a str saying what is unreadable."""
        if not stmts or stmts[0] != [S("pragma"), 6]:
            return "no pragma line"
        i = 1
        blocks = {"intcblock": None, "bytecblock": None}
        while i < len(stmts) and stmts[i][0] == S("instr") and stmts[i][1] in blocks:
            if plain or blocks[stmts[i][1]] is not None:
                return "unexpected %s" % stmts[i][1]
            blocks[stmts[i][1]] = [imm[1] for imm in stmts[i][2:]]
            kinds = set(imm[0] for imm in stmts[i][2:])
            if kinds - {S("int") if stmts[i][1] == "intcblock" else S("bytes")}:
                return "malformed %s" % stmts[i][1]
            i += 1
        body = stmts[i:]
        if len(body) < 2 or len(body) % 2 != 0 or body[-1] != [S("instr"), "return"]:
            return "unexpected program shape %r" % (body[-3:],)
        vals = []
        for k in range(0, len(body), 2):
            g = body[k]
            if k + 1 < len(body) - 1 and body[k + 1] != [S("instr"), "pop"]:
                return "expected pop, found %r" % (body[k + 1],)
            if g[0] != S("instr"):
                return "unreadable statement %r" % (g,)
            op = g[1]
            direct = ("byte", "int", "addr", "method") if plain else ("byte", "int", "addr", "method", "pushbytes", "pushint")
            if op in direct and len(g) == 3 and g[2][0] in (S("bytes"), S("int")):
                if (g[2][0] == S("int")) != (op in ("int", "pushint")):
                    return "unreadable statement %r" % (g,)
                vals.append(("int" if g[2][0] == S("int") else "bytes", g[2][1]))
                continue
            m = re.fullmatch(r"(intc|bytec)(?:_([0-3]))?", op) if not plain else None
            if m:
                blk = blocks["intcblock" if m.group(1) == "intc" else "bytecblock"]
                if m.group(2) is not None and len(g) == 2:
                    idx = int(m.group(2))
                elif m.group(2) is None and len(g) == 3 and g[2][0] == S("int"):
                    idx = g[2][1]
                else:
                    return "unreadable statement %r" % (g,)
                if blk is None or idx >= len(blk):
                    return "%s %d refers outside the constant block" % (m.group(1), idx)
                vals.append(("int" if m.group(1) == "intc" else "bytes", blk[idx]))
                continue
            return "unreadable statement %r" % (g,)
        return vals

    def check_group(self, lits, mode=None):
        """Compile Seq(Pop(l1) x reps ... Pop(lk) x reps, Approve()) with the real compiler (with or without
        assembleConstants) and compare the pushed values, in order, with Python's own decoding of each literal.
        Returns the failing literals [(literal, what, teal)]."""
        import pyteal as pt
        mode = mode or self.mode
        asmc, reps = mode
        exps = [expected_value(l) for l in lits]
        assert all(e is not None for e in exps)
        msel = [(l[1], e[1]) for l, e in zip(lits, exps) if l[0] == "method"]
        r = call_real(lambda: pt.compileTeal(pt.Seq(*[pt.Pop(build_real(l)) for l in lits for _ in range(reps)], pt.Approve()),
                                             pt.Mode.Application, version=6, assembleConstants=asmc))
        tag = self.mode_tag(mode)
        if r[0] != "ok":
            if len(lits) == 1:
                return [(lits[0], "[%s] well-formed literal does not compile: %s %s" % (tag, r[1], r[2] if len(r) > 2 else ""), None)]
            return [x for l in lits for x in self.check_group([l], mode)]
        teal = r[1]
        stmts = self.read_program(teal, msel)
        got = self.resolve(stmts, not asmc)
        want = [e for e in exps for _ in range(reps)] + [("int", 1)]
        self.checked += len(lits)
        if got == want:
            return []
        if len(lits) > 1:
            out = []
            for l in lits:
                out += self.check_group([l], mode)
            if not out:   # only the combination fails: minimise the group and report it
                grp = list(lits)
                i = 0
                while len(grp) > 2 and i < len(grp):
                    cand = grp[:i] + grp[i + 1:]
                    if self.group_fails(cand, mode):
                        grp = cand
                    else:
                        i += 1
                g2 = self.group_fails(grp, mode)
                out = [(("group",) + tuple(grp), "[%s] each literal reads back correctly alone but not together: %s" % (tag, g2 or "?"), teal)]
            return out
        shown = got if isinstance(got, str) else got[:-1][:3]
        return [(lits[0], "[%s] program text reads as %r, expected push of %r" % (tag, shown, exps[0]), teal)]

    mode = (False, 1)

    def group_fails(self, lits, mode):
        """None if the program with these literals reads back site by site as each literal's own denotation,
        else a description (no fallback to single literals)."""
        import pyteal as pt
        asmc, reps = mode
        exps = [expected_value(l) for l in lits]
        msel = [(l[1], e[1]) for l, e in zip(lits, exps) if l[0] == "method"]
        r = call_real(lambda: pt.compileTeal(pt.Seq(*[pt.Pop(build_real(l)) for l in lits for _ in range(reps)], pt.Approve()),
                                             pt.Mode.Application, version=6, assembleConstants=asmc))
        if r[0] != "ok":
            return "does not compile: %s" % (r[1],)
        got = self.resolve(self.read_program(r[1], msel), not asmc)
        want = [e for e in exps for _ in range(reps)] + [("int", 1)]
        if got == want:
            return None
        if isinstance(got, str):
            return got
        sites = [l for l in lits for _ in range(reps)]
        for k, (g, w) in enumerate(zip(got, want)):
            if g != w and k < len(sites):
                return "site %d (%s %r) pushes %r, its constructor denotes %r; program:\n%s" % (k + 1, sites[k][0], sites[k][-1] if not isinstance(sites[k][-1], (bytes, bytearray)) else sites[k][-1].hex(), g, w, r[1])
        return "program reads as %r, expected %r" % (got, want)

    def run(self, lits, group=16, modes=None):
        """lits: well-formed literals.  Collect failures (each: literal, what, teal) under every compile flavour."""
        fails = []
        for mode in (modes or self.MODES):
            for i in range(0, len(lits), group):
                fails += self.check_group(lits[i:i + group], mode)
            self.by_mode[self.mode_tag(mode)] = self.by_mode.get(self.mode_tag(mode), 0) + len(lits)
        for l in lits:
            self.hist[l[0]] = self.hist.get(l[0], 0) + 1
        return fails

    def line_contexts(self, lines):
        """What-if contexts on REAL literal lines: a trailing comment and a following statement must not change
        how the literal is read (AVM/Parse.v); also count where the previous-character variant differs."""
        bad = []
        a = self.asm(lines, [])
        withc = self.asm([l + " // c\"omment ; \\" for l in lines], [])
        withs = self.asm([l + "; int 7" for l in lines], [])
        prevc = self.asm([l + " // c" for l in lines], [], cmd="asm-prevchar")
        for l, r0, r1, r2, r3 in zip(lines, a, withc, withs, prevc):
            s0 = r0[1][1:]
            if r1[1][1:] != s0 or r2[1][1:] != s0 + [[S("instr"), "int", [S("int"), 7]]]:
                bad.append(l)
            if r3[1][1:] != s0:
                self.prevchar_differs += 1
        return bad


def shrink(oracle, lit, mode):
    """Greedy minimisation of a failing Bytes(str) / MethodSignature / Bytes(base,text) literal: drop chunks and
    single characters while the literal stays well-formed and the oracle still fails."""
    if lit[0] not in ("utf8", "method", "base") or not isinstance(lit[-1], str):
        return lit
    def fails(txt):
        l = lit[:-1] + (txt,)
        if expected_value(l) is None:
            return False
        r = call_real(lambda: oracle.check_group([l], mode))
        return r[0] == "ok" and bool(r[1])
    txt = lit[-1]
    budget = 400
    chunk = max(1, len(txt) // 2)
    while chunk >= 1 and budget > 0:
        i = 0
        progressed = False
        while i < len(txt) and budget > 0:
            cand = txt[:i] + txt[i + chunk:]
            budget -= 1
            if cand != txt and fails(cand):
                txt = cand
                progressed = True
            else:
                i += chunk
        if not progressed:
            chunk //= 2
    return lit[:-1] + (txt,)


# ---------------------------------------------------------------------------------------------
# generators
# ---------------------------------------------------------------------------------------------
def rand_hazard_string(rng, maxlen=40):
    n = rng.choice([0, 1, 2, 3, 5, 8, 13, 21, maxlen])
    return "".join(rng.choice(HAZ) if rng.random() < 0.8 else chr(rng.randrange(32, 127)) for _ in range(rng.randrange(n + 1)))


def codepoint_sample(rng, thorough):
    cps = list(range(0, 0x800))
    step = 1 if thorough else 17
    cps += list(range(0x800, 0xD800, step)) + list(range(0xE000, 0x110000, step))
    cps += [0xD7FF, 0xE000, 0xFFFD, 0xFFFE, 0xFFFF, 0x10000, 0x1F600, 0x10FFFF, 0x2028, 0x2029, 0xFEFF]
    return sorted(set(cps))


def mutate_text(rng, s, alphabet_bad):
    ops = ["del", "ins", "sub", "pad+", "pad-", "ws", "dup", "uni", "case", "trunc"]
    op = rng.choice(ops)
    i = rng.randrange(len(s) + 1)
    if op == "del" and s:
        i = min(i, len(s) - 1)
        return s[:i] + s[i + 1:]
    if op == "ins":
        return s[:i] + rng.choice(alphabet_bad + "=A") + s[i:]
    if op == "sub" and s:
        i = min(i, len(s) - 1)
        return s[:i] + rng.choice(alphabet_bad) + s[i + 1:]
    if op == "pad+":
        return s + "=" * rng.randrange(1, 4)
    if op == "pad-":
        return s.rstrip("=") + "=" * rng.randrange(0, 8)
    if op == "ws":
        return rng.choice([s + "\n", " " + s, s + " ", s[:i] + " " + s[i:], s + "\r\n", s + "\t"])
    if op == "dup":
        return s + s
    if op == "uni":
        return s[:i] + rng.choice(["\uff21", "\u0660", "\u00b2", "\u2161", "\ud800", "\u0391"]) + s[i:]
    if op == "case":
        return s.swapcase()
    return s[:max(0, len(s) - rng.randrange(1, 4))]


def gen_base_cases(rng, n):
    """grammar-directed: well-formed spellings of random byte strings, and mutations of them"""
    out = []
    for _ in range(n):
        b = bytes(rng.randrange(256) for _ in range(rng.choice([0, 1, 2, 3, 4, 5, 6, 7, 8, 9, 10, 15, 16, 31, 32, 33, 64])))
        r = rng.random()
        if r < 0.34:
            s = base64.b64encode(b).decode()
            if rng.random() < 0.15 and s.endswith("="):   # non-canonical pad bits
                k = len(s.rstrip("=")) - 1
                s = s[:k] + B64[(B64.index(s[k]) | 1) % 64] + s[k + 1:]
            base, bad = "base64", "-_.,*!@ \n="
        elif r < 0.67:
            s = base64.b32encode(b).decode()
            if rng.random() < 0.5:
                s = s.rstrip("=")
            base, bad = "base32", "0189abz-_ \n"
        else:
            s = b.hex()
            s = rng.choice([s, s.upper(), "".join(rng.choice([c.upper(), c]) for c in s)])
            if rng.random() < 0.5:
                s = "0x" + s
            base, bad = "base16", "gGxX -_\n"
        out.append(("base", base, s))
        if rng.random() < 0.7:
            out.append(("base", base, mutate_text(rng, s, bad)))
        if rng.random() < 0.05:
            out.append(("base", rng.choice(["base8", "Base64", "base64 ", "utf8", "", "hex", "b64", "base32"]), s))
    return out


def small_strings(alphabet, maxlen):
    for n in range(maxlen + 1):
        for t in itertools.product(alphabet, repeat=n):
            yield "".join(t)


def gen_addr_cases(rng, n):
    from algosdk import encoding
    out = ["A" * 58, "A" * 57 + "E", "A" * 57 + "B", "A" * 57, "A" * 59, "a" * 58, "A" * 52 + "======", "", "7" * 58, "A" * 57 + "=", "A" * 57 + "\n"]
    for _ in range(n):
        key = bytes(rng.randrange(256) for _ in range(32))
        a = encoding.encode_address(key)
        out.append(a)
        r = rng.random()
        if r < 0.25:      # wrong checksum, right shape
            i = rng.randrange(58)
            out.append(a[:i] + rng.choice([c for c in B32 if c != a[i]]) + a[i + 1:])
        elif r < 0.5:
            out.append(mutate_text(rng, a, "0189abz-_ \n="))
        elif r < 0.6:
            out.append(a.lower())
    return out


def gen_method_sigs(rng, n):
    names = ["add", "f", "transfer_asset", "x1", "Opt_in", "m"]
    tys = ["uint64", "byte[]", "string", "(uint64,bool)", "address", "uint8[3]", "pay", "account", "ufixed64x2", "bool[]"]
    out = ["add(uint64,uint64)uint64", "f()void", 'a"b c()void', 'a" ; int 1 ; byte "b', "a\\", "a\\()void", "a\nint 1", "a // b()void", "a;b()void",
           "\u00e9()void", "\U0001f600", " ", "a b", "a\tb", 'a""b', "'", "a\\\"b",
           "a\rb", "a\r\nb()void", "a\x0bb", "a\x0cb()void", "a\x1cb", "a\x1db", "a\x1eb", "a\x85b", "a\u2028b()void", "a\u2029b", "a\x00b", "a // b", "a;int 1",
           "\"", "\\", "\n", "\r", "a\x7f", "base64(AA//)", "a(b //c)void"]
    for _ in range(n):
        s = "%s(%s)%s" % (rng.choice(names), ",".join(rng.choice(tys) for _ in range(rng.randrange(0, 4))), rng.choice(tys + ["void"]))
        out.append(s)
        if rng.random() < 0.2:
            out.append(mutate_text(rng, s, '"\\\n;/ #'))
    return [s for s in out if not any(0xD800 <= ord(c) < 0xE000 for c in s)]


# ---------------------------------------------------------------------------------------------
# main
# ---------------------------------------------------------------------------------------------
def main(argv):
    args = parse_args(argv)
    ck = Check("C13", args.tier)
    thorough = args.tier == "thorough"
    rng = ck.rng
    import pyteal as pt
    from pyteal.util import escapeStr
    from pyteal import types as ptypes

    ck.run_proofs("Props/C13.v", PROOFS, extra_targets=["Extract/Main_c13.vo"])
    model = Model("c13")
    oracle = Oracle(ck, model)
    mismatch = []       # correspondence disagreements: (kind, literal, real, model)
    dist = {}

    def tally(k, n=1):
        dist[k] = dist.get(k, 0) + n

    timing = {}
    last = [time.time()]

    def mark(name):
        timing[name] = round(time.time() - last[0], 1)
        last[0] = time.time()

    if args.replay:
        return replay(args.replay, model, oracle)

    # =================================================================================================
    # 0. validation of the SPECIFICATION (Lit/RFC4648.v) against Python's stdlib - a disagreement is a
    #    defect of the machinery (exit 2), not of /repo
    # =================================================================================================
    spec_cases = []
    for base, alpha, ml in (("16", "0aF9gx", 6 if thorough else 5), ("32", "AZ27=a1", 6 if thorough else 5), ("64", "Ab9+/=-", 6 if thorough else 5)):
        spec_cases += [(base, s) for s in small_strings(alpha, ml)]
    for l in gen_base_cases(rng, 4000 if thorough else 1200):
        if l[1] in ("base16", "base32", "base64") and all(ord(c) < 256 for c in l[2]):
            spec_cases.append((l[1][4:], l[2]))
    for base in ("16", "32", "64"):
        items = [s for b, s in spec_cases if b == base]
        res = ask_batched(model, "spec-dec" + base, items, sx_str)
        asm = ask_batched(model, {"16": "asm-dechex", "32": "asm-dec32", "64": "asm-dec64"}[base], [("0x" + s) if base == "16" else s for s in items], sx_str)
        pyf = {"16": lambda s: None if s.startswith("0x") else py_b16(s), "32": py_b32, "64": py_b64}[base]
        for s, r, a in zip(items, res, asm):
            v = opt(r)
            if v != pyf(s):
                ck.model_problem("Lit/RFC4648.v base%s decoder disagrees with Python on %r: %r vs %r" % (base, s, v, pyf(s)))
                break
            if v is not None and opt(a) != v:
                ck.model_problem("AVM/Parse.v base%s decoder differs from the RFC value on well-formed %r: %r vs %r (theorem C13_base%s_valid_decodes would be false)" % (base, s, opt(a), v, base))
                break
            tally("spec-validation-base" + base)
    rb = [bytes(rng.randrange(256) for _ in range(n)) for n in list(range(0, 24)) * (6 if thorough else 2)]
    for cmd, pyenc in (("spec-enc64", lambda b: base64.b64encode(b).decode()), ("spec-enc32", lambda b: base64.b32encode(b).decode()),
                       ("spec-enc32np", lambda b: base64.b32encode(b).decode().rstrip("="))):
        for b, r in zip(rb, ask_batched(model, cmd, rb, sx_hex)):
            if r != pyenc(b):
                ck.model_problem("Lit/RFC4648.v %s disagrees with Python on %s: %r vs %r" % (cmd, b.hex(), r, pyenc(b)))
                break
            tally("spec-validation-encoders")

    mark("spec-validation")
    # =================================================================================================
    # 1. escapeStr / Bytes(str)
    # =================================================================================================
    sur_bad = [0]

    def compare_escape(strings, label, with_line):
        utf = []
        keep = []
        for s in strings:
            try:
                utf.append(s.encode("utf-8"))
                keep.append(s)
            except UnicodeEncodeError:
                r = call_real(pt.Bytes, s)
                tally("surrogate")
                # documented rejection (after /repo a9485d9): a str without UTF-8 encoding is a TealInputError
                if r[0] != "ok" and r[1] == "TealInputError":
                    continue
                sur_bad[0] += 1
                if sur_bad[0] > 6:       # report the first few, count the rest
                    continue
                if r[0] == "ok":
                    line = real_line(pt.Bytes, s)
                    ck.violation("Bytes(%s) - a str with a lone surrogate, which has no UTF-8 encoding - is accepted and emitted as %r: the program pushes bytes that are not the UTF-8 encoding of any text" % (ascii(s), line[1]),
                                 {"kind": "surrogate-accepted", "literal": lit_json(("utf8", s)), "emitted": line[1]})
                elif r[1] != "TealInputError":
                    ck.violation("Bytes(%s) - a str with a lone surrogate, which has no UTF-8 encoding - is not rejected with a PyTeal error: the constructor raises %s" % (ascii(s), r[1]),
                                 {"kind": "surrogate-error-class", "literal": lit_json(("utf8", s)), "observed": list(r[:2]), "expected": "TealInputError"})
        res = ask_batched(model, "escape", utf, sx_hex)
        for s, u, m in zip(keep, utf, res):
            r = call_real(escapeStr, s)
            ck.count(("esc", s), nontrivial=len(s) > 0)
            tally(label)
            if r[0] != "ok" or r[1] != m:
                mismatch.append(("escapeStr", ("utf8", s), r[1], m))
            if with_line:
                rl = real_line(pt.Bytes, s)
                if rl != ("ok", "byte " + m):
                    mismatch.append(("Bytes(str).__teal__", ("utf8", s), rl, "byte " + m))
        return keep

    corpus = list(CORPUS)
    corpus_file = os.path.join(VERIF, "harness", "c13_corpus.json")
    if os.path.exists(corpus_file):
        corpus += ["".join(chr(c) for c in cps) for cps in json.load(open(corpus_file))]
    compare_escape(corpus, "corpus", True)
    # exhaustive: every string of one or two code points below 256 (their UTF-8 is 1..4 bytes)
    one = [chr(a) for a in range(256)]
    two = [chr(a) + chr(b) for a in range(256) for b in range(256)]
    compare_escape(one, "exhaustive-1cp", True)
    compare_escape(two, "exhaustive-2cp", False)
    ck.coverage["exhaustive"] = True
    ck.coverage["exhaustive_domain"] = "all 65,792 strings of one or two code points below 256 (escapeStr); all strings over 7-8 letter alphabets up to length %d (validators)" % (6 if thorough else 5)
    cps = codepoint_sample(rng, thorough)
    compare_escape([chr(c) for c in cps], "codepoints", False)
    # str values without a UTF-8 encoding must be rejected with TealInputError: every lone surrogate alone, the range
    # boundaries (incl. U+DC80..U+DCFF, what errors="surrogateescape" produces) at the start / middle / end of ASCII and
    # non-ASCII text, pairs in the wrong order, and a "proper" pair kept by Python as two lone surrogates
    sur = [chr(c) for c in range(0xD800, 0xE000)]
    for c in (0xD800, 0xD83D, 0xDBFF, 0xDC00, 0xDC7F, 0xDC80, 0xDCE9, 0xDCFF, 0xDE00, 0xDFFF):
        for ctx in ("abc", "caf\u00e9", "\U0001f600\u2028", 'q"\\\n;//'):
            sur += [chr(c) + ctx, ctx + chr(c), ctx[:1] + chr(c) + ctx[1:], ctx + chr(c) + ctx]
    sur += [chr(lo) + chr(hi) for lo in (0xDC00, 0xDC80, 0xDCE9, 0xDFFF) for hi in (0xD800, 0xD83D, 0xDBFF)]
    sur += [chr(0xD83D) + chr(0xDE00), chr(0xD800) + chr(0xDC00), chr(0xDBFF) + chr(0xDFFF), "a" + chr(0xD83D) + chr(0xDE00) + "b",
            chr(0xDCE9) * 3, "x" * 50 + "\udbff", "caf" + chr(0xDCE9)]
    sur += ["".join(rng.choice(HAZ) for _ in range(rng.randrange(0, 6))) + chr(rng.randrange(0xD800, 0xE000)) +
            "".join(rng.choice(HAZ) for _ in range(rng.randrange(0, 6))) for _ in range(2000 if thorough else 300)]
    compare_escape(sur + ["\U0010ffff", "\ud7ff\ue000"], "surrogates", False)
    rnd = [rand_hazard_string(rng) for _ in range(40000 if thorough else 10000)]
    rnd = compare_escape(rnd, "random-hazard", True)
    for s in rnd[:3]:
        ck.sample({"kind": "Bytes(str)", "codepoints": [ord(c) for c in s], "teal": real_line(pt.Bytes, s)[1]})

    # semantic oracle on Bytes(str): real compileTeal text -> extracted assembler -> bytes, vs s.encode('utf-8')
    sem_strs = corpus + one + rng.sample(two, 6000 if thorough else 1500) + [chr(c) for c in rng.sample(cps, 3000 if thorough else 600)] + (rnd if thorough else rnd[:4000])
    sem_strs += ["\\" + chr(c) for c in range(256)] + [chr(c) + "\\" for c in range(256)] + ["\\\\" + chr(c) for c in range(256)]
    sem_strs += ["\\" + a + b for a in "'\"ntx0179uUN\\" for b in "'\"nt4017\\ "]
    sem_strs = [s for s in sem_strs if expected_value(("utf8", s)) is not None]
    fails = oracle.run([("utf8", s) for s in sem_strs])
    # what-if contexts on the REAL literal lines (trailing comment, following statement)
    ctx_lines = [real_line(pt.Bytes, s)[1] for s in (corpus + one + rnd[:1500])]
    ctx_lines = [l for l in ctx_lines if isinstance(l, str) and l.startswith("byte ")]
    ctx_bad = oracle.line_contexts(ctx_lines)
    tally("context-lines", len(ctx_lines))
    for l in ctx_bad[:3]:
        ck.violation("the literal line %r is read differently when a comment or a further statement follows it" % l[:80],
                     {"kind": "context", "line": l})

    # raw bytes / bytearray
    raws = [bytes(), b"\x00", b"\xff", bytes(range(256))] + [bytes(rng.randrange(256) for _ in range(rng.randrange(0, 70))) for _ in range(1500 if thorough else 300)]
    res = ask_batched(model, "bytes-line", [("raw", b) for b in raws], enc_bytes_arg)
    for b, m in zip(raws, res):
        for ctor in (bytes, bytearray):
            rl = real_line(pt.Bytes, ctor(b))
            ck.count(("raw", b, ctor.__name__))
            tally("raw-bytes")
            if rl != ("ok", opt(m)):
                mismatch.append(("Bytes(%s).__teal__" % ctor.__name__, ("raw", b), rl, opt(m)))
    fails += oracle.run([("raw", b) for b in raws] + [("raw", bytearray(b)) for b in raws[:50]])

    mark("escape+bytes")
    # =================================================================================================
    # 2. validators and Bytes(base, text)
    # =================================================================================================
    base_cases = []
    ml = 6 if thorough else 5
    for base, alpha in (("base16", "0aF9gx \n"), ("base32", "AZ27=a18"), ("base64", "Ab9+/=- ")):
        base_cases += [("base", base, s) for s in small_strings(alpha, ml)]
        if base == "base16":
            base_cases += [("base", base, "0x" + s) for s in small_strings("0aF9gx", ml)]
    # eight-character final groups of base32 with every padding length, and base64 quartets
    for k in range(0, 9):
        for body in ("MFRGGZDF", "AAAAAAAA", "77777777"):
            base_cases.append(("base", "base32", body[:k] + "=" * (8 - k)))
            base_cases.append(("base", "base32", "MFRGGZDF" + body[:k] + "=" * (8 - k)))
            base_cases.append(("base", "base32", body[:k]))
    for k in range(0, 5):
        for body in ("YWJj", "////", "++++"):
            for p in range(0, 4):
                base_cases.append(("base", "base64", "YWJj" + body[:k] + "=" * p))
    base_cases += gen_base_cases(rng, 12000 if thorough else 2500)
    base_cases += [("base", "base16", "0x"), ("base", "base16", "0X12"), ("base", "base16", "0x0x12"), ("base", "base64", "YQ==\n"),
                   ("base", "base32", "ME\n"), ("base", "base32", "\uff2d\uff25"), ("base", "base16", "\u0660\u0660"), ("base", "base64", "YQ==YQ==")]
    res = ask_batched(model, "bytes-line", base_cases, enc_bytes_arg)
    well = []
    for l, m in zip(base_cases, res):
        m = opt(m)
        rl = real_line(pt.Bytes, l[1], l[2])
        ck.count(("base", l[1], l[2]), nontrivial=len(l[2]) > 0)
        exp = expected_value(l)
        tally("%s-%s" % (l[1] if l[1] in ("base16", "base32", "base64") else "other-base", "wellformed" if exp is not None else "malformed"))
        real_cmp = ("ok", to_latin(rl[1])) if rl[0] == "ok" else rl
        model_cmp = ("ok", m) if m is not None else ("rej", "TealInputError")
        if real_cmp != model_cmp:
            mismatch.append(("Bytes(base,text)", l, rl, m))
        if exp is not None:
            well.append(l)
            if rl[0] != "ok":
                fails.append((l, "well-formed %s literal rejected with %s" % (l[1], rl[1]), None))
        elif rl[0] == "ok":
            fails.append((l, "malformed %s literal accepted and emitted as %r" % (l[1], rl[1]), None))
    fails += oracle.run([l for l in well if all(ord(c) < 128 for c in l[2])][: (20000 if thorough else 3000)])
    # the validator functions themselves
    for name, fn, cmd in (("valid_base16", ptypes.valid_base16, "valid16"), ("valid_base32", ptypes.valid_base32, "valid32"),
                          ("valid_base64", ptypes.valid_base64, "valid64"), ("valid_address", ptypes.valid_address, "validaddr")):
        items = sorted(set(l[2] for l in base_cases))
        if name == "valid_address":
            items = gen_addr_cases(rng, 300)
        res = ask_batched(model, cmd, [narrow(s) for s in items], sx_str)
        for s, m in zip(items, res):
            r = real_valid(fn, s)
            ck.count((name, s), nontrivial=len(s) > 0)
            tally(name)
            if r != (m == S("true")):
                mismatch.append((name, ("validator", name, s), r, m == S("true")))
    # wrong argument types are rejected with TealInputError (outside the model: it is typed)
    for a in ((5,), (None,), (["a"],), ("base16", b"ab"), (b"base16", "ab"), ("base16", 5), (1.5,)):
        r = call_real(pt.Bytes, *a)
        tally("bytes-type-errors")
        ck.count(("bytes-type", repr(a)), nontrivial=False)
        if not (r[0] == "exc" and r[1] == "TealInputError"):
            ck.violation("Bytes%r is not rejected with TealInputError: %r" % (a, r[:2]), {"kind": "type", "ctor": "Bytes", "args": repr(a), "observed": r[:2]})

    mark("base-n")
    # =================================================================================================
    # 3. Int
    # =================================================================================================
    ints = [0, 1, 2, 9, 10, 11, 99, 100, 255, 256, 2**31, 2**32 - 1, 2**32, 2**63 - 1, 2**63, U64 - 2, U64 - 1, U64, U64 + 1, -1, -2**63, 10**19, 10**20, 2**200]
    ints += [10**k for k in range(0, 20)] + [10**k - 1 for k in range(1, 21)]
    ints += [rng.randrange(0, U64) for _ in range(3000 if thorough else 600)] + [rng.randrange(-U64, 2 * U64) for _ in range(200)]
    ints += [rng.randrange(0, 1 << rng.randrange(1, 65)) for _ in range(600)]
    res = ask_batched(model, "int-line", ints, lambda n: str(n))
    good_ints = []
    for n, m in zip(ints, res):
        m = opt(m)
        rl = real_line(pt.Int, n)
        ck.count(("int", n))
        tally("int-%s" % ("in-range" if 0 <= n < U64 else "out-of-range"))
        if (rl if rl[0] == "ok" else ("rej", rl[1])) != (("ok", m) if m is not None else ("rej", "TealInputError")):
            mismatch.append(("Int", ("int", n), rl, m))
        if 0 <= n < U64:
            good_ints.append(("int", n))
            if rl[0] != "ok":
                fails.append((("int", n), "in-range integer rejected with %s" % rl[1], None))
        elif rl[0] == "ok":
            fails.append((("int", n), "out-of-range integer accepted and emitted as %r" % rl[1], None))
    fails += oracle.run(good_ints)
    for a in (True, False, 1.0, "1", None, b"1"):
        r = call_real(pt.Int, a)
        tally("int-type-errors")
        ck.count(("int-type", repr(a)), nontrivial=False)
        if not (r[0] == "exc" and r[1] == "TealInputError"):
            ck.violation("Int(%r) is not rejected with TealInputError: %r" % (a, r[:2]), {"kind": "type", "ctor": "Int", "args": repr(a), "observed": r[:2]})

    mark("int")
    # =================================================================================================
    # 4. Addr
    # =================================================================================================
    addrs = gen_addr_cases(rng, 1500 if thorough else 400)
    res = ask_batched(model, "addr-line", [narrow(s) for s in addrs], sx_str)
    good_addrs = []
    addr_known = []
    for s, m in zip(addrs, res):
        m = opt(m)
        rl = real_line(pt.Addr, s)
        ck.count(("addr", s))
        exp = expected_value(("addr", s))
        tally("addr-%s" % ("valid" if exp is not None else "invalid"))
        real_cmp = ("ok", to_latin(rl[1])) if rl[0] == "ok" else rl
        faithful = real_cmp == (("ok", m) if m is not None else ("rej", "TealInputError"))
        if not faithful:
            mismatch.append(("Addr", ("addr", s), rl, m))
        if exp is not None:
            good_addrs.append(("addr", s))
            if rl[0] != "ok":
                fails.append((("addr", s), "valid address rejected with %s" % rl[1], None))
        elif rl[0] == "ok":
            # class predicate of the known finding: right length and alphabet, only the checksum / canonical
            # spelling is wrong, and the faithful model reproduces the acceptance
            in_class = faithful and len(s) == 58 and all(c in B32 for c in s)
            if in_class and ck.match_known(lambda f: f["id"] == "addr-checksum-unchecked"):
                addr_known.append(s)
            else:
                fails.append((("addr", s), "invalid address accepted and emitted as %r" % rl[1], None))
    fails += oracle.run(good_addrs)
    for a in (b"A" * 58, 5, None):
        r = call_real(pt.Addr, a)
        tally("addr-type-errors")
        ck.count(("addr-type", repr(a)), nontrivial=False)
        if not (r[0] == "exc" and r[1] == "TealInputError"):
            ck.violation("Addr(%r) is not rejected with TealInputError: %r" % (a, r[:2]), {"kind": "type", "ctor": "Addr", "args": repr(a), "observed": r[:2]})

    mark("addr")
    # =================================================================================================
    # 5. MethodSignature
    # =================================================================================================
    sigs = gen_method_sigs(rng, 1500 if thorough else 300)
    # the model works on the UTF-8 bytes of the text (what ends up in the TEAL file)
    res = ask_batched(model, "method-line", sigs, lambda s: sx_str(wire_bytes_of_text(s)))
    good_sigs = []
    from algosdk import abi

    def canonical_abi(t):
        try:
            return abi.Method.from_signature(t).get_signature() == t
        except Exception:
            return False
    for s, m in zip(sigs, res):
        m = opt(m)
        rl = real_line(pt.MethodSignature, s)
        ck.count(("method", s))
        real_cmp = ("ok", to_latin(rl[1])) if rl[0] == "ok" else rl
        if real_cmp != (("ok", m) if m is not None else ("rej", "TealInputError")):
            mismatch.append(("MethodSignature", ("method", s), rl, m))
        unquotable = any(c in s for c in '"\\\n\r')
        tally("method-%s" % ("unquotable" if unquotable else "separator" if any(c in s for c in "\x0b\x0c\x1c\x1d\x1e\x85\u2028\u2029") else "plain"))
        if rl[0] == "ok":
            # whatever is accepted must read back as ONE `method` instruction for exactly this text
            f1 = []
            for md in Oracle.MODES:
                f1 = oracle.check_group([("method", s)], md)
                if f1:
                    break
            if f1:
                fails += f1
            else:
                good_sigs.append(("method", s))
        elif s != "" and not unquotable:
            # documented rejections (after /repo ae4cf37): the empty text and texts that cannot be put between
            # double quotes (", backslash, LF, CR - none occurs in an ARC-4 signature); anything else must be accepted
            fails.append((("method", s), "%s rejected with %s" % ("valid ABI method signature" if canonical_abi(s) else "quotable signature text", rl[1]), None))
    # cross-check the selector oracle with algosdk.abi where the text is a valid ABI signature
    n_abi = 0
    for s in sigs:
        try:
            mth = abi.Method.from_signature(s)
            if mth.get_signature() != s:      # algosdk normalised the text: its selector is of another string
                continue
            sel = mth.get_selector()
        except Exception:
            continue
        n_abi += 1
        if sel != sha512_256(s.encode())[:4]:
            ck.model_problem("selector oracle disagrees with algosdk.abi on %r" % s)
    tally("method-abi-valid", n_abi)
    fails += oracle.run(good_sigs[:400])
    # literals of DIFFERENT kinds whose operand texts coincide or nearly coincide, in both orders, under every compile
    # flavour: each site must push ITS OWN constructor's denotation (Bytes(s) vs MethodSignature(s): both `"s"`)
    from algosdk import encoding as _enc
    twins = []
    plain_sigs = [l[1] for l in good_sigs if l[1].isascii() and l[1].isprintable()]
    for t in (["transfer(address,uint64)void", "a", "0x6162", "5", "base64(YWI=)"] + plain_sigs)[: (400 if thorough else 120)]:
        twins.append([("utf8", t), ("method", t)])
    for h in ("6162", "00", "", "ff" * 8):
        twins.append([("utf8", "0x" + h), ("base", "base16", h)])
        twins.append([("utf8", "0x" + h), ("base", "base16", "0x" + h)])
        twins.append([("method", "0x" + h), ("base", "base16", h)])
        twins.append([("raw", bytes.fromhex(h)), ("base", "base16", h), ("utf8", h)])
    for bt, txt in (("base64", "YWI="), ("base32", "MFRA"), ("base32", "MFRA====")):
        twins.append([("utf8", "%s(%s)" % (bt, txt)), ("base", bt, txt)])
        twins.append([("method", "%s(%s)" % (bt, txt)), ("base", bt, txt)])
        twins.append([("utf8", txt), ("base", bt, txt), ("method", txt)])
    for l in good_addrs[:6]:
        twins.append([("utf8", l[1]), l])
        twins.append([("method", l[1]), l])
        twins.append([("base", "base32", l[1]), l])
        twins.append([("raw", _enc.decode_address(l[1])), l])
    for n in (0, 1, 5, 255, U64 - 1):
        twins.append([("utf8", str(n)), ("int", n)])
        twins.append([("method", str(n)), ("int", n), ("raw", n.to_bytes(8, "big"))])
    n_tw = 0
    for tw in twins:
        for order in (tw, tw[::-1]):
            for md in Oracle.MODES:
                n_tw += 1
                ck.count(("twins", repr(order), md))
                fails += oracle.check_group(list(order), md)
    tally("coinciding-operand-text-programs", n_tw)
    # mixed programs: literals of all kinds in sequence
    pool = [("utf8", s) for s in rnd[:400]] + well[:400] + good_ints[:200] + good_addrs[:100] + good_sigs[:100]
    pool = [l for l in pool if not (l[0] == "base" and not all(ord(c) < 128 for c in l[2]))]
    rng.shuffle(pool)
    fails += oracle.run(pool, group=24)

    mark("method+mixed")
    # =================================================================================================
    # 6. known findings replayed against the real code
    # =================================================================================================
    for f in ck.findings:
        w = f.get("witness", {})
        if f["id"] == "addr-checksum-unchecked":
            s = w["address"]
            r = call_real(pt.Addr, s)
            if r[0] == "ok" and py_addr(s) is None:
                ck.known(f["id"], "Addr(%r) is accepted although its checksum is wrong (valid_address tests length and alphabet only); %d more generated addresses of this class accepted" % (s, len(addr_known)))
    if addr_known and not any(k[0] == "addr-checksum-unchecked" for k in ck.known_seen):
        ck.model_problem("cases were attributed to a known finding whose witness no longer reproduces")

    mark("known")
    # =================================================================================================
    # 7. verdict
    # =================================================================================================
    seen = set()
    for lit, what, teal in fails:
        key = (lit[0], what[:60])
        if key in seen or len(seen) >= 8:
            continue
        seen.add(key)
        mode = mode_from_what(what)
        small = shrink(oracle, lit, mode) if teal is not None else lit
        if small != lit:
            r2 = call_real(lambda: oracle.check_group([small], mode))
            if r2[0] == "ok" and r2[1]:
                lit, what, teal = r2[1][0]
        if (repr(lit), mode) in seen:
            continue
        seen.add((repr(lit), mode))
        ck.violation("%s: %s" % (lit[0], what), {"kind": "semantic", "literal": lit_json(lit), "what": what, "teal": teal,
                                                 "mode": {"assembleConstants": mode[0], "uses": mode[1]}})
    if mismatch and not fails:
        # correspondence broken but no literal is read back wrongly: run the oracle on the disagreeing inputs
        directed = []
        for kind, lit, r, m in mismatch[:400]:
            if lit[0] in ("utf8", "raw", "base", "int", "addr", "method") and expected_value(lit) is not None:
                r2 = call_real(lambda: oracle.run([lit]))
                directed += r2[1] if r2[0] == "ok" else []
        if directed:
            lit, what, teal = directed[0]
            ck.violation("%s: %s" % (lit[0], what), {"kind": "semantic", "literal": lit_json(lit), "what": what, "teal": teal})
        else:
            kind, lit, r, m = mismatch[0]
            ck.violation("correspondence broken: %s differs from the model on %d inputs, first %r: real %r, model %r; the theorems of Props/C13.v no longer transfer; the assembler-grammar oracle read every well-formed literal back correctly" % (kind, len(mismatch), lit_json(lit), r, m),
                         {"kind": "correspondence", "broken": "%s vs Lit model" % kind, "literal": lit_json(lit), "real": repr(r), "model": repr(m), "count": len(mismatch),
                          "kinds": sorted(set(k for k, _, _, _ in mismatch))}, no_failing_input=True)
    if not ck.proof_ok and not fails:
        ck.violation("proof obligation broken: Props/C13.v or Proofs/Lit*.v no longer checks",
                     {"kind": "proof", "broken": "Props/C13.v", "log": ck.proof_log[-1500:]}, no_failing_input=True)
    ck.coverage["input_distribution"] = dist
    ck.coverage["timing_s"] = timing
    ck.coverage["oracle_literals_read_back"] = oracle.checked
    ck.coverage["oracle_by_kind"] = oracle.hist
    ck.coverage["unencodable_str_not_rejected_with_TealInputError"] = sur_bad[0]
    ck.coverage["oracle_by_compile_flavour"] = oracle.by_mode
    ck.coverage["prevchar_variant_differs_on_lines"] = oracle.prevchar_differs
    ck.coverage["disagreements_checked"] = len(mismatch) + len(fails)
    ck.coverage["known_class_members"] = {"addr-checksum-unchecked": len(addr_known)}
    for l in [w for w in well if len(w[2]) > 6][:2]:
        ck.sample({"kind": "Bytes(base,text)", "literal": lit_json(l), "teal": real_line(pt.Bytes, l[1], l[2])[1], "value_hex": expected_value(l)[1].hex()})
    ck.sample({"kind": "oracle", "teal": pt.compileTeal(pt.Seq(pt.Pop(pt.Bytes('a"\\ //;\n')), pt.Approve()), pt.Mode.Application, version=6)})
    model.close()
    return ck.finish(
        level="proof",
        rule="correspondence: escapeStr exhaustively on all strings of 1-2 code points < 256, a stratified code-point sample of all planes, seeded random hazard strings "
             "(quotes, backslashes, newlines, //, ;, controls, non-ASCII); validators/Bytes(base,text) exhaustively over small alphabets to length %d plus grammar-directed "
             "well-formed spellings and mutations; Int boundaries and random; Addr from algosdk plus mutations; MethodSignature ABI signatures plus hazard texts. "
             "oracle: real compileTeal text read line by line by the extracted assembler grammar vs Python's own decoding. distinct = distinct (constructor, argument); "
             "non-trivial = non-empty argument and not a pure type-error probe" % ml,
        trusted_base=[
            "AVM/Parse.v: TEAL tokeniser, string/hex/base32/base64/integer literal readers and statement parser (hand-written from go-algorand's documented behaviour; no assembler offline)",
            "Lit/RFC4648.v + Lit/Spec.v: specification of base16/32/64 and of what each literal denotes; validated every run against Python base64/binascii on exhaustive-small and generated texts",
            "Lit/Escape.v, Lit/BaseN.v are hand models of pyteal/util.py, types.py, ast/bytes.py, int.py, addr.py, methodsig.py, tied to the code by the exact comparisons of this check on the explored inputs",
            "str.encode('utf-8') (Python) is taken as the definition of the UTF-8 bytes of a string; SHA-512/256 (address checksum, method selector) is an oracle: a universally quantified function in Coq, algosdk.encoding.checksum in the harness",
            "code points above 255 are mapped to one non-class character before the 8-bit validator models are asked (validators only test ASCII class membership and length)",
            "Extraction: ExtrOcamlBasic + ExtrOcamlNativeString, driver.ml (read-line loop), binary ocaml/pv_c13 from coq/Extract/Main_c13.v",
        ])


def replay(path, model, oracle):
    """Re-run one recorded case against the real code."""
    import pyteal as pt
    d = json.load(open(path))

    def unj(x):
        if isinstance(x, dict) and "bytes_hex" in x:
            return bytes.fromhex(x["bytes_hex"])
        if isinstance(x, dict) and "str_codepoints" in x:
            return "".join(chr(c) for c in x["str_codepoints"])
        return x
    if "literal" not in d:
        print("replay: nothing to re-run in %s (%s)" % (path, d.get("kind")))
        return 0
    lit = tuple(unj(x) for x in d["literal"])
    print("literal:", lit)
    if lit[0] == "group":
        lits = [tuple(unj(x) for x in l) for l in lit[1:]]
        md = d.get("mode")
        bad = 0
        for m in ([(md["assembleConstants"], md["uses"])] if md else Oracle.MODES):
            r = oracle.group_fails(lits, m)
            print("[%s]" % Oracle.mode_tag(m), "reads back correctly" if r is None else r)
            bad |= r is not None
        return 1 if bad else 0
    if lit[0] == "validator":
        print("real:", real_valid(getattr(__import__("pyteal").types, lit[1]), lit[2]))
        return 0
    rl = call_real(lambda: real_op_text(build_real(lit)))
    print("real op text:", rl)
    exp = expected_value(lit)
    print("specified value:", exp)
    if rl[0] == "ok" and exp is not None:
        f = []
        md = d.get("mode")
        for m in ([(md["assembleConstants"], md["uses"])] if md else Oracle.MODES):
            f = oracle.check_group([lit], m)
            if f:
                break
        print("assembler-grammar oracle:", "reads back correctly" if not f else f[0][1])
        return 1 if f else 0
    if (rl[0] == "ok") != (exp is not None):
        print("acceptance differs from the specification")
        return 1
    return 0


if __name__ == "__main__":
    sys.exit(run_main(main))
