"""C15 — source maps are faithful and never perturb the program (partial by nature).

Proved (coq/Props/C15.v): base64-VLQ round trip for all integer lists — about the hand model AND about the
kernel regenerated from the Python source on this run; Revision-3 mappings round trip; comment stripping.
Tied to /repo on every run: translator (Gen/VLQKernel.v) + exact comparison model vs real
_base64vlq_encode/_base64vlq_decode/R3SourceMap.to_json/from_json.
Validated on the implementation only (not a proof, labelled as such in the evidence): generated source
files compiled in fresh interpreters with source mapping on: TEAL identity, one entry per TEAL line,
existing file/line, marker attribution, JSON decodes (Coq decoder) to the same associations, annotated
TEAL minus comments (Coq tokeniser) = plain TEAL.
"""
import concurrent.futures
import json
import os
import re
import shutil
import subprocess
import sys
import tempfile
import time

from common import *  # noqa
import common

ensure_env()

import c15_gen  # noqa: E402
import c15_translate  # noqa: E402

PROOF_FILES = ["Proofs/VLQProof.v", "Proofs/VLQKernelProof.v", "Proofs/R3Proof.v", "Proofs/AnnotProof.v"]
ALPHABET = "ABCDEFGHIJKLMNOPQRSTUVWXYZabcdefghijklmnopqrstuvwxyz0123456789+/"


# ------------------------------------------------------------------------------------------
# real implementation wrappers (never let an exception escape)
# ------------------------------------------------------------------------------------------
def real_enc(vals):
    from pyteal.compiler.sourcemap import _base64vlq_encode
    r = call_real(_base64vlq_encode, *vals)
    return r[1] if r[0] == "ok" else None


def real_dec(text):
    from pyteal.compiler.sourcemap import _base64vlq_decode
    r = call_real(_base64vlq_decode, text)
    return r[1] if r[0] == "ok" else None


def seg_of_entry(e):
    if e.source_line is None:
        return (e.column,)
    t = (e.column, e.source, e.source_line, e.source_column)
    return t + ((e.name,) if e.name is not None else ())


def table_of_map(sm):
    return [[seg_of_entry(sm.entries[(g, c)]) for c in cols] for g, cols in enumerate(sm.index)]


def real_map_of_table(table):
    """Build an R3SourceMap from a table through its public constructor. -> ("ok", map) | ("exc", ...)"""
    from pyteal.compiler.sourcemap import R3SourceMap, R3SourceMapping

    def build():
        entries = {}
        index = []
        for g, line in enumerate(table):
            cols = []
            for s in line:
                kw = {}
                if len(s) > 1:
                    kw = dict(source=s[1], source_line=s[2], source_column=s[3])
                    if len(s) > 4:
                        kw["name"] = s[4]
                entries[(g, s[0])] = R3SourceMapping(line=g, column=s[0], **kw)
                cols.append(s[0])
            index.append(tuple(cols))
        return R3SourceMap(filename=None, source_root=None, entries=entries, index=index)

    return call_real(build)


def real_from_json(sources, names, mappings):
    from pyteal.compiler.sourcemap import R3SourceMap
    r = call_real(lambda: table_of_map(R3SourceMap.from_json({"version": 3, "sources": list(sources), "names": list(names), "mappings": mappings})))
    return r[1] if r[0] == "ok" else None


# ------------------------------------------------------------------------------------------
# model wrappers
# ------------------------------------------------------------------------------------------
def wire_ok(s):
    return all(ord(c) < 256 for c in s)


def m_enc(model, vals, gen=False):
    r = model.ask((S("gen-vlq-enc" if gen else "vlq-enc"),) + tuple(str(v) for v in vals))
    return r[1] if r and r[0] == S("ok") else None


def m_dec(model, text, gen=False):
    r = model.ask((S("gen-vlq-dec" if gen else "vlq-dec"), text))
    return [int(x) for x in r[1:]] if r and r[0] == S("ok") else None


def sx_table(table):
    out = []
    for line in table:
        segs = []
        for s in line:
            if len(s) == 1:
                segs.append((S("s"), str(s[0])))
            else:
                src = S("none") if s[1] is None else s[1]
                segs.append((S("s"), str(s[0]), src, str(s[2]), str(s[3])) + ((s[4],) if len(s) > 4 else ()))
        out.append(tuple(segs))
    return tuple(out)


def table_of_sx(t):
    out = []
    for line in t:
        segs = []
        for s in line:
            if len(s) == 2:
                segs.append((int(s[1]),))
            else:
                src = None if s[2] == S("none") else s[2]
                segs.append((int(s[1]), src, int(s[3]), int(s[4])) + ((s[5],) if len(s) > 5 else ()))
        out.append(segs)
    return out


def m_to_json(model, table):
    r = model.ask((S("r3-to-json"), sx_table(table)))
    if not r or r[0] != S("ok"):
        return None
    return list(r[1]), list(r[2]), r[3], r[4] == S("true")


def m_from_json(model, sources, names, mappings):
    r = model.ask((S("r3-from-json"), tuple(sources), tuple(names), mappings))
    if not r or r[0] != S("ok"):
        return None
    return table_of_sx(r[1])


def m_tokens(model, lines):
    out = []
    for i in range(0, len(lines), 150):
        chunk = lines[i:i + 150]
        r = model.ask((S("tokens-many"),) + tuple(chunk))
        assert r[0] == S("ok") and len(r) == len(chunk) + 1, r
        out += [list(x) for x in r[1:]]
    return out


def m_clean(model, lines):
    out = []
    for i in range(0, len(lines), 150):
        chunk = lines[i:i + 150]
        r = model.ask((S("clean-many"),) + tuple(chunk))
        assert r[0] == S("ok") and len(r) == len(chunk) + 1, r
        out += [x == S("true") for x in r[1:]]
    return out


# ------------------------------------------------------------------------------------------
# input generators
# ------------------------------------------------------------------------------------------
def boundary_ints():
    out = set(range(-40, 41))
    for k in range(0, 45):
        for e in (5 * k, 5 * k - 1, 5 * k + 1, 5 * k + 4):
            if e < 0:
                continue
            for d in (-1, 0, 1):
                out.add((1 << e) + d)
                out.add(-((1 << e) + d))
    for big in (1 << 200, (1 << 200) - 1, 1 << 1000, 10 ** 300, (1 << 4001) + 12345, (1 << 63) - 1, 1 << 64):
        out.add(big)
        out.add(-big)
    return sorted(out)


def rand_int(rng):
    b = rng.choice([0, 1, 3, 4, 5, 6, 9, 10, 11, 14, 15, 16, 31, 32, 33, 63, 64, 65, 129, 300])
    v = rng.getrandbits(b) if b else 0
    return -v if rng.random() < 0.5 else v


def rand_table(rng, ordered=True, small=False):
    srcs = rng.sample(["prog.py", "lib/a.py", "a b.py", "d\xfcr/f.py", "x", "pkg/sub/mod.py", "unknown", "contracts%2Bv2/helpers.py",
                       "my%20dir/mod%25.py", "a+b/c d.py", "q?x/h#1.py", "100%/%zz.py", "..%2F..%2Fx.py"], rng.randint(1, 4))
    names = rng.sample(["helper", "f", "K0", "na me", "\xe9"], rng.randint(1, 3))
    table = []
    for _ in range(rng.randint(1, 3 if small else 8)):
        n = rng.choice([0, 1, 1, 1, 2, 3, 4])
        cols = sorted(rng.sample(range(-3 if rng.random() < 0.2 else 0, 60), n))
        if not ordered and n >= 2:
            cols.reverse()
        line = []
        for c in cols:
            if rng.random() < 0.25:
                line.append((c,))
            else:
                big = rng.random() < 0.1
                sl = rand_int(rng) if big else rng.randint(0, 40000)
                sc = rand_int(rng) if big else rng.randint(0, 120)
                s = (c, rng.choice(srcs), sl, sc)
                if rng.random() < 0.3:
                    s += (rng.choice(names),)
                line.append(s)
        table.append(line)
    return table


def mutate_text(rng, s):
    ops = rng.randint(1, 3)
    pool = ALPHABET + ",;,;  ~{=-_" + "\x7f\x80\xff"
    for _ in range(ops):
        if not s or rng.random() < 0.4:
            i = rng.randint(0, len(s))
            s = s[:i] + rng.choice(pool) + s[i:]
        elif rng.random() < 0.5:
            i = rng.randrange(len(s))
            s = s[:i] + s[i + 1:]
        else:
            i = rng.randrange(len(s))
            s = s[:i] + rng.choice(pool) + s[i + 1:]
    return s


# ------------------------------------------------------------------------------------------
# failing-input search on the real code (pure Python oracles; needs no model)
# ------------------------------------------------------------------------------------------
def search_vlq_failure(rng, budget=6000):
    """Smallest found list l with decode(encode(l)) != l on the real implementation."""
    cands = [[v] for v in boundary_ints()]
    for _ in range(budget):
        cands.append([rand_int(rng) for _ in range(rng.randint(0, 5))])
    for l in cands:
        t = real_enc(l)
        back = real_dec(t) if t is not None else None
        if back != l:
            # shrink to a single element if possible
            for v in l:
                t1 = real_enc([v])
                b1 = real_dec(t1) if t1 is not None else None
                if b1 != [v]:
                    return {"kind": "vlq-roundtrip", "values": [str(v)], "encoded": t1, "decoded": None if b1 is None else [str(x) for x in b1]}
            return {"kind": "vlq-roundtrip", "values": [str(v) for v in l], "encoded": t, "decoded": None if back is None else [str(x) for x in back]}
    return None


def search_r3_failure(rng, budget=1500):
    for i in range(budget):
        table = rand_table(rng, ordered=True, small=i < 300)
        r = real_map_of_table(table)
        if r[0] != "ok":
            return {"kind": "r3-roundtrip", "table": json.loads(json.dumps(table)), "error": list(r[1:])}
        j = call_real(r[1].to_json)
        if j[0] != "ok":
            return {"kind": "r3-roundtrip", "table": json.loads(json.dumps(table)), "error": list(j[1:])}
        back = real_from_json(j[1]["sources"], j[1]["names"], j[1]["mappings"])
        want = [[tuple(s) for s in line] for line in table]
        if back != want:
            return {"kind": "r3-roundtrip", "table": json.loads(json.dumps(table)), "json": j[1], "decoded": json.loads(json.dumps(back, default=repr))}
    return None


# ------------------------------------------------------------------------------------------
# (a) correspondence
# ------------------------------------------------------------------------------------------
def correspondence_vlq(ck, model, thorough):
    mism = []
    prop_fail = []

    def one(vals, tag):
        r = real_enc(vals)
        mh = m_enc(model, vals)
        mg = m_enc(model, vals, gen=True)
        ck.count(("vlq-enc", tuple(vals)))
        if not (r == mh == mg):
            mism.append({"what": "encode", "values": [str(v) for v in vals], "real": r, "model": mh, "generated": mg})
        if r is not None:
            back = real_dec(r)
            if back != list(vals):
                prop_fail.append({"kind": "vlq-roundtrip", "values": [str(v) for v in vals], "encoded": r,
                                  "decoded": None if back is None else [str(x) for x in back]})
            if wire_ok(r):
                bh, bg = m_dec(model, r), m_dec(model, r, gen=True)
                if not (back == bh == bg):
                    mism.append({"what": "decode", "text": r, "real": back, "model": bh, "generated": bg})
        ck.coverage.setdefault("vlq_input_distribution", {}).setdefault(tag, 0)
        ck.coverage["vlq_input_distribution"][tag] += 1

    for v in range(-1100, 1101):
        one([v], "exhaustive-single")
    for v in boundary_ints():
        one([v], "boundary-single")
    one([], "empty")
    for _ in range(6000 if thorough else 1200):
        one([rand_int(ck.rng) for _ in range(ck.rng.randint(0, 8))], "random-list")
    bi = boundary_ints()
    for _ in range(1500 if thorough else 300):
        one([ck.rng.choice(bi) for _ in range(ck.rng.randint(2, 6))], "boundary-list")

    # malformed / arbitrary texts to the decoder
    def dec_one(text, tag):
        r = real_dec(text)
        ck.count(("vlq-dec", text), nontrivial=r is not None)
        if wire_ok(text):
            bh, bg = m_dec(model, text), m_dec(model, text, gen=True)
            if not (r == bh == bg):
                mism.append({"what": "decode", "text": text, "real": r, "model": bh, "generated": bg})
        ck.coverage["vlq_input_distribution"].setdefault(tag, 0)
        ck.coverage["vlq_input_distribution"][tag] += 1

    for c in range(256):
        dec_one(chr(c), "dec-exhaustive-1")
    sub = "ABgh/+9 z{~,\x80"
    for a in sub:
        for b in sub:
            dec_one(a + b, "dec-exhaustive-2")
            dec_one("g" + a + b, "dec-exhaustive-3")
    for _ in range(4000 if thorough else 800):
        n = ck.rng.randint(0, 14)
        pool = ALPHABET if ck.rng.random() < 0.6 else ALPHABET + " ~{}|,;=-_\x7f\x80\xff\t"
        dec_one("".join(ck.rng.choice(pool) for _ in range(n)), "dec-random")
    return mism, prop_fail


def correspondence_r3(ck, model, thorough):
    mism = []
    prop_fail = []
    dist = ck.coverage.setdefault("r3_input_distribution", {"wf-table": 0, "unordered-table": 0, "malformed-json": 0, "model_none": 0, "model_some": 0})

    def norm(t):
        return None if t is None else [[tuple(s) for s in line] for line in t]

    def one_table(table, ordered):
        ck.count(("r3-table", repr(table)))
        dist["wf-table" if ordered else "unordered-table"] += 1
        mj = m_to_json(model, table)
        r = real_map_of_table(table)
        if mj is None:
            mism.append({"what": "to_json: model rejected the table", "table": repr(table)})
            return
        if (r[0] == "ok") != mj[3]:
            mism.append({"what": "ordering check (R3SourceMap.__post_init__)", "table": repr(table), "real_accepts": r[0] == "ok", "model_accepts": mj[3], "real": list(r[1:]) if r[0] != "ok" else None})
            return
        if r[0] != "ok":
            return
        j = call_real(r[1].to_json)
        if j[0] != "ok":
            mism.append({"what": "to_json raised", "table": repr(table), "real": list(j[1:])})
            return
        j = j[1]
        if [j["sources"], j["names"], j["mappings"]] != [mj[0], mj[1], mj[2]]:
            mism.append({"what": "to_json", "table": repr(table), "real": [j["sources"], j["names"], j["mappings"]], "model": list(mj[:3])})
        jj = json.loads(json.dumps(j))
        back = real_from_json(jj["sources"], jj["names"], jj["mappings"])
        if norm(back) != norm(table):
            prop_fail.append({"kind": "r3-roundtrip", "table": json.loads(json.dumps(table)), "json": jj, "decoded": json.loads(json.dumps(back, default=repr))})
        mb = m_from_json(model, jj["sources"], jj["names"], jj["mappings"])
        if norm(mb) != norm(back):
            mism.append({"what": "from_json", "json": jj, "real": repr(back), "model": repr(mb)})
        return jj

    corpus = []
    one_table([[]], True)
    one_table([[(0,)]], True)
    one_table([[(0, "a.py", 0, 0)]], True)
    one_table([[(0, "a.py", 0, 0, "n")], [], [(5, "b.py", -3, 7), (9,)]], True)
    for i in range(2500 if thorough else 500):
        t = rand_table(ck.rng, ordered=True, small=i % 3 == 0)
        jj = one_table(t, True)
        if jj:
            corpus.append(jj)
    for _ in range(400 if thorough else 80):
        one_table(rand_table(ck.rng, ordered=False), False)

    # malformed stream into from_json: mutated valid texts, short source / name lists, odd field counts
    def one_json(sources, names, mappings):
        if not (wire_ok(mappings) and all(wire_ok(s) for s in sources + names)):
            return
        real = real_from_json(sources, names, mappings)
        mod = m_from_json(model, sources, names, mappings)
        ck.count(("r3-json", tuple(sources), tuple(names), mappings), nontrivial=real is not None)
        dist["malformed-json"] += 1
        dist["model_none" if mod is None else "model_some"] += 1
        if norm(real) != norm(mod):
            mism.append({"what": "from_json (malformed stream)", "sources": sources, "names": names, "mappings": mappings, "real": repr(real), "model": repr(mod)})

    one_json([], [], "")
    one_json([], [], "AAAA")
    one_json(["a"], [], "AAAA,,AAAA")
    one_json(["a"], ["n"], "AAAAA;AAAAD")
    one_json(["a"], ["n", "m"], "AAAAD")
    one_json(["a"], [], "ADAA")
    one_json(["a"], [], "AC")
    one_json(["a"], [], "ACA")
    one_json(["a"], ["n"], "AAAAAAA")
    one_json(["a"], [], "C,A")
    one_json(["a"], [], "C,A,C")
    one_json(["a"], [], "E,C,D")
    for _ in range(3000 if thorough else 700):
        if corpus and ck.rng.random() < 0.6:
            jj = ck.rng.choice(corpus)
            sources, names, mp = list(jj["sources"]), list(jj["names"]), jj["mappings"]
            r = ck.rng.random()
            if r < 0.5:
                mp = mutate_text(ck.rng, mp)
            elif r < 0.7 and sources:
                sources = sources[:ck.rng.randint(0, len(sources) - 1)]
            elif r < 0.85 and names:
                names = names[:ck.rng.randint(0, len(names) - 1)]
            else:
                mp = mutate_text(ck.rng, mp)
                sources = sources[:ck.rng.randint(0, len(sources))]
        else:
            # free-form: segments with 1..6 small fields (negative deltas included)
            lines = []
            for _l in range(ck.rng.randint(1, 4)):
                segs = []
                for _s in range(ck.rng.randint(0, 3)):
                    fields = [ck.rng.randint(-2, 6) for _f in range(ck.rng.choice([1, 1, 2, 3, 4, 4, 4, 5, 5, 6]))]
                    segs.append(real_enc(fields) or "")
                lines.append(",".join(segs))
            mp = ";".join(lines)
            sources = ["s%d" % i for i in range(ck.rng.randint(0, 3))]
            names = ["n%d" % i for i in range(ck.rng.randint(0, 3))]
        one_json(sources, names, mp)
    return mism, prop_fail


# ------------------------------------------------------------------------------------------
# (b) implementation-side validation on generated source files
# ------------------------------------------------------------------------------------------
def write_project(root, pr):
    for rel, text in pr["files"].items():
        p = os.path.join(root, rel)
        os.makedirs(os.path.dirname(p), exist_ok=True)
        with open(p, "w", encoding="utf-8") as f:
            f.write(text)


def run_project(root, mode, cfgs, timeout=600, tag=""):
    out = os.path.join(root, "_c15_%s%s.json" % (mode, tag))
    env = dict(os.environ)
    env["PYTHONPATH"] = common.REPO
    env["PYTHONHASHSEED"] = "0"
    env["PYTHONDONTWRITEBYTECODE"] = "1"
    try:
        p = subprocess.run([PY, "main.py", mode, out, json.dumps(cfgs)], cwd=root, env=env, capture_output=True, text=True, timeout=timeout)
    except subprocess.TimeoutExpired:
        return None, "timeout after %ds" % timeout
    if p.returncode != 0 or not os.path.exists(out):
        return None, (p.stdout + p.stderr)[-2000:]
    return json.load(open(out)), (p.stdout + p.stderr)[-1500:]


def make_cfgs(rng, pr, n, kind):
    lo = max(pr["min_version"], 6 if kind == "router" else 2)
    if pr.get("repeat_bytes"):
        lo = max(lo, 3)          # so that every project also runs with assemble_constants=True
    cfgs = []
    versions = list(range(lo, 11))
    rng.shuffle(versions)
    variants = [(True, False, True), (True, False, False), (True, True, False), (True, True, True), (False, False, True)]
    for i in range(n):
        v = versions[i % len(versions)]
        ann, hdr, conc = variants[i % len(variants)]
        fp = rng.choice([None, None, True, False]) if v >= 8 else rng.choice([None, False])
        cfgs.append({"kind": kind, "app": True if (pr["app_only"] or kind == "router") else rng.random() < 0.75, "version": v,
                     "assemble_constants": v >= 3 and (i % 2 == 1 or rng.random() < 0.2), "scratch_slots": rng.random() < 0.5,
                     "frame_pointers": fp, "teal_filename": rng.choice([None, "out.teal", "dir/approval.teal"]),
                     "annotate": ann, "headers": hdr, "concise": conc})
    return cfgs


SLOT_RE = re.compile(r"^(load|store) (\d+)$")


def canon_slots(teal):
    """TEAL text with scratch-slot immediates renamed in order of first occurrence: two programs that
    differ only by a consistent (injective) renaming of slot numbers have the same canonical text."""
    ren = {}
    out = []
    for l in teal.split("\n"):
        m = SLOT_RE.match(l)
        if m:
            k = ren.setdefault(m.group(2), len(ren))
            out.append("%s #%d" % (m.group(1), k))
        else:
            out.append(l)
    return "\n".join(out)


BYTES_RE = re.compile(r'^byte "(rb\d+)"$|^(?:bytec(?:_\d| \d+)|pushbytes 0x[0-9a-f]+) // "(rb\d+)"$')
MARK_RE = re.compile(r"^(?:int|pushint) (\d+)(?:\s|$)|^intc(?:_\d| \d+) // (\d+)\s*$")
BLANK_COMMENT = re.compile(r"^[ \t\r\x0b\x0c]+//")


def internal_path_re():
    from pyteal.stack_frame import StackFrame
    return StackFrame._internal_paths_re


def real_json_roundtrip(j, pm, stats, here):
    """from_json(to_json(m)) of the REAL implementation on a REAL map: same associations, and every decoded source
    still names an existing file under the map's sourceRoot."""
    from pyteal.compiler.sourcemap import R3SourceMap
    out = []
    want = [[(e[1], e[2], e[3], e[4]) + ((e[5],) if e[5] is not None else ())] for e in pm["entries"]]
    r = call_real(lambda: table_of_map(R3SourceMap.from_json(j)))
    stats["json_decoded_by_real_from_json"] = stats.get("json_decoded_by_real_from_json", 0) + 1
    if r[0] != "ok":
        out.append(("R3SourceMap.from_json raises %s on the JSON that to_json produced%s" % (r[1], here), {"exception": list(r[1:]), "sources": j.get("sources")}, None))
        return out
    got = [[tuple(s) for s in line] for line in r[1]]
    if got != want:
        first = next((i for i in range(min(len(got), len(want))) if got[i] != want[i]), None)
        out.append(("from_json(to_json(map)) differs from the map: TEAL line %s decodes to %s, the map says %s%s" % (
            None if first is None else first + 1, repr(got[first] if first is not None else len(got))[:200], repr(want[first] if first is not None else len(want))[:200], here),
            {"first_diff_line": first, "sources": j.get("sources")}, None))
    root_ = pm.get("root") or j.get("sourceRoot")
    for src in sorted({s[1] for line in got for s in line if len(s) > 1 and s[1] is not None}):
        if root_ and not os.path.isfile(os.path.normpath(os.path.join(root_, src))):
            out.append(("source %r of the map decoded by from_json does not exist under sourceRoot %r%s" % (src, root_, here), {"source": src, "json_sources": j.get("sources")}, None))
            break
    return out


def check_program(ck, model, root, pr, cfg, pm, pp, where, stats):
    """pm: program dict from the `map` process, pp: from the `plain` process. Returns list of (what, detail, known_id)."""
    bad = []
    teal = pm["teal"]
    lines = teal.split("\n")
    n = len(lines)
    stats["teal_lines"] += n
    # 1. identity
    if teal != pm["same_ast_plain"]:
        bad.append(("TEAL with source map differs from compileTeal of the same AST", {"with": teal[:3000], "without": pm["same_ast_plain"][:3000]}, None))
    if teal != pp["teal"]:
        kid = None
        if cfg["kind"] == "router" and canon_slots(teal) == canon_slots(pp["teal"]):
            kid = "gate-renumbers-slots"
        first = next((i for i, (x, y) in enumerate(zip(lines, pp["teal"].split("\n"))) if x != y), None)
        bad.append(("TEAL of a process with source mapping enabled differs from the TEAL of a process where it is disabled (first difference at line %s)" % (first if first is None else first + 1),
                    {"with": teal[:6000], "without": pp["teal"][:6000], "first_diff_line": first}, kid))
    # 2. one entry per TEAL line, in order
    if pm["index"] != [[0]] * n:
        bad.append(("index is not exactly one column-0 entry per TEAL line", {"lines": n, "index_len": len(pm["index"]), "first_bad": next((i for i, x in enumerate(pm["index"]) if x != [0]), None)}, None))
    keys = [(e[0], e[1]) for e in pm["entries"]]
    if keys != [(i, 0) for i in range(n)]:
        bad.append(("entries are not (0,0),(1,0),... in order", {"lines": n, "entries": len(keys), "first_keys": keys[:5]}, None))
    if pm["file_lines"] != lines:
        bad.append(("file_lines of the map differ from the TEAL lines", {}, None))
    # 3. existing line of an existing file
    file_cache = {}
    for e in pm["entries"]:
        l, c, src, sl, sc, name = e
        if src is None or sl is None:
            bad.append(("entry without source location", {"entry": e}, None))
            break
        path = os.path.normpath(os.path.join(pm["root"] or root, src))
        if path not in file_cache:
            file_cache[path] = open(path, "rb").read().split(b"\n") if os.path.isfile(path) else None
        fl = file_cache[path]
        if fl is None:
            bad.append(("entry names a file that does not exist", {"entry": e, "path": path}, None))
            break
        if not (0 <= sl < len(fl)) or (sl == len(fl) - 1 and fl[sl] == b""):
            bad.append(("entry names a line that does not exist", {"entry": e, "file_lines": len(fl)}, None))
            break
        if not (0 <= sc <= len(fl[sl])):
            bad.append(("entry names a column outside its source line", {"entry": e, "line_bytes": len(fl[sl])}, None))
            break
    # 4. markers
    seen = set()
    ipre = internal_path_re()
    for i, tl in enumerate(lines):
        m = MARK_RE.match(tl)
        if not m:
            continue
        val = int(m.group(1) or m.group(2))
        if val not in pr["markers"]:
            continue
        rel, ln, _exp = pr["markers"][val]
        stats["marker_lines"] += 1
        if i >= len(pm["entries"]):
            continue
        e = pm["entries"][i]
        got = (os.path.normpath(e[2]) if e[2] else None, (e[3] + 1) if e[3] is not None else None)
        if got != (os.path.normpath(rel), ln):
            kid = "internal-path-substring" if ipre.search(os.path.join(root, rel)) else None
            if kid is None:
                # line TEXT class: the user line carries a `# T2PT` comment and got the frame of a neighbouring TEAL line
                src_lines = pr["files"].get(rel, "").split("\n")
                text = src_lines[ln - 1] if 0 < ln <= len(src_lines) else ""
                neigh = []
                for k_ in (i - 1, i + 1):
                    if 0 <= k_ < len(pm["entries"]):
                        ne = pm["entries"][k_]
                        neigh.append((os.path.normpath(ne[2]) if ne[2] else None, (ne[3] + 1) if ne[3] is not None else None))
                if "# T2PT" in text and got in neigh and got[0] == os.path.normpath(rel):
                    kid = "t2pt-comment-in-user-line"
            bad.append(("marker %d written on %s:%d is attributed to %s:%s (TEAL line %d `%s`)" % (val, rel, ln, got[0], got[1], i + 1, tl),
                        {"marker": val, "written": [rel, ln], "attributed": list(got), "teal_line": i + 1}, kid))
            if len([b for b in bad if b[0].startswith("marker")]) > 3:
                break
        else:
            seen.add(val)
    stats["_seen"] |= seen
    # 4r. constants written on SEVERAL lines: every load site maps to one of the lines where the value was written
    for i, tl in enumerate(lines):
        key = None
        m = MARK_RE.match(tl)
        if m and (m.group(1) or m.group(2)) in pr.get("repeats", {}):
            key = ("int", m.group(1) or m.group(2))
            rel, written = pr["repeats"][key[1]]
        else:
            mb = BYTES_RE.match(tl)
            if mb and (mb.group(1) or mb.group(2)) in pr.get("repeat_bytes", {}):
                key = ("bytes", mb.group(1) or mb.group(2))
                rel, written = pr["repeat_bytes"][key[1]]
        if key is None or i >= len(pm["entries"]):
            continue
        e = pm["entries"][i]
        stats["repeat_load_sites"] += 1
        got = (os.path.normpath(e[2]) if e[2] else None, (e[3] + 1) if e[3] is not None else None)
        stats["_rep"].setdefault(key, []).append(got[1] if got[0] == os.path.normpath(rel) else got)
        if got[0] != os.path.normpath(rel) or got[1] not in written:
            if not any(b[0].startswith("repeated constant") for b in bad):
                bad.append(("repeated constant %s written on %s lines %s: the load on TEAL line %d `%s` is attributed to %s:%s" % (key[1], rel, written, i + 1, tl[:50], got[0], got[1]),
                            {"value": key[1], "written": [rel, written], "attributed": list(got), "teal_line": i + 1, "assemble_constants": cfg["assemble_constants"]}, None))
    # 5. JSON decodes (Coq decoder) to the same associations
    j = json.loads(json.dumps(pm["json"]))
    if j.get("version") != 3 or "mappings" not in j:
        bad.append(("to_json is not a version-3 map with mappings", {"keys": sorted(j)}, None))
    else:
        want = [[(e[1], e[2], e[3], e[4]) + ((e[5],) if e[5] is not None else ())] for e in pm["entries"]]
        if wire_ok(j["mappings"]) and all(wire_ok(s) for s in j["sources"] + j["names"]):
            got = m_from_json(model, j["sources"], j["names"], j["mappings"])
            got = None if got is None else [[tuple(s) for s in line] for line in got]
            stats["json_decoded_by_coq"] += 1
            if got != want:
                first = next((i for i in range(min(len(got or []), len(want))) if got[i] != want[i]), None)
                bad.append(("R3 JSON decoded by the Coq decoder differs from the map's associations", {"first_diff_line": first, "got": repr(got[first] if got and first is not None else got)[:300], "want": repr(want[first] if first is not None else None)[:300], "mappings_head": j["mappings"][:200]}, None))
        bad += real_json_roundtrip(j, pm, stats, "")
        if cfg["teal_filename"] is not None and j.get("file") != cfg["teal_filename"]:
            if where == "approval" or cfg["kind"] == "expr":
                bad.append(("JSON 'file' differs from the requested teal_filename", {"file": j.get("file"), "asked": cfg["teal_filename"]}, None))
    # 6. annotated TEAL minus comments = plain TEAL (Coq tokeniser)
    if cfg["annotate"]:
        ann = pm["annotated"]
        if ann is None:
            bad.append(("annotated TEAL requested but None returned", {}, None))
        else:
            al = ann.split("\n")
            if cfg["headers"]:
                hdr, al = al[0], al[1:]
                if m_tokens(model, [hdr])[0]:
                    bad.append(("header line of the annotated TEAL is not a comment", {"header": hdr}, None))
            if len(al) != n:
                bad.append(("annotated TEAL has %d lines, TEAL has %d" % (len(al), n), {}, None))
            else:
                ok_wire = [i for i in range(n) if wire_ok(al[i]) and wire_ok(lines[i])]
                ta = m_tokens(model, [al[i] for i in ok_wire])
                tp = m_tokens(model, [lines[i] for i in ok_wire])
                cl = m_clean(model, [lines[i] for i in ok_wire])
                stats["annotated_lines_tokenised"] += len(ok_wire)
                stats["lines_not_on_wire"] += n - len(ok_wire)
                for k, i in enumerate(ok_wire):
                    rest = al[i][len(lines[i]):] if al[i].startswith(lines[i]) else None
                    if rest is None:
                        stats["shape_other"] += 1
                    elif BLANK_COMMENT.match(rest):
                        stats["shape_theorem"] += 1
                    elif rest.strip() == "":
                        stats["shape_no_comment"] += 1
                    else:
                        stats["shape_other"] += 1
                    if not cl[k]:
                        stats["teal_lines_not_clean"] += 1
                    if ta[k] != tp[k]:
                        bad.append(("annotated line %d differs from the TEAL line once comments are removed" % (i + 1),
                                    {"annotated": al[i][:300], "teal": lines[i][:300], "tokens_annotated": ta[k], "tokens_teal": tp[k], "line_ends_clean": cl[k]}, None))
                        break
                    if not cl[k]:
                        bad.append(("TEAL line %d ends inside a string literal / base64 argument: a comment cannot be appended safely" % (i + 1), {"teal": lines[i][:300]}, None))
                        break
    return bad


def validate_projects(ck, model, tmp, thorough):
    rng = ck.rng
    specs = []
    n_expr, n_router, n_long = (48, 12, 4) if thorough else (10, 3, 1)
    for i in range(n_expr):
        prof = {"stmts": rng.choice([15, 30, 50]), "depth": rng.choice([2, 3, 4]), "filler": rng.choice([0, 3, 30]), "subs": rng.randint(1, 3),
                "macros": rng.randint(0, 2), "consts": rng.randint(0, 2), "itxn": rng.random() < 0.4, "lib_stmts": rng.choice([6, 12])}
        layout = rng.choice([["lib_b.py", "pkg/lib_c.py", "lib_a.py"], ["only_lib.py"], ["deep/er/pkg/m1.py", "deep/er/m2.py", "m3.py", "deep/m4.py"], ["a_mod.py", "b_mod.py"]])
        specs.append(("expr", prof, layout))
    for i in range(n_router):
        prof = {"stmts": rng.choice([12, 25]), "depth": 3, "filler": rng.choice([0, 5]), "subs": 2, "macros": 1, "consts": 1, "itxn": True, "lib_stmts": 6}
        specs.append(("router", prof, ["contract_lib.py", "pkg/util.py"]))
    HZ = [["contracts%2Bv2/helpers.py", "my%20dir/mod%25.py", "vendor/pyteal/helpers.py"],
          ["a+b/c d.py", "q?x/h#1.py", "\xfcn\xef/c\xf6d\xe9_m\xf3dulo.py"],
          ["%41%42/%2e%2e.py", "l" * 120 + "/" + "m" * 100 + ".py", "100%/sp ace%20.py"]]
    for i in range(6 if thorough else 3):
        prof = {"stmts": 15, "depth": 2, "filler": 2, "subs": 2, "macros": 1, "consts": 1, "lib_stmts": 6, "by_path": True}
        specs.append(("router" if i % 3 == 2 else "expr", prof, HZ[i % 3]))
    for i in range(n_long):
        prof = {"stmts": 25, "depth": 3, "filler": 400, "long_file": 0, "long_filler": 6000 if not thorough else 15000, "main_filler": 8000, "subs": 3, "macros": 2, "consts": 1, "lib_stmts": 10}
        specs.append(("expr", prof, ["very_long_lib.py", "short_lib.py"]))
    projects = []
    for k, (kind, prof, layout) in enumerate(specs):
        g = c15_gen.Gen(rng, prof)
        pr = g.project(kind, layout=list(layout))
        root = os.path.join(tmp, "p%02d" % k)
        write_project(root, pr)
        cfgs = make_cfgs(rng, pr, (8 if thorough else 4), kind)
        projects.append((root, pr, cfgs, kind, prof))
    return run_and_check(ck, model, projects)


def run_and_check(ck, model, projects):
    stats = {"projects": 0, "configs": 0, "programs": 0, "teal_lines": 0, "marker_lines": 0, "markers_expected": 0, "markers_expected_seen": 0,
             "json_decoded_by_coq": 0, "annotated_lines_tokenised": 0, "lines_not_on_wire": 0, "shape_theorem": 0, "shape_no_comment": 0,
             "shape_other": 0, "teal_lines_not_clean": 0, "source_files": 0, "max_source_lines": 0, "compile_errors_both_modes": 0, "repeat_load_sites": 0, "repeat_values": 0, "configs_assemble_constants": 0, "_seen": set(), "_rep": {}}
    findings = []    # (what, detail, known_id, root, pr, cfg)
    with concurrent.futures.ThreadPoolExecutor(max_workers=min(NPROC, 14)) as ex:
        # one FRESH interpreter per (project, configuration, mode): nothing but the feature gate differs
        futs = {}
        for (root, pr, cfgs, kind, prof) in projects:
            for ci, cfg in enumerate(cfgs):
                futs[(root, "map", ci)] = ex.submit(run_project, root, "map", [cfg], 600, "_%d" % ci)
                futs[(root, "plain", ci)] = ex.submit(run_project, root, "plain", [cfg], 600, "_%d" % ci)
        results = {k: f.result() for k, f in futs.items()}
    stats["interpreter_processes"] = len(results)
    for (root, pr, cfgs, kind, prof) in projects:
        stats["projects"] += 1
        stats["source_files"] += len([f for f in pr["files"] if not f.endswith("__init__.py")])
        stats["max_source_lines"] = max([stats["max_source_lines"]] + [t.count("\n") for t in pr["files"].values()])
        rm, rp = [], []
        died = None
        for ci, cfg in enumerate(cfgs):
            a_, la = results[(root, "map", ci)]
            b_, lb = results[(root, "plain", ci)]
            if a_ is None or b_ is None:
                died = ("map" if a_ is None else "plain", la, lb)
                break
            rm.append(a_[0])
            rp.append(b_[0])
        if died:
            findings.append(("generated project could not be run (%s process died)" % died[0],
                             {"log_map": died[1], "log_plain": died[2]}, None, root, pr, None))
            continue
        for cfg, cm, cp in zip(cfgs, rm, rp):
            stats["configs"] += 1
            stats["configs_assemble_constants"] += 1 if cfg["assemble_constants"] else 0
            ck.count(("project", os.path.basename(root), json.dumps(cfg, sort_keys=True)), nontrivial="error" not in cm)
            stats["_seen"] = set()
            stats["_rep"] = {}
            if "error" in cm and "error" in cp:
                if cm["error"][0] != cp["error"][0]:
                    findings.append(("compilation fails differently with (%s) and without (%s) the source map" % (cm["error"][0], cp["error"][0]), {"map": cm["error"], "plain": cp["error"]}, None, root, pr, cfg))
                stats["compile_errors_both_modes"] += 1
                kinds = stats.setdefault("compile_error_kinds", {})
                key = "%s: %s" % (cm["error"][0], cm["error"][1][:90].replace("\n", " "))
                kinds[key] = kinds.get(key, 0) + 1
                continue
            if "error" in cm:
                kid = None
                if cm["error"][0] == "TealInternalError" and "ought to begin exactly with the teal line" in cm["error"][1]:
                    if any(len(l) - len(l.rstrip()) >= 3 for p in cp["programs"] for l in p["teal"].split("\n")):
                        kid = "annotate-trailing-blanks"
                findings.append(("requesting a source map makes a compiling program fail: %s: %s" % (cm["error"][0], cm["error"][1][:200].replace("\n", " ")),
                                 {"error": cm["error"]}, kid, root, pr, cfg))
                continue
            if "error" in cp:
                findings.append(("program compiles with a source map but fails without: %s" % cp["error"][0], {"error": cp["error"]}, None, root, pr, cfg))
                continue
            for pi, (pm, pp) in enumerate(zip(cm["programs"], cp["programs"])):
                stats["programs"] += 1
                where = ["approval", "clear"][pi] if kind == "router" else "program"
                for what, detail, kid in check_program(ck, model, root, pr, cfg, pm, pp, where, stats):
                    findings.append((what, detail, kid, root, pr, cfg))
            # multiset of lines attributed to the load sites of a repeated constant = lines where it was written
            for kind_, table in (("int", pr.get("repeats", {})), ("bytes", pr.get("repeat_bytes", {}))):
                for v, (rel, written) in table.items():
                    stats["repeat_values"] += 1
                    got = stats["_rep"].get((kind_, v), [])
                    if sorted(map(repr, got)) != sorted(map(repr, written)) and not any(f[3] == root and f[5] is cfg for f in findings):
                        findings.append(("repeated constant %s written on %s lines %s: its load sites are attributed to lines %s (assemble_constants=%s)" % (v, rel, written, got, cfg["assemble_constants"]),
                                         {"value": v, "written": [rel, written], "attributed_lines": got, "assemble_constants": cfg["assemble_constants"]}, None, root, pr, cfg))
            exp = {m for m, (rel, ln, e) in pr["markers"].items() if e}
            stats["markers_expected"] += len(exp)
            stats["markers_expected_seen"] += len(exp & stats["_seen"])
            missing = sorted(exp - stats["_seen"])
            if missing and not any(f[3] == root and f[5] is cfg for f in findings):
                rel, ln, _ = pr["markers"][missing[0]]
                findings.append(("constant %d written on %s:%d appears on no TEAL line attributed to that line" % (missing[0], rel, ln),
                                 {"missing": missing[:10]}, None, root, pr, cfg))
        if len(ck.samples) < 5:
            ok = next((c for c in rm if "programs" in c), None)
            if ok:
                p0 = ok["programs"][0]
                ck.sample({"validation_project": os.path.basename(root), "files": {f: t.count("\n") for f, t in pr["files"].items() if not f.endswith("__init__.py")},
                           "cfg": ok["cfg"], "teal_lines": len(p0["teal"].split("\n")), "mappings_head": p0["json"]["mappings"][:60],
                           "annotated_head": (p0["annotated"] or "").split("\n")[1:3]}, limit=5)
    del stats["_seen"]
    del stats["_rep"]
    return stats, findings


# ------------------------------------------------------------------------------------------
# (b') multi-compilation session: several source-mapped compilations in ONE process with chdir in between
# ------------------------------------------------------------------------------------------
def session_steps(rng, pr):
    v = max(8, pr["min_version"])
    seq = [("projA", "p1"), ("projA", "router"), ("projB/build", "p1"), ("projB/build", "router"), ("projB/build", "p2"),
           ("projC", "p1"), ("projC", "p2"), ("deep/er/dir", "router"), ("deep/er/dir", "p2"), ("projA", "p2"), ("projA", "p1")]
    steps = []
    for i, (cwd, prog) in enumerate(seq):
        steps.append({"cwd": cwd, "prog": prog, "version": rng.choice([v, 9, 10]), "annotate": i % 3 != 1, "concise": i % 2 == 0,
                      "teal_filename": rng.choice([None, "sess.teal"])})
    return steps


def run_session(root, steps, timeout=600):
    out = os.path.join(root, "_c15_session.json")
    env = dict(os.environ)
    env["PYTHONPATH"] = common.REPO
    env["PYTHONHASHSEED"] = "0"
    env["PYTHONDONTWRITEBYTECODE"] = "1"
    start = os.path.join(root, steps[0]["cwd"])
    try:
        p = subprocess.run([PY, os.path.join(root, "app", "driver.py"), root, out, json.dumps(steps)], cwd=start, env=env, capture_output=True, text=True, timeout=timeout)
    except subprocess.TimeoutExpired:
        return None, "timeout after %ds" % timeout
    if p.returncode != 0 or not os.path.exists(out):
        return None, (p.stdout + p.stderr)[-2000:]
    return json.load(open(out)), (p.stdout + p.stderr)[-1500:]


def check_session(ck, model, root, pr, steps, results, stats):
    """The per-map oracle applied to every map of the session, each against ITS OWN sourceRoot / cwd at compile time.
    Returns [(what, detail)]."""
    bad = []
    root = os.path.realpath(root)
    seq = []
    for st, res in zip(steps, results):
        seq.append("%s@%s" % (st["prog"], st["cwd"]))
        here = " [step %d of the session %s]" % (len(seq), " -> ".join(seq))
        ck.count(("session-step", len(seq), json.dumps(st, sort_keys=True)), nontrivial="error" not in res)
        stats["session_steps"] += 1
        if "error" in res:
            bad.append(("source-mapped compilation fails in a multi-compilation session: %s: %s%s" % (res["error"][0], res["error"][1][:160].replace("\n", " "), here),
                        {"error": res["error"], "step": st, "steps_so_far": seq[:]}))
            continue
        cwd = os.path.realpath(os.path.join(root, st["cwd"]))
        if os.path.realpath(res["cwd"]) != cwd:
            bad.append(("session driver is not in the directory asked for" + here, {"cwd": res["cwd"], "asked": cwd}))
            continue
        for pm in res["programs"]:
            stats["session_maps"] += 1
            lines = pm["teal"].split("\n")
            n = len(lines)
            if pm["same_ast_plain"] is not None and pm["same_ast_plain"] != pm["teal"]:
                bad.append(("TEAL with source map differs from compileTeal of the same AST" + here, {"step": st}))
            if pm["index"] != [[0]] * n or [(e[0], e[1]) for e in pm["entries"]] != [(i, 0) for i in range(n)] or pm["file_lines"] != lines:
                bad.append(("map does not have exactly one entry per TEAL line, in order" + here, {"step": st, "lines": n, "entries": len(pm["entries"])}))
                continue
            mroot = pm["root"]
            if mroot is None or os.path.realpath(mroot) != cwd:
                bad.append(("sourceRoot %r is not the working directory of the compilation %r%s" % (mroot, cwd, here), {"step": st}))
                continue
            j = json.loads(json.dumps(pm["json"]))
            if j.get("sourceRoot") != mroot:
                bad.append(("JSON sourceRoot differs from the map's source_root" + here, {"json": j.get("sourceRoot"), "map": mroot}))
            cache = {}

            def resolve(src):
                path = os.path.normpath(os.path.join(mroot, src))
                if path not in cache:
                    cache[path] = open(path, "rb").read().split(b"\n") if os.path.isfile(path) else None
                return path, cache[path]

            for src in j.get("sources", []):
                path, fl = resolve(src)
                if fl is None:
                    bad.append(("JSON source %r does not exist under the map's sourceRoot %r (%s)%s" % (src, mroot, path, here),
                                {"step": st, "source": src, "sourceRoot": mroot, "resolved": path, "steps_so_far": seq[:]}))
                    break
            for i, e in enumerate(pm["entries"]):
                l, c, src, sl, sc, name = e
                if src is None or sl is None:
                    bad.append(("entry without source location" + here, {"entry": e}))
                    break
                path, fl = resolve(src)
                if fl is None:
                    bad.append(("TEAL line %d `%s` is attributed to %r under sourceRoot %r, i.e. %s, which does not exist%s" % (i + 1, lines[i][:60], src, mroot, path, here),
                                {"step": st, "entry": e, "sourceRoot": mroot, "resolved": path, "steps_so_far": seq[:]}))
                    break
                if not (0 <= sl < len(fl)) or (sl == len(fl) - 1 and fl[sl] == b"") or not (0 <= sc <= len(fl[sl])):
                    bad.append(("TEAL line %d is attributed to %s:%d:%d which does not exist%s" % (i + 1, path, sl + 1, sc, here), {"step": st, "entry": e}))
                    break
                m = MARK_RE.match(lines[i])
                val = int(m.group(1) or m.group(2)) if m else None
                if val in pr["markers"]:
                    rel, ln, _ = pr["markers"][val]
                    stats["session_marker_lines"] += 1
                    want = os.path.realpath(os.path.join(root, rel))
                    if os.path.realpath(path) != want or sl + 1 != ln or str(val).encode() not in fl[sl]:
                        bad.append(("marker %d written on %s:%d is attributed to %s:%d (TEAL line %d)%s" % (val, rel, ln, path, sl + 1, i + 1, here),
                                    {"step": st, "entry": e, "resolved": path, "steps_so_far": seq[:]}))
                        break
            # the JSON, decoded by the Coq decoder, carries the same associations
            if wire_ok(j["mappings"]) and all(wire_ok(x) for x in j["sources"] + j["names"]):
                got = m_from_json(model, j["sources"], j["names"], j["mappings"])
                want = [[(e[1], e[2], e[3], e[4]) + ((e[5],) if e[5] is not None else ())] for e in pm["entries"]]
                if got is None or [[tuple(s) for s in ln_] for ln_ in got] != want:
                    bad.append(("R3 JSON decoded by the Coq decoder differs from the map's associations" + here, {"step": st}))
            for what_, det_, _k in real_json_roundtrip(j, pm, stats, here):
                bad.append((what_, dict(det_, step=st, steps_so_far=seq[:])))
            if st["annotate"] and pm["annotated"] is not None:
                al = pm["annotated"].split("\n")
                ok_wire = [i for i in range(min(n, len(al))) if wire_ok(al[i]) and wire_ok(lines[i])]
                if len(al) != n or m_tokens(model, [al[i] for i in ok_wire]) != m_tokens(model, [lines[i] for i in ok_wire]):
                    bad.append(("annotated TEAL differs from the TEAL once comments are removed" + here, {"step": st}))
    return bad


def validate_sessions(ck, model, tmp, thorough, stats):
    findings = []
    stats.update({"sessions": 0, "session_steps": 0, "session_maps": 0, "session_marker_lines": 0})
    jobs = []
    for k in range(6 if thorough else 2):
        pr = c15_gen.session_project(ck.rng)
        root = os.path.join(tmp, "sess%02d" % k)
        write_project(root, pr)
        jobs.append((root, pr, session_steps(ck.rng, pr)))
    with concurrent.futures.ThreadPoolExecutor(max_workers=6) as ex:
        outs = list(ex.map(lambda j: run_session(j[0], j[2]), jobs))
    for (root, pr, steps), (res, log) in zip(jobs, outs):
        stats["sessions"] += 1
        if res is None:
            findings.append(("session driver could not be run", {"log": log}, root, pr, steps))
            continue
        for what, detail in check_session(ck, model, root, pr, steps, res, stats):
            findings.append((what, detail, root, pr, steps))
        if stats["sessions"] == 1:
            ck.sample({"validation_session": [s["prog"] + "@" + s["cwd"] for s in steps],
                       "second_map_sources": (res[2].get("programs") or [{}])[0].get("json", {}).get("sources")}, limit=6)
    return findings


def report_session_findings(ck, findings):
    for what, detail, root, pr, steps in findings[:4]:
        ck.violation(what, {"kind": "session", "detail": detail, "steps": steps, "files": pr["files"],
                            "markers": {str(k): v for k, v in pr["markers"].items()}, "min_version": pr["min_version"],
                            "how": "write `files` under a fresh directory R, run `python R/app/driver.py R out.json '<steps as JSON>'` with cwd R/<first cwd> (one process, chdir between steps)"})


# ------------------------------------------------------------------------------------------
def report_findings(ck, findings, replay_known=False):
    """Turn implementation-side findings into violations / known findings."""
    reported = 0
    for what, detail, kid, root, pr, cfg in findings:
        if kid is not None and ck.match_known(lambda f: f["id"] == kid):
            f = ck.match_known(lambda f: f["id"] == kid)
            ck.known(kid, f["what"])
            continue
        if reported >= 6:
            continue
        reported += 1
        files = {rel: (t if len(t) < 200000 else t[:200000]) for rel, t in pr["files"].items()}
        ck.violation(what, {"kind": "project", "detail": detail, "cfg": cfg, "files": files, "markers": {str(k): v for k, v in pr["markers"].items()}, "project_kind": pr["kind"],
                            "min_version": pr["min_version"], "app_only": pr["app_only"],
                            "repeats": pr.get("repeats", {}), "repeat_bytes": pr.get("repeat_bytes", {})})


def replay(ck, path, tmp):
    r = json.load(open(path))
    kind = r.get("kind")
    if kind == "vlq-roundtrip":
        vals = [int(v) for v in r["values"]]
        t = real_enc(vals)
        back = real_dec(t) if t is not None else None
        print("values=%s encoded=%r decoded=%s" % (vals, t, back))
        if back != vals:
            ck.violation("VLQ round trip fails on the real implementation", r)
    elif kind == "r3-roundtrip":
        table = [[tuple(s) for s in line] for line in r["table"]]
        m = real_map_of_table(table)
        back = None
        if m[0] == "ok":
            j = m[1].to_json()
            back = real_from_json(j["sources"], j["names"], j["mappings"])
        print("table=%s decoded=%s" % (table, back))
        if back != table:
            ck.violation("R3 round trip fails on the real implementation", r)
    elif kind == "project":
        model = Model("c15")
        pr = {"files": r["files"], "markers": {int(k): v for k, v in r["markers"].items()}, "kind": r["project_kind"], "min_version": r["min_version"], "app_only": r["app_only"],
              "repeats": r.get("repeats", {}), "repeat_bytes": r.get("repeat_bytes", {})}
        root = os.path.join(tmp, "replay")
        write_project(root, pr)
        stats, findings = run_and_check(ck, model, [(root, pr, [r["cfg"]], pr["kind"], {})])
        for f in findings:
            print("replayed:", f[0])
        report_findings(ck, findings)
        model.close()
    elif kind == "session":
        model = Model("c15")
        pr = {"files": r["files"], "markers": {int(k): v for k, v in r["markers"].items()}, "kind": "session", "min_version": r["min_version"], "app_only": True}
        root = os.path.join(tmp, "replay_session")
        write_project(root, pr)
        res, log = run_session(root, r["steps"])
        st = {"sessions": 0, "session_steps": 0, "session_maps": 0, "session_marker_lines": 0}
        fs = [("session driver could not be run", {"log": log}, root, pr, r["steps"])] if res is None else \
             [(w, d, root, pr, r["steps"]) for w, d in check_session(ck, model, root, pr, r["steps"], res, st)]
        for f in fs:
            print("replayed:", f[0][:300])
        report_session_findings(ck, fs)
        model.close()
    else:
        print("replay: nothing executable in %s (kind=%r): %s" % (path, kind, r.get("what")))
        ck.violation(r.get("what", "recorded violation"), r, no_failing_input=True)
    # a replay never overwrites the evidence of the last full run
    for fid, what in ck.known_seen:
        print("KNOWN-FINDING: property=C15 %s" % what)
    for what, p_, nofail in ck.violations:
        print("VIOLATION property=C15 replay=%s%s" % (p_, " no-failing-input-found" if nofail else ""))
        print("  (%s)" % what[:300])
    print("C15 replay: %d violations" % len(ck.violations))
    return 1 if ck.violations else 0


def main(argv):
    import signal
    args = parse_args(argv)
    ck = Check("C15", args.tier)
    thorough = args.tier == "thorough"

    def too_long(signum, frame):
        raise TimeoutError("C15 check exceeded its wall-clock budget (a model request or a child process hangs)")

    signal.signal(signal.SIGALRM, too_long)
    signal.alarm(6000 if thorough else 2700)
    tmp = tempfile.mkdtemp(prefix="c15_")
    try:
        if args.replay:
            return replay(ck, args.replay, tmp)
        return run_check(ck, thorough, tmp)
    finally:
        shutil.rmtree(tmp, ignore_errors=True)


def run_check(ck, thorough, tmp):
    # ---------------- 0. translator: regenerate Gen/VLQKernel.v from the source as it is now ----------------
    translator_error = None
    try:
        changed, text = c15_translate.regenerate(common.REPO, COQ)
        ck.coverage["translator"] = {"output": "coq/Gen/VLQKernel.v", "rewritten_this_run": changed, "lines": text.count("\n"),
                                     "functions": c15_translate.KERNEL_FUNCS, "reflected": c15_translate.INT_GLOBALS + c15_translate.TABLE_GLOBALS}
    except c15_translate.TranslateError as e:
        translator_error = str(e)
        ck.coverage["translator"] = {"error": translator_error}
    except Exception as e:  # the module itself may no longer import
        translator_error = "%s: %s" % (type(e).__name__, str(e)[:300])
        ck.coverage["translator"] = {"error": translator_error}

    # ---------------- 1. proofs ----------------
    if translator_error is None:
        ck.run_proofs("Props/C15.v", PROOF_FILES, extra_targets=["Extract/Main_c15.vo"])
    else:
        ck.proof_ok = False
        ck.proof_log = "translator failed: " + translator_error
        ck.coverage["forbidden_scan"] = "clean" if not forbidden_scan() else forbidden_scan()
    model = None
    try:
        if not ck.proof_ok:
            # the model binary only needs the models, not the proofs
            coq_make(["Extract/Main_c15.vo"], tag="C15")
        model = Model("c15")
    except Exception as e:
        ck.coverage["model_unavailable"] = str(e)[-600:]

    vlq_mism, vlq_prop, r3_mism, r3_prop = [], [], [], []
    stats, findings = {}, []
    session_findings = []
    if model is not None:
        # ---------------- 2a. correspondence ----------------
        t = time.time()
        vlq_mism, vlq_prop = correspondence_vlq(ck, model, thorough)
        r3_mism, r3_prop = correspondence_r3(ck, model, thorough)
        ck.coverage["correspondence_wall_s"] = round(time.time() - t, 1)
        ck.coverage["correspondence_mismatches"] = len(vlq_mism) + len(r3_mism)
        # ---------------- 2b. implementation-side validation ----------------
        t = time.time()
        stats, findings = validate_projects(ck, model, tmp, thorough)
        session_findings = validate_sessions(ck, model, tmp, thorough, stats)
        # ---------------- 4. known findings replayed against the real code ----------------
        kprojects = []
        for fid, mk, kd, ver in (("internal-path-substring", c15_gen.known_internal_path_project, "expr", 8),
                                 ("annotate-trailing-blanks", c15_gen.known_trailing_blanks_project, "expr", 8),
                                 ("gate-renumbers-slots", c15_gen.known_gate_slots_project, "router", 7),
                                 ("t2pt-comment-in-user-line", c15_gen.known_t2pt_comment_project, "expr", 8)):
            if ck.match_known(lambda f: f["id"] == fid):
                pr = mk()
                root = os.path.join(tmp, "known_" + fid)
                write_project(root, pr)
                cfg = {"kind": kd, "app": True, "version": ver, "assemble_constants": False, "scratch_slots": False, "frame_pointers": None,
                       "teal_filename": None, "annotate": True, "headers": False, "concise": True}
                kprojects.append((root, pr, [cfg], kd, {}))
        kstats, kfind = run_and_check(ck, model, kprojects) if kprojects else ({}, [])
        ck.coverage["known_replay_projects"] = len(kprojects)
        findings += kfind
        stats["validation_wall_s"] = round(time.time() - t, 1)
        ck.coverage["implementation_validation (NOT proof)"] = stats
    # ---------------- 3/5. verdict ----------------
    real_failures = vlq_prop + r3_prop
    uniq = []
    for f in real_failures:
        if f not in uniq:
            uniq.append(f)
    real_failures = uniq
    for f in real_failures[:4]:
        ck.violation("%s fails on the real implementation" % ("VLQ decode(encode(l)) = l" if f["kind"] == "vlq-roundtrip" else "from_json(to_json(m)) = m"), f)
    report_findings(ck, findings)
    report_session_findings(ck, session_findings)
    broken = []
    if translator_error:
        broken.append("translator: " + translator_error)
    if not ck.proof_ok:
        broken.append("proof obligations of Props/C15.v")
    if vlq_mism:
        broken.append("correspondence VLQ (%d cases, first: %s)" % (len(vlq_mism), json.dumps(vlq_mism[0], default=repr)[:300]))
    if r3_mism:
        broken.append("correspondence R3 (%d cases, first: %s)" % (len(r3_mism), json.dumps(r3_mism[0], default=repr)[:300]))
    if model is None and translator_error is None and ck.proof_ok:
        broken.append("model binary could not be built")
    if broken and not real_failures and not ck.violations:
        # search for a concrete failing input of the property on the real code
        found = search_vlq_failure(ck.rng) or search_r3_failure(ck.rng)
        if found:
            ck.violation("%s fails on the real implementation" % ("VLQ round trip" if found["kind"] == "vlq-roundtrip" else "R3 round trip"), found)
        else:
            ck.violation("broken: " + "; ".join(broken),
                         {"kind": "broken-tie", "broken": broken, "first_vlq": vlq_mism[:2], "first_r3": r3_mism[:2], "log": getattr(ck, "proof_log", "")[-1500:]},
                         no_failing_input=True)
    ck.coverage["disagreements_checked"] = len(vlq_mism) + len(r3_mism) + len(real_failures) + len(findings) + len(session_findings)
    if model is not None:
        model.close()
    return ck.finish(
        level="proof",
        rule="proof part: obligations of Proofs/VLQ*.v, R3Proof.v, AnnotProof.v, Props/C15.v (Gen/VLQKernel.v regenerated from the Python source first). "
             "correspondence: real _base64vlq_encode/_decode vs hand model vs generated kernel on every integer in [-1100,1100], boundary integers "
             "(+-2^(5k+{-1,0,1,4})+{-1,0,1}, huge), random lists, every 1-character text and a grid of 2/3-character texts, random and malformed texts; "
             "R3SourceMap constructor/to_json/from_json vs Lit/R3.v on random well-formed tables, unordered tables and mutated/malformed mappings; "
             "distinct = distinct input value; non-trivial = the real code returns a value (no exception). "
             "validation part (NOT proof): generated multi-file projects run in fresh interpreters (one with source mapping, one without) under "
             "several versions/optimize/assemble/annotate options; a case = (project, configuration); plus multi-compilation sessions: one process compiles "
             "source-mapped programs (incl. a Router) from several working directories at different depths with os.chdir in between, every map checked against its own sourceRoot; a case = (session, step).",
        trusted_base=[
            "PARTIAL: the theorems cover the VLQ codec, the R3 mappings codec and comment stripping; frame capture (inspect/executing/file system), tabulate, "
            "one-entry-per-line, marker attribution and TEAL identity are VALIDATED on the implementation for the generated programs only (see coverage['implementation_validation (NOT proof)'])",
            "Lit/PyInt.v: meaning of the Python subset (ints = Z, & | << >> = Z.land Z.lor Z.shiftl Z.shiftr, exceptions = None); harness/c15_translate.py (fail-closed ast translator + reflection of the tables)",
            "Lit/R3.v and Lit/VLQ.v are hand models tied to the code by exact comparison on every run; Lit/Annot.v + AVM/Parse.v tokeniser are a hand-written reading of the assembler's line grammar (no assembler offline)",
            "The fuel of the generated encoder loop is supplied by enc_fuel; the theorem shows it never runs out",
            "Extraction: ExtrOcamlBasic + ExtrOcamlNativeString, driver.ml (read-line loop); harness glue (generators, JSON, process handling)",
        ],
        explanation="partial by nature: codec core proved; implementation-side clauses validated, not proved")


if __name__ == "__main__":
    sys.exit(run_main(main))
