"""Seeded generator of programs with subroutines (property C02): call graphs with self and mutual
recursion, arities 0..4, by-value and by-reference (ScratchVar) parameters, return types
none/uint64/bytes, call sites in statement and operand position, Return anywhere in the body."""
from gen_prog import Gen, I, B


class SGen(Gen):
    """Gen extended with parameters and callable subroutines."""

    def __init__(self, rng, version, app, size, prefix, params=(), sub_ret=None, callables=(), counter_param=None):
        super().__init__(rng, version, app, size=size)
        self.prefix = prefix
        self.params = list(params)          # intended type of each parameter: 'u' | 'b' | 'r'
        self.sub_ret = sub_ret              # None in main, else 'n' | 'u' | 'b'
        self.callables = list(callables)    # (key, kinds, param types, ret, recursive?)
        self.counter_param = counter_param

    def new_var(self, ty):
        key = "%s_v%d" % (self.prefix, len(self.vars))
        self.vars[key] = ty
        return key

    def call(self, c, d):
        key, kinds, ptypes, ret, rec = c
        args = []
        for k, t in zip(kinds, ptypes):
            if k == "r":
                own_refs = [i for i, pt_ in enumerate(self.params) if pt_ == "r"]
                if own_refs and self.r.random() < 0.6:
                    args.append(("paramref", self.r.choice(own_refs)))
                    continue
                cands = [v for v, ty in self.vars.items() if ty == "u"]
                v = self.r.choice(cands) if cands else self.new_var("u")
                args.append(("varref", v))
            elif t == "c":        # recursion counter: small
                args.append(self.r.choice([I(0), I(1), I(2), I(3), ("op", "%", (), "u", (self.expr("u", d - 1), I(3)))]))
            else:
                args.append(self.expr(t, d - 1))
        self.note("call")
        return ("call", key, tuple(args))

    def leaf(self, ty):
        if self.params and self.r.random() < 0.4:
            want = ty if ty != "a" else self.r.choice("ub")
            cands = [i for i, t in enumerate(self.params) if t == want or (want == "u" and t == "c")]
            if cands:
                return ("param", self.r.choice(cands))
            refs = [i for i, t in enumerate(self.params) if t == "r"]
            if refs and want == "u":
                return ("refload", self.r.choice(refs), "u")
        return super().leaf(ty)

    def expr(self, ty, d, no_ctrl=True):
        want = ty if ty != "a" else self.r.choice("ub")
        cs = [c for c in self.callables if c[3] == want and not c[4]]
        if cs and d > 0 and self.budget > 0 and self.r.random() < 0.25:
            self.budget -= 2
            return self.call(self.r.choice(cs), d)
        return super().expr(ty, d, no_ctrl)

    def stmt(self, d, in_loop, no_ctrl=False):
        r = self.r
        if self.callables and d > 0 and self.budget > 0 and r.random() < 0.2:
            c = r.choice([c for c in self.callables if not c[4]] or self.callables)
            self.budget -= 2
            call = self.call(c, d)
            if c[3] == "n":
                return call
            return ("op", "pop", (), "n", (call,))
        refs = [i for i, t in enumerate(self.params) if t == "r"]
        if refs and r.random() < 0.2:
            return ("refstore", r.choice(refs), self.expr("u", d - 1))
        if self.sub_ret is not None and not no_ctrl and r.random() < 0.08:
            return self.ret_stmt(d)
        s = super().stmt(d, in_loop, no_ctrl)
        if self.sub_ret is not None and isinstance(s, tuple) and s[0] in ("exit", "return"):
            # Approve/Reject inside a subroutine end the program; a main-style Return is turned into the routine's
            return s if (s[0] == "exit" and r.random() < 0.3) else self.ret_stmt(d)
        return s

    def ret_stmt(self, d):
        if self.sub_ret == "n":
            return ("return",)
        return ("return", self.expr(self.sub_ret, d - 1))


ODD_NAMES = ["f", "helper", "do it", "a-b", "x_1", "Main", "l0", "__", "fn.1", "sub\tname", "9lives", "é", "q"]


def gen_sub_program(rng, version, app):
    """returns (prepare(builder), main_recipe, description)"""
    nsubs = rng.choice([1, 1, 2, 2, 3, 4])
    specs = []       # (key, name, ret, kinds, ptypes, body)
    callables = []
    allow_ref = version >= 5      # loads/stores
    for k in range(nsubs):
        key = "s%d" % k
        name = rng.choice(ODD_NAMES) if rng.random() < 0.4 else "sub%d" % k
        ret = rng.choice("nuub")
        arity = rng.choice([0, 1, 1, 2, 2, 3, 4])
        shape = rng.choice(["plain", "plain", "plain", "selfrec", "selfrec", "mutual"]) if arity >= 1 else "plain"
        ptypes = []
        for i in range(arity):
            if i == 0 and shape != "plain":
                ptypes.append("c")
            else:
                ptypes.append(rng.choice(["u", "u", "b", "r"] if (allow_ref and shape == "plain") else ["u", "u", "b"]))
        kinds = "".join("r" if t == "r" else "v" for t in ptypes)
        g = SGen(rng, version, app, size=rng.choice([6, 12, 25]), prefix=key, params=ptypes, sub_ret=ret,
                 callables=list(callables))
        pre = [g.stmt(2, False) for _ in range(rng.choice([0, 1, 2]))]
        if shape == "plain":
            body_stmts = pre + [g.stmt(2, False) for _ in range(rng.choice([0, 1, 2]))]
            tail = [] if ret == "n" else [("return", g.expr(ret, 2))]
            if ret == "n" and rng.random() < 0.3:
                tail = [("return",)]
        else:
            # recursion on the counter parameter 0, with a local that must survive the recursive call
            loc = g.new_var("u")
            ld = ("op", "load", (("slot", loc),), "u", ())
            self_c = (key, kinds, ptypes, ret, True)
            dec = ("op", "-", (), "u", (("param", 0), I(1)))
            rec_args = (dec,) + tuple(g.expr(t, 1) for t in ptypes[1:])
            if shape == "mutual" and callables and any(c[2] and c[2][0] == "c" for c in callables):
                other = rng.choice([c for c in callables if c[2] and c[2][0] == "c"])
                # call an EARLIER recursive routine; true mutual recursion is wired below by patching its body
                rec = ("call", other[0], (dec,) + tuple(g.expr(t, 1) for t in other[2][1:]))
                rec_ret = other[3]
            else:
                rec = ("call", key, rec_args)
                rec_ret = ret
            base = [] if ret == "n" else [("return", g.expr(ret, 1))]
            base = [("op", "log", (), "n", (B(b"base"),))] + base if (app and version >= 5 and rng.random() < 0.5) else base
            if ret == "n":
                base = base + [("return",)]
            use_after = ("op", "pop", (), "n", (("nary", "+", "u", (ld, I(1))),))
            if rec_ret == "n":
                step = [rec, use_after]
                step_ret = [] if ret == "n" else [("return", g.expr(ret, 1))]
            else:
                tmp = g.new_var(rec_ret)
                step = [("op", "store", (("slot", tmp),), "n", (rec,)), use_after]
                if ret == rec_ret and ret != "n":
                    comb = ("nary", "+", "u", (("op", "load", (("slot", tmp),), "u", ()), ld)) if ret == "u" else \
                        ("nary", "concat", "b", (("op", "load", (("slot", tmp),), "b", ()), ("op", "itob", (), "b", (ld,))))
                    step_ret = [("return", comb)]
                else:
                    step_ret = [] if ret == "n" else [("return", g.expr(ret, 1))]
            body_stmts = pre + [("op", "store", (("slot", loc),), "n", (("nary", "+", "u", (("param", 0), I(7))),)),
                                ("if", ("op", "==", (), "u", (("param", 0), I(0))), ("seq",) + tuple(base), ("seq",) + tuple(step + step_ret))]
            tail = [] if ret == "n" else [("return", g.expr(ret, 1))]
        init = [("op", "store", (("slot", v),), "n", ((I(0) if t == "u" else B(b"")),)) for v, t in g.vars.items()]
        body = ("seq",) + tuple(init) + tuple(body_stmts) + tuple(tail)
        specs.append((key, name, ret, kinds, ptypes, body))
        callables.append((key, kinds, ptypes, ret, shape != "plain"))
    if rng.random() < 0.45:
        # a truly mutually recursive pair A <-> B on a counter, return types chosen independently,
        # each with a local that is live across the recursive call
        rets = [rng.choice("nub"), rng.choice("nub")]
        keys = ["ma%d" % nsubs, "mb%d" % nsubs]
        extra = [rng.choice([0, 0, 1, 2]), rng.choice([0, 0, 1, 2])]
        for w in (0, 1):
            key, other = keys[w], keys[1 - w]
            ret, oret = rets[w], rets[1 - w]
            ptypes = ["c"] + [rng.choice("ub") for _ in range(extra[w])]
            optypes = ["c"] + ["?"] * extra[1 - w]
            g = SGen(rng, version, app, size=8, prefix=key, params=ptypes, sub_ret=ret)
            loc = g.new_var("u")
            ld = ("op", "load", (("slot", loc),), "u", ())
            dec = ("op", "-", (), "u", (("param", 0), I(1)))
            oargs = (dec,) + tuple(g.expr(rng.choice("ub"), 1) for _ in range(extra[1 - w]))
            rec = ("call", other, oargs)
            base = [] if ret == "n" else [("return", g.expr(ret, 1))]
            if ret == "n":
                base = base + [("return",)]
            if app and version >= 5:
                use_after = ("op", "log", (), "n", (("op", "itob", (), "b", (ld,)),))
            else:
                use_after = ("op", "pop", (), "n", (("nary", "+", "u", (ld, I(1))),))
            if oret == "n":
                step = [rec, use_after]
            else:
                step = [("op", "pop", (), "n", (rec,)), use_after]
            step_ret = [] if ret == "n" else [("return", (ld if ret == "u" else ("op", "itob", (), "b", (ld,))))]
            body_stmts = [("op", "store", (("slot", loc),), "n", (("nary", "+", "u", (("param", 0), I(11 + w))),)),
                          ("if", ("op", "==", (), "u", (("param", 0), I(0))), ("seq",) + tuple(base), ("seq",) + tuple(step + step_ret))]
            tail = [] if ret == "n" else [("return", g.expr(ret, 1))]
            init = [("op", "store", (("slot", v),), "n", ((I(0) if t == "u" else B(b"")),)) for v, t in g.vars.items()]
            specs.append((key, "mut%s" % "AB"[w], ret, "v" * len(ptypes), ptypes, ("seq",) + tuple(init) + tuple(body_stmts) + tuple(tail)))
        # the pair's parameter types beyond the counter: whatever the bodies pass (anytype)
        for w in (0, 1):
            callables.append((keys[w], "v" * (1 + extra[w]), ["c"] + ["u"] * extra[w], rets[w], False))
    gm = SGen(rng, version, app, size=rng.choice([10, 20, 40]), prefix="m", callables=[(c[0], c[1], c[2], c[3], False) for c in callables])
    stmts = [gm.stmt(3, False) for _ in range(rng.choice([1, 2, 3]))]
    # make sure every subroutine is called at least once, in operand or statement position
    for c in callables:
        call = gm.call(c, 2)
        if c[3] == "n":
            stmts.append(call)
        elif c[3] == "u" and rng.random() < 0.6:
            inner = ("op", "%", (), "u", (call, I(1000)))
            stmts.append(("op", "pop", (), "n", (("op", "-", (), "u", (I(1000000), inner)),)))
        else:
            stmts.append(("op", "pop", (), "n", (call,)))
        if app and version >= 5 and c[3] != "n":
            stmts.append(("op", "log", (), "n", ((("op", "itob", (), "b", (gm.call(c, 1),)) if c[3] == "u" else gm.call(c, 1)),)))
    init = [("op", "store", (("slot", v),), "n", ((I(0) if t == "u" else B(b"")),)) for v, t in gm.vars.items()]
    # make the final contents of the main routine's variables observable
    if app and version >= 5:
        for v, t in gm.vars.items():
            ld = ("op", "load", (("slot", v),), t, ())
            stmts.append(("op", "log", (), "n", ((("op", "itob", (), "b", (ld,)) if t == "u" else ld),)))
    main = ("seq",) + tuple(init) + tuple(stmts) + (("exit", I(1)),)

    def prepare(b):
        for key, name, ret, kinds, ptypes, body in specs:
            b.define_sub(key, name, ret, kinds, body)

    desc = {"subs": [(key, name, ret, kinds) for key, name, ret, kinds, _, _ in specs]}
    return prepare, main, desc
