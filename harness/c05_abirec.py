"""C05 — hand-written programs with a recursion cycle through an ABIReturnSubroutine that has an `output` argument, all
routines with live local slots of DIFFERENT storage types (uint64 and bytes), so that spill / restore code around the
re-entrant calls must keep every slot's type.  Signatures are declared to the checker by label prefix.
(name, min_version, build(pt) -> Expr, {label prefix: (argument storage types in order, result storage type or None)})"""
import re

from common import call_real


def programs(pt):
    abi = pt.abi
    out = []

    def mutual_mixed():
        @pt.ABIReturnSubroutine
        def gabi(n: abi.Uint64, *, output: abi.Uint64):
            k = pt.ScratchVar(pt.TealType.uint64)
            tag = pt.ScratchVar(pt.TealType.bytes)
            return pt.Seq(k.store(n.get() * pt.Int(2)), tag.store(pt.Concat(pt.Bytes("g"), pt.Itob(n.get()))),
                          output.set(pt.If(n.get() == pt.Int(0), pt.Int(1), fpl(n.get() - pt.Int(1)) + k.load() + pt.Len(tag.load()))))

        @pt.Subroutine(pt.TealType.uint64)
        def fpl(x: pt.Expr) -> pt.Expr:
            a, r = abi.Uint64(), abi.Uint64()
            keep = pt.ScratchVar(pt.TealType.bytes)
            cnt = pt.ScratchVar(pt.TealType.uint64)
            return pt.Seq(keep.store(pt.Concat(pt.Bytes("keep"), pt.Itob(x))), cnt.store(x + pt.Int(100)), a.set(x),
                          gabi(a).store_into(r), pt.Return(r.get() + cnt.load() + pt.Len(keep.load())))
        return pt.Seq(pt.Log(pt.Itob(fpl(pt.Int(2)))), pt.Return(fpl(pt.Int(1)) > pt.Int(0)))
    out.append(("mutual-plain-abi-output-mixed-locals", 6, mutual_mixed, {"gabi": ("u", "u"), "fpl": ("u", "u")}))

    def mutual_string_output():
        @pt.ABIReturnSubroutine
        def sabi(n: abi.Uint64, pad: abi.String, *, output: abi.String):
            k = pt.ScratchVar(pt.TealType.uint64)
            return pt.Seq(k.store(n.get() + pt.Int(1)),
                          output.set(pt.If(n.get() == pt.Int(0), pad.get(), pt.Concat(hpl(n.get() - pt.Int(1), pad.get()), pt.Itob(k.load())))))

        @pt.Subroutine(pt.TealType.bytes)
        def hpl(x: pt.Expr, p: pt.Expr) -> pt.Expr:
            a, s, r = abi.Uint64(), abi.String(), abi.String()
            cnt = pt.ScratchVar(pt.TealType.uint64)
            return pt.Seq(cnt.store(x * pt.Int(3)), a.set(x), s.set(p), sabi(a, s).store_into(r),
                          pt.Return(pt.Concat(r.get(), pt.Itob(cnt.load()), s.get())))
        return pt.Seq(pt.Log(hpl(pt.Int(2), pt.Bytes("ab"))), pt.Return(pt.Len(hpl(pt.Int(1), pt.Bytes("c"))) > pt.Int(0)))
    out.append(("mutual-plain-abi-string-output", 6, mutual_string_output, {"sabi": ("ub", "b"), "hpl": ("ub", "b")}))

    # ---- routines whose body returns explicitly on EVERY arm of a two-armed If / a Cond: the body's last block is the empty
    #      join block, yet the epilogue the compiler puts before each retsub (`load <output slot>` / `frame_bury 0`) must be there
    def abi_output_all_arms_return_if():
        @pt.ABIReturnSubroutine
        def pick(flag: pt.Expr, *, output: abi.Uint64) -> pt.Expr:
            return pt.If(flag).Then(pt.Seq(output.set(pt.Int(1)), pt.Return())).Else(pt.Seq(output.set(pt.Txn.fee() + pt.Int(2)), pt.Return()))
        res = abi.Uint64()
        return pt.Seq(pick(pt.Txn.fee() > pt.Int(3)).store_into(res), pt.Log(pt.Itob(res.get())), pt.Return(res.get() > pt.Int(0)))
    out.append(("abi-output-all-arms-return-if", 6, abi_output_all_arms_return_if, {"pick": ("u", "u")}))

    def abi_output_all_arms_return_cond():
        @pt.ABIReturnSubroutine
        def label(n: abi.Uint64, *, output: abi.String) -> pt.Expr:
            return pt.Cond([n.get() == pt.Int(0), pt.Seq(output.set("zero"), pt.Return())],
                           [n.get() == pt.Int(1), pt.Seq(output.set(pt.Concat(pt.Bytes("one"), pt.Itob(n.get()))), pt.Return())],
                           [pt.Int(1), pt.Seq(output.set("many"), pt.Return())])
        a, res = abi.Uint64(), abi.String()
        return pt.Seq(a.set(pt.Txn.fee() % pt.Int(3)), label(a).store_into(res), pt.Log(res.get()), pt.Return(pt.Len(res.get()) > pt.Int(2)))
    out.append(("abi-output-all-arms-return-cond", 6, abi_output_all_arms_return_cond, {"label": ("u", "b")}))

    def plain_abi_locals_all_arms_return():
        @pt.Subroutine(pt.TealType.uint64)
        def measure(flag: pt.Expr) -> pt.Expr:
            s, n = abi.String(), abi.Uint64()
            return pt.Seq(s.set("abc"), n.set(pt.Txn.fee()),
                          pt.If(flag).Then(pt.Return(pt.Len(s.get()) + n.get())).Else(pt.Return(n.get() + pt.Int(5))))

        @pt.Subroutine(pt.TealType.bytes)
        def pickb(k: pt.Expr) -> pt.Expr:
            n, s = abi.Uint64(), abi.String()
            return pt.Seq(n.set(k), s.set("xy"),
                          pt.Cond([n.get() == pt.Int(0), pt.Return(s.get())], [n.get() == pt.Int(1), pt.Return(pt.Itob(n.get()))],
                                  [pt.Int(1), pt.Return(pt.Concat(s.get(), pt.Itob(n.get())))]))
        return pt.Seq(pt.Log(pickb(pt.Txn.fee() % pt.Int(3))), pt.Return(measure(pt.Txn.fee() > pt.Int(2)) + pt.Int(1) > pt.Int(0)))
    out.append(("plain-abi-locals-all-arms-return", 6, plain_abi_locals_all_arms_return, {"measure": ("u", "u"), "pickb": ("u", "b")}))
    return out


def slow_programs(pt):
    """a self-recursive ABIReturnSubroutine that store_into()s its own result: ~25 s per compilation on the pinned tree"""
    abi = pt.abi

    def padded_prog():
        @pt.ABIReturnSubroutine
        def padded(n: abi.Uint64, pad: abi.String, *, output: abi.Uint64):
            m, r = abi.Uint64(), abi.Uint64()
            return pt.If(n.get() == pt.Int(0)).Then(output.set(pt.Len(pad.get()))).Else(
                pt.Seq(m.set(n.get() - pt.Int(1)), padded(m, pad).store_into(r), output.set(r.get() + n.get() + pt.Len(pad.get()))))
        n, s, res = abi.Uint64(), abi.String(), abi.Uint64()
        return pt.Seq(n.set(pt.Int(3)), s.set("ab"), padded(n, s).store_into(res), pt.Log(pt.Itob(res.get())), pt.Return(res.get() == pt.Int(14)))
    return [("abiret-self-recursive-mixed-locals", 6, padded_prog, {"padded": ("ub", "u")})]


OPTIONS = [(6, None, None), (7, True, None), (8, None, False), (9, None, False), (10, False, False), (8, None, None), (10, None, True), (8, False, True), (10, None, None)]


class AbiRecCase:
    """Same interface as c05.Case for the parts `consider` uses."""

    def __init__(self, name, version, ss, fp, slow=False):
        self.kind, self.name, self.slow = "abirec", name, slow
        self.version, self.app, self.ss, self.fp = version, True, ss, fp
        self.recipe, self.subdefs = ("abirec", name), []
        self.real, self.decl = None, []

    def entry(self, pt):
        return [p for p in (slow_programs(pt) if self.slow else programs(pt)) if p[0] == self.name][0]

    def compile(self, pt, ss="same"):
        ss_ = self.ss if ss == "same" else ss
        opt = None if (ss_ is None and self.fp is None) else pt.OptimizeOptions(scratch_slots=ss_, frame_pointers=self.fp)
        return call_real(lambda: pt.compileTeal(self.entry(pt)[2](), pt.Mode.Application, version=self.version, optimize=opt))

    def declare(self, teal):
        import pyteal as pt
        sigs = self.entry(pt)[3]
        decl = []
        for m in re.finditer(r"^([A-Za-z0-9]+?)_(\d+):$", teal, re.M):
            if m.group(1) in sigs:
                args, ret = sigs[m.group(1)]
                decl.append((m.group(0)[:-1], list(args)[::-1], [] if ret is None else [ret]))
        return decl

    def has_ctrl_in_operand(self):
        return False

    def optimiser_on(self):
        return self.ss is True or (self.ss is None and self.version >= 9)

    def describe(self):
        return {"kind": "abirec", "program": self.name, "slow": self.slow, "recipe": repr(self.recipe), "subdefs": "[]",
                "version": self.version, "mode": "app", "scratch_slots": self.ss, "frame_pointers": self.fp,
                "teal": self.real[1].split("\n") if self.real and self.real[0] == "ok" else repr(self.real), "decl": self.decl}


def all_cases(pt, thorough=False):
    for name, minv, _, _ in programs(pt):
        for v, ss, fp in OPTIONS:
            if v >= minv:
                yield AbiRecCase(name, v, ss, fp)
    if thorough:
        for name, minv, _, _ in slow_programs(pt):
            yield AbiRecCase(name, 6, None, None, slow=True)
            yield AbiRecCase(name, 8, None, False, slow=True)
