"""C05 — hand-written programs with a recursion cycle through an ABIReturnSubroutine that has an `output` argument, all
routines with live local slots of DIFFERENT storage types (uint64 and bytes), so that spill / restore code around the
re-entrant calls must keep every slot's type.  Signatures are declared to the checker by label prefix.
(name, min_version, build(pt) -> Expr, {label prefix: (argument storage types in order, result storage type or None)})"""
import re

from common import call_real


def programs(pt):
    abi = pt.abi
    out = []

    def mutual_mixed():
        @pt.ABIReturnSubroutine
        def gabi(n: abi.Uint64, *, output: abi.Uint64):
            k = pt.ScratchVar(pt.TealType.uint64)
            tag = pt.ScratchVar(pt.TealType.bytes)
            return pt.Seq(k.store(n.get() * pt.Int(2)), tag.store(pt.Concat(pt.Bytes("g"), pt.Itob(n.get()))),
                          output.set(pt.If(n.get() == pt.Int(0), pt.Int(1), fpl(n.get() - pt.Int(1)) + k.load() + pt.Len(tag.load()))))

        @pt.Subroutine(pt.TealType.uint64)
        def fpl(x: pt.Expr) -> pt.Expr:
            a, r = abi.Uint64(), abi.Uint64()
            keep = pt.ScratchVar(pt.TealType.bytes)
            cnt = pt.ScratchVar(pt.TealType.uint64)
            return pt.Seq(keep.store(pt.Concat(pt.Bytes("keep"), pt.Itob(x))), cnt.store(x + pt.Int(100)), a.set(x),
                          gabi(a).store_into(r), pt.Return(r.get() + cnt.load() + pt.Len(keep.load())))
        return pt.Seq(pt.Log(pt.Itob(fpl(pt.Int(2)))), pt.Return(fpl(pt.Int(1)) > pt.Int(0)))
    out.append(("mutual-plain-abi-output-mixed-locals", 6, mutual_mixed, {"gabi": ("u", "u"), "fpl": ("u", "u")}))

    def mutual_string_output():
        @pt.ABIReturnSubroutine
        def sabi(n: abi.Uint64, pad: abi.String, *, output: abi.String):
            k = pt.ScratchVar(pt.TealType.uint64)
            return pt.Seq(k.store(n.get() + pt.Int(1)),
                          output.set(pt.If(n.get() == pt.Int(0), pad.get(), pt.Concat(hpl(n.get() - pt.Int(1), pad.get()), pt.Itob(k.load())))))

        @pt.Subroutine(pt.TealType.bytes)
        def hpl(x: pt.Expr, p: pt.Expr) -> pt.Expr:
            a, s, r = abi.Uint64(), abi.String(), abi.String()
            cnt = pt.ScratchVar(pt.TealType.uint64)
            return pt.Seq(cnt.store(x * pt.Int(3)), a.set(x), s.set(p), sabi(a, s).store_into(r),
                          pt.Return(pt.Concat(r.get(), pt.Itob(cnt.load()), s.get())))
        return pt.Seq(pt.Log(hpl(pt.Int(2), pt.Bytes("ab"))), pt.Return(pt.Len(hpl(pt.Int(1), pt.Bytes("c"))) > pt.Int(0)))
    out.append(("mutual-plain-abi-string-output", 6, mutual_string_output, {"sabi": ("ub", "b"), "hpl": ("ub", "b")}))
    return out


def slow_programs(pt):
    """a self-recursive ABIReturnSubroutine that store_into()s its own result: ~25 s per compilation on the pinned tree"""
    abi = pt.abi

    def padded_prog():
        @pt.ABIReturnSubroutine
        def padded(n: abi.Uint64, pad: abi.String, *, output: abi.Uint64):
            m, r = abi.Uint64(), abi.Uint64()
            return pt.If(n.get() == pt.Int(0)).Then(output.set(pt.Len(pad.get()))).Else(
                pt.Seq(m.set(n.get() - pt.Int(1)), padded(m, pad).store_into(r), output.set(r.get() + n.get() + pt.Len(pad.get()))))
        n, s, res = abi.Uint64(), abi.String(), abi.Uint64()
        return pt.Seq(n.set(pt.Int(3)), s.set("ab"), padded(n, s).store_into(res), pt.Log(pt.Itob(res.get())), pt.Return(res.get() == pt.Int(14)))
    return [("abiret-self-recursive-mixed-locals", 6, padded_prog, {"padded": ("ub", "u")})]


OPTIONS = [(6, None, None), (7, True, None), (8, None, False), (9, None, False), (10, False, False), (8, None, None), (10, None, True)]


class AbiRecCase:
    """Same interface as c05.Case for the parts `consider` uses."""

    def __init__(self, name, version, ss, fp, slow=False):
        self.kind, self.name, self.slow = "abirec", name, slow
        self.version, self.app, self.ss, self.fp = version, True, ss, fp
        self.recipe, self.subdefs = ("abirec", name), []
        self.real, self.decl = None, []

    def entry(self, pt):
        return [p for p in (slow_programs(pt) if self.slow else programs(pt)) if p[0] == self.name][0]

    def compile(self, pt, ss="same"):
        ss_ = self.ss if ss == "same" else ss
        opt = None if (ss_ is None and self.fp is None) else pt.OptimizeOptions(scratch_slots=ss_, frame_pointers=self.fp)
        return call_real(lambda: pt.compileTeal(self.entry(pt)[2](), pt.Mode.Application, version=self.version, optimize=opt))

    def declare(self, teal):
        import pyteal as pt
        sigs = self.entry(pt)[3]
        decl = []
        for m in re.finditer(r"^([A-Za-z0-9]+?)_(\d+):$", teal, re.M):
            if m.group(1) in sigs:
                args, ret = sigs[m.group(1)]
                decl.append((m.group(0)[:-1], list(args)[::-1], [] if ret is None else [ret]))
        return decl

    def has_ctrl_in_operand(self):
        return False

    def optimiser_on(self):
        return self.ss is True or (self.ss is None and self.version >= 9)

    def describe(self):
        return {"kind": "abirec", "program": self.name, "slow": self.slow, "recipe": repr(self.recipe), "subdefs": "[]",
                "version": self.version, "mode": "app", "scratch_slots": self.ss, "frame_pointers": self.fp,
                "teal": self.real[1].split("\n") if self.real and self.real[0] == "ok" else repr(self.real), "decl": self.decl}


def all_cases(pt, thorough=False):
    for name, minv, _, _ in programs(pt):
        for v, ss, fp in OPTIONS:
            if v >= minv:
                yield AbiRecCase(name, v, ss, fp)
    if thorough:
        for name, minv, _, _ in slow_programs(pt):
            yield AbiRecCase(name, 6, None, None, slow=True)
            yield AbiRecCase(name, 8, None, False, slow=True)
