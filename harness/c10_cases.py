"""C10 — slot populations and block graphs for the correspondence with
pyteal.compiler.scratchslots.assignScratchSlotsToSubroutines (built directly from TealOp / TealSimpleBlock /
TealConditionalBlock), plus the independent property checks on the real output.

A *case* is plain data:
  {"slots":    [["a"] | ["r", id] | ["reset", k] ...],    creation order; "reset" calls ScratchSlot.reset_slot_numbering(k)
   "poke":     {slot_index: id},                          optional: overwrite slot.id after construction (malformed stream)
   "routines": [{"shape": "chain"|"diamond"|"loop", "blocks": [[op, ...], ...], "dead": [op, ...]}, ...]}
  op = [kind, arg, ...]   kind in load/store/int/other   arg = ["s", slot_index] | int | str
  "share": [[routine_from, block_index, routine_to]]      optional: the same op objects appended to another routine
"""
import re

KIND_OPS = None


def kinds(pt):
    global KIND_OPS
    if KIND_OPS is None:
        KIND_OPS = {"load": pt.Op.load, "store": pt.Op.store, "int": pt.Op.int, "other": pt.Op.byte}
    return KIND_OPS


class Built:
    pass


def build_case(pt, case):
    """Create the real objects.  Returns Built with: slots (objects, None for 'reset' entries), triples
    (uid,id,res) per slot index, ctor_log [(uid, counter_before, request, id, res, counter_after)],
    blocks dict for the real call, flat (per routine: list of TealOp in the order given to the model),
    dead (per routine: ops of an unreachable block)."""
    from pyteal import ScratchSlot
    b = Built()
    b.slots = []
    b.ctor_log = []
    saved = ScratchSlot.nextSlotId
    top = saved
    for uid, spec in enumerate(case["slots"]):
        before = ScratchSlot.nextSlotId
        if spec[0] == "reset":
            ScratchSlot.reset_slot_numbering(spec[1])
            b.slots.append(None)
            continue
        s = ScratchSlot() if spec[0] == "a" else ScratchSlot(spec[1])
        top = max(top, ScratchSlot.nextSlotId)
        b.slots.append(s)
        b.ctor_log.append((uid, before, None if spec[0] == "a" else spec[1], s.id, s.isReservedSlot, ScratchSlot.nextSlotId))
    # never leave the global counter lower than we found it
    ScratchSlot.reset_slot_numbering(max(top, saved))
    for k, v in (case.get("poke") or {}).items():
        b.slots[int(k)].id = v
    b.triples = [None if s is None else (uid, s.id, bool(s.isReservedSlot)) for uid, s in enumerate(b.slots)]
    K = kinds(pt)

    def mkop(o):
        args = []
        for a in o[1:]:
            if isinstance(a, (list, tuple)):
                args.append(b.slots[a[1]])
            else:
                args.append(a)
        return pt.TealOp(None, K[o[0]], *args)

    b.blocks = {}
    b.flat = []
    b.flat_spec = []
    b.dead = []
    b.keys = []
    all_block_ops = []
    for ri, r in enumerate(case["routines"]):
        ops_per_block = [[mkop(o) for o in blk] for blk in r["blocks"]]
        all_block_ops.append(ops_per_block)
    for (rf, bi, rt) in case.get("share", []):
        # the SAME op objects also appear at the end of routine rt's first block
        all_block_ops[rt][0] = all_block_ops[rt][0] + all_block_ops[rf][bi]
    for ri, r in enumerate(case["routines"]):
        opb = all_block_ops[ri]
        shape = r["shape"]
        n = len(opb)
        if shape == "diamond" and n >= 4:
            b0 = pt.TealConditionalBlock(opb[0])
            b1 = pt.TealSimpleBlock(opb[1])
            b2 = pt.TealSimpleBlock(opb[2])
            rest = [pt.TealSimpleBlock(x) for x in opb[3:]]
            b0.setTrueBlock(b1)
            b0.setFalseBlock(b2)
            b1.setNextBlock(rest[0])
            b2.setNextBlock(rest[0])
            for x, y in zip(rest, rest[1:]):
                x.setNextBlock(y)
            blocks = [b0, b1, b2] + rest
        elif shape == "loop" and n >= 4:
            b0 = pt.TealSimpleBlock(opb[0])
            b1 = pt.TealConditionalBlock(opb[1])
            b2 = pt.TealSimpleBlock(opb[2])
            rest = [pt.TealSimpleBlock(x) for x in opb[3:]]
            b0.setNextBlock(b1)
            b1.setTrueBlock(b2)
            b2.setNextBlock(b1)
            b1.setFalseBlock(rest[0])
            for x, y in zip(rest, rest[1:]):
                x.setNextBlock(y)
            blocks = [b0, b1, b2] + rest
        else:
            blocks = [pt.TealSimpleBlock(x) for x in opb]
            for x, y in zip(blocks, blocks[1:]):
                x.setNextBlock(y)
        # own reachability computation (identity based), independent of TealBlock.Iterate
        seen = []
        todo = [blocks[0]]
        while todo:
            w = todo.pop()
            if any(w is v for v in seen):
                continue
            seen.append(w)
            todo += list(w.getOutgoing())
        assert len(seen) == len(blocks), "generator builds connected graphs"
        if ri == 0:
            key = None
        else:
            def impl():
                return None
            impl.__name__ = "c10_r%d" % ri
            key = pt.SubroutineDefinition(impl, pt.TealType.none)
        b.keys.append(key)
        b.blocks[key] = blocks[0]
        b.flat.append([op for blk in blocks for op in blk.ops])
        dead_ops = [mkop(o) for o in r.get("dead", [])]
        if dead_ops:
            pt.TealSimpleBlock(dead_ops).setNextBlock(blocks[0])   # points INTO the graph, not reachable from start
        b.dead.append(dead_ops)
    return b


def model_request(S, b, validate_ok):
    """(assign VALID ROUTINE...) from the REAL objects' args (slot triples read back from the objects)."""
    from pyteal import ScratchSlot, Op
    uid_of = {id(s): t for s, t in zip(b.slots, b.triples) if s is not None}
    kind_of = {Op.load: "load", Op.store: "store", Op.int: "int"}

    def arg(a):
        if isinstance(a, ScratchSlot):
            t = uid_of[id(a)]
            return (S("s"), t[0], t[1], 1 if t[2] else 0)
        return a

    routines = []
    for ops in b.flat:
        routines.append(tuple((S(kind_of.get(op.op, "other")),) + tuple(arg(a) for a in op.args) for op in ops))
    return (S("assign"), S("true" if validate_ok else "false")) + tuple(routines), (S("collect"),) + tuple(routines)


def snapshot_args(b):
    """Current args of every op (after the real call): ints stay ints, strs stay strs, an unassigned slot -> ('s', uid)."""
    from pyteal import ScratchSlot
    uid_of = {id(s): t[0] for s, t in zip(b.slots, b.triples) if s is not None}

    def arg(a):
        if isinstance(a, ScratchSlot):
            return ("s", uid_of[id(a)])
        return a

    return [[[arg(a) for a in op.args] for op in ops] for ops in b.flat], [[[arg(a) for a in op.args] for op in ops] for ops in b.dead]


ERR_DUP = re.compile(r"^Slot ID (\d+) has been assigned multiple times$")
ERR_MANY = re.compile(r"^Too many slots in use: (\d+), maximum is (\d+)$")
ERR_VAL = re.compile(r"^Encountered \d+ errors? when assigning slots to subroutine$")


def classify_error(exc_name, msg):
    if exc_name != "TealInternalError":
        return ("other", exc_name, msg)
    m = ERR_DUP.match(msg)
    if m:
        return ("dup", int(m.group(1)))
    m = ERR_MANY.match(msg)
    if m:
        return ("toomany", int(m.group(1)), int(m.group(2)))
    if ERR_VAL.match(msg):
        return ("validate",)
    return ("other", exc_name, msg)


def reference_facts(b, before_args):
    """Plain-Python facts about the INPUT (independent of the Coq model and of scratchslots.py)."""
    per_routine = []
    for ops in before_args:
        s = set()
        for args in ops:
            for a in args:
                if isinstance(a, tuple) and a[0] == "s":
                    s.add(a[1])
        per_routine.append(s)
    allrefs = set().union(*per_routine) if per_routine else set()
    trip = {t[0]: t for t in b.triples if t is not None}
    by_id = {}
    for u in allrefs:
        if trip[u][2]:
            by_id.setdefault(trip[u][1], []).append(u)
    conflicts = sorted(i for i, us in by_id.items() if len(us) > 1)
    locals_ = []
    for i, s in enumerate(per_routine):
        others = set().union(*[t for j, t in enumerate(per_routine) if j != i]) if len(per_routine) > 1 else set()
        locals_.append(s - others)
    return {"per_routine": per_routine, "all": allrefs, "conflicts": conflicts, "locals": locals_, "trip": trip}


def property_failures(facts, before_args, outcome, after_args, returned, num_slots, ids_from_constructor):
    """The C10 statement, checked directly on what the real function did.  Returns a list of strings."""
    bad = []
    n = len(facts["all"])
    if outcome[0] == "ok":
        if facts["conflicts"]:
            bad.append("two different slots request id %s but the program was accepted" % facts["conflicts"][:3])
        if n > num_slots:
            bad.append("%d distinct slots accepted (limit %d)" % (n, num_slots))
        number = {}
        for ops_b, ops_a in zip(before_args, after_args):
            for args_b, args_a in zip(ops_b, ops_a):
                if len(args_b) != len(args_a):
                    bad.append("op changed its arity")
                    continue
                for x, y in zip(args_b, args_a):
                    if isinstance(x, tuple) and x[0] == "s":
                        if not (isinstance(y, int) and not isinstance(y, bool)):
                            bad.append("slot placeholder of object %d not replaced by a number: %r" % (x[1], y))
                            continue
                        if x[1] in number and number[x[1]] != y:
                            bad.append("object %d received two numbers: %d and %d (an index()/load/store of one variable disagree)" % (x[1], number[x[1]], y))
                        number.setdefault(x[1], y)
                    elif x != y:
                        bad.append("a non-slot argument changed: %r -> %r" % (x, y))
        inv = {}
        for u, k in number.items():
            if k in inv:
                bad.append("objects %d and %d share slot %d" % (inv[k], u, k))
            inv[k] = u
            t = facts["trip"][u]
            if t[2] and k != t[1]:
                bad.append("object %d requested id %d but got %d" % (u, t[1], k))
            if ids_from_constructor and not (0 <= k < min(num_slots, 256)):
                bad.append("object %d got slot %d outside the scratch space" % (u, k))
        if returned is not None:
            for i, loc in enumerate(facts["locals"]):
                want = sorted(number[u] for u in loc if u in number)
                if sorted(returned[i]) != want:
                    bad.append("local slot set of routine %d is %s, the slots only it references are %s" % (i, sorted(returned[i])[:8], want[:8]))
    elif outcome[0] == "dup":
        if outcome[1] not in facts["conflicts"]:
            bad.append("rejected for a duplicate request of id %d, but no two different slots request it" % outcome[1])
    elif outcome[0] == "toomany":
        if n <= num_slots:
            bad.append("rejected as too many slots with %d distinct slots (limit %d)" % (n, num_slots))
        if outcome[1] != n:
            bad.append("error message counts %d slots, the program references %d" % (outcome[1], n))
    return bad


# ------------------------------------------------------------------------------------------------
# generators
# ------------------------------------------------------------------------------------------------
def routine_from_refs(rng, refs, shape, valid, int_slots, extra_other=True):
    """refs: slot indices this routine references.  valid: every slot is stored in the first block
    before anything else (validateSlots passes)."""
    nblocks = {"chain": rng.choice([1, 1, 2, 3]), "diamond": rng.choice([4, 5]), "loop": rng.choice([4, 5])}[shape]
    blocks = [[] for _ in range(nblocks)]
    if extra_other:
        blocks[0].append(["int", rng.randrange(0, 1000)])           # an int literal: must never change
    for s in refs:
        if valid:
            blocks[0].append(["int", rng.randrange(0, 50)])
            blocks[0].append(["store", ["s", s]])
        else:
            blocks[rng.randrange(nblocks)].append(["store", ["s", s]])
    for s in refs:
        for _ in range(rng.choice([0, 1, 1, 2])):
            blocks[rng.randrange(nblocks)].append(["load", ["s", s]])
        if s in int_slots:
            blocks[rng.randrange(nblocks)].append(["int", ["s", s]])
            if rng.random() < 0.5:
                blocks[rng.randrange(nblocks)].append(["other", '"x%d"' % s])
    if extra_other and rng.random() < 0.3:
        blocks[-1].append(["other", '"end"'])
    return {"shape": shape if nblocks >= 4 else "chain", "blocks": blocks}


def population(rng, nslots, nreq, ndup_ids, nroutines, nunref, int_frac, valid=True, shapes=("chain", "chain", "diamond", "loop"), high_ids=False):
    """nslots referenced slot objects, nreq of them with a requested id; ndup_ids ids are requested twice
    (by an extra object each, taken out of the automatic ones); nunref extra objects nobody references."""
    nreq = min(nreq, nslots, 256)
    pool = list(range(256))
    if high_ids:
        ids = pool[-nreq:] if nreq else []
    else:
        ids = rng.sample(pool, nreq)
    specs = [["r", i] for i in ids] + [["a"] for _ in range(nslots - nreq)]
    for k in range(min(ndup_ids, len(ids), nslots - nreq)):
        specs[nreq + k] = ["r", ids[k]]                    # a second object requesting ids[k]
    rng.shuffle(specs)
    specs += [["a"] if rng.random() < 0.5 else ["r", rng.randrange(256)] for _ in range(nunref)]
    refd = list(range(nslots))
    int_slots = set(s for s in refd if rng.random() < int_frac)
    per = [[] for _ in range(nroutines)]
    for s in refd:
        k = 1 if rng.random() < 0.8 else rng.randrange(1, nroutines + 1)
        for r in rng.sample(range(nroutines), k):
            per[r].append(s)
    routines = [routine_from_refs(rng, per[r], rng.choice(shapes), valid, int_slots) for r in range(nroutines)]
    return {"slots": specs, "routines": routines}


def exhaustive_small():
    """All slot-kind words over {automatic, requested 0, requested 1, requested 2} of length 0..4, two routines:
    routine 0 references every slot (store, and the int placeholder for requested ones), routine 1 loads the
    slots at even positions."""
    import itertools
    alphabet = [["a"], ["r", 0], ["r", 1], ["r", 2]]
    for n in range(0, 5):
        for word in itertools.product(range(4), repeat=n):
            specs = [list(alphabet[w]) for w in word]
            r0 = [["int", 9]]
            for i, w in enumerate(word):
                r0 += [["store", ["s", i]]]
                if w:
                    r0 += [["int", ["s", i]]]
            r1 = [["store", ["s", i]] for i in range(0, n, 2)] + [["load", ["s", i]] for i in range(0, n, 2)]
            yield {"slots": specs, "routines": [{"shape": "chain", "blocks": [r0]}, {"shape": "chain", "blocks": [r1, [["other", '"z"']]]}]}
