"""C07 helpers: what the REAL PyTeal builds for element access, in the same textual form as the model
(coq/Extract/Main_c07.v p_plan), shape enumeration, reference values.

Types / values are the nested tuples of c19_abi (AB)."""
import itertools
import re

from common import S, sx, call_real  # noqa
import c19_abi as AB

IDX_STR = "(Btoi (Txna ApplicationArgs 1))"


def idx_expr(pt):
    """the run-time index expression used everywhere: Btoi(Txn.application_args[1])"""
    return pt.Btoi(pt.Txn.application_args[1])


def _slot_id(v):
    """scratch slot id of an ABI value's storage (ScratchVar back-end)"""
    return v._stored_value.slot.id


def normalise(text, enc_slot, strip_store=True):
    """str(expr) of the real expression -> model syntax: the load of the encoded value becomes `enc`,
    the index expression `idx`, any other scratch slot `tmp`; the outer `(Store slot#N X)` is removed."""
    if strip_store:
        m = re.fullmatch(r"\(Store slot#\d+ (.*)\)", text, re.S)
        if not m:
            return "<?not-a-store> " + text
        text = m.group(1)
    text = text.replace("(Load slot#%d)" % enc_slot, "enc")
    text = text.replace(IDX_STR, "idx")
    text = re.sub(r"slot#\d+", "tmp", text)
    return text


def real_tuple_plan(t, i):
    """normalised str of tuple[i].store_into(out) for tuple type t"""
    spec = AB.to_pyteal(t)
    tup = spec.new_instance()
    out = spec.value_type_specs()[i].new_instance()
    e = tup[i].store_into(out)
    return normalise(str(e), _slot_id(tup))


def real_array_plan(t, index=None):
    """normalised str of array[idx].store_into(out); index=None: run-time index, else Python int / ('int', k)"""
    import pyteal as pt
    spec = AB.to_pyteal(t)
    arr = spec.new_instance()
    out = spec.value_type_spec().new_instance()
    if index is None:
        ix = idx_expr(pt)
    elif isinstance(index, tuple):
        ix = pt.Int(index[1])
    else:
        ix = index
    e = arr[ix].store_into(out)
    return normalise(str(e), _slot_id(arr))


def real_length(t):
    spec = AB.to_pyteal(t)
    arr = spec.new_instance()
    return normalise(str(arr.length()), _slot_id(arr), strip_store=False)


def real_get(t):
    spec = AB.to_pyteal(t)
    x = spec.new_instance()
    return normalise(str(x.get()), _slot_id(x), strip_store=False)


def real_decode(t):
    """normalised str of out.decode(encoded) with no range; the encoded operand is a scratch load"""
    import pyteal as pt
    spec = AB.to_pyteal(t)
    src = pt.ScratchVar(pt.TealType.bytes)
    out = spec.new_instance()
    e = out.decode(src.load())
    return normalise(str(e), src.slot.id)


def model_plan(model, src):
    r = model.ask((S("plan"), src))
    if r[0] == S("plan"):
        return r[1]
    if r[0] == S("noplan"):
        return None
    raise RuntimeError("model: %r" % (r,))


def src_tuple(t, i):
    return (S("tuple"), tuple(AB.ty_sx(x) for x in AB.children(t)), i)


def src_array(t):
    return (S("array"), AB.ty_sx(t))


# ---------------------------------------------------------------------------------------------
# shapes
# ---------------------------------------------------------------------------------------------
def is_dynamic(t):
    if t in ("string", "dynbytes"):
        return True
    if isinstance(t, str):
        return False
    h = t[0]
    if h == "darr":
        return True
    if h == "sarr":
        return is_dynamic(t[1])
    if h in ("tuple", "named"):
        return any(is_dynamic(x) for x in AB.children(t))
    return False


def is_array(t):
    return t in ("address", "string", "dynbytes") or (not isinstance(t, str) and t[0] in ("sarr", "darr", "sbytes"))


def array_info(t):
    """(element type, static length | None)"""
    if t == "address":
        return ("byte", 32)
    if t in ("string", "dynbytes"):
        return ("byte", None)
    if t[0] == "sbytes":
        return ("byte", t[1])
    if t[0] == "sarr":
        return (t[1], t[2])
    if t[0] == "darr":
        return (t[1], None)
    raise ValueError(t)


def static_len(t):
    """byte length of a static type, computed here from the ARC-4 rules (independent of model and PyTeal)"""
    return AB.to_sdk(t).byte_len()


def layout(t):
    return AB.parse_type_str(AB.arc4_str(t))


def elem_kind(e):
    if e == "bool":
        return "bool"
    if is_dynamic(e):
        return "dynamic"
    return "static0" if static_len(e) == 0 else "static"


def tuple_shapes(alphabet, maxw):
    for w in range(0, maxw + 1):
        for ts in itertools.product(alphabet, repeat=w):
            yield ("tuple",) + ts


def annotatable(t):
    try:
        AB.to_pyteal(t).annotation_type()
        return True
    except Exception:  # noqa
        return False


def realise(t):
    """Replace every named-tuple term by one whose Python class is declared the normal way (field annotations =
    the member types), so that new_instance() of the spec has the spec's own member types; where the members cannot
    be annotated (e.g. a plain tuple of more than 5 members inside) fall back to a plain tuple.  Class numbers are
    per process: call this again after loading a job from JSON."""
    if isinstance(t, str):
        return t
    h = t[0]
    if h == "sarr":
        return ("sarr", realise(t[1]), t[2])
    if h == "darr":
        return ("darr", realise(t[1]))
    if h == "tuple":
        return ("tuple",) + tuple(realise(x) for x in t[1:])
    if h == "named":
        ts = tuple(realise(x) for x in t[3:])
        names = tuple("f%d" % k for k in range(len(ts)))
        if ts and all(annotatable(x) for x in ts):
            return AB.realistic_named(names, ts)
        return ("tuple",) + ts
    return t
