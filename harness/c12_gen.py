"""C12 helpers: recipes for TealComponent lists, their wire form, spelling generators, oracles tables."""
import base64
import hashlib

from common import S

B32 = "ABCDEFGHIJKLMNOPQRSTUVWXYZ234567"
ENUMS = ["NoOp", "OptIn", "CloseOut", "ClearState", "UpdateApplication", "DeleteApplication",
         "unknown", "pay", "keyreg", "acfg", "axfer", "afrz", "appl"]
INT_POOL = [0, 1, 2, 3, 4, 5, 6, 7, 100, 126, 127, 128, 129, 255, 256, 1000, 65535, 65536,
            (1 << 32) - 1, 1 << 32, (1 << 63), (1 << 64) - 2, (1 << 64) - 1]
BYTE_POOL = [b"", b"a", b"b", b"abc", b"\x00", b"\x00\x00", b"a b", b"a // b", b"a;b", b'q"q', b"\\", b'\\"', b"\n\t\r",
             b"\xc3\xa9", b"\xe2\x82\xac", b"\xf0\x9f\x98\x80", b"hello world", b"0x61", b"base64(YQ==)", b"TMPL_X", b"'"]
SIGS = ["add(uint64,uint64)uint64", "f()void", "transfer(address,uint64)bool", "a(byte[],string)(uint64,bool)", "x", "create(pay,appl)void"]


def sha512_256(b):
    from algosdk import encoding
    return encoding.checksum(bytes(b))


def own_b32decode_prefix(s, nbytes):
    """Strict-alphabet base32 decode by big integer (independent of the library and of the model)."""
    n = 0
    for ch in s:
        i = B32.find(ch)
        if i < 0:
            return None
        n = n * 32 + i
    total = 5 * len(s)
    n >>= total % 8
    b = n.to_bytes(total // 8, "big")
    return b[:nbytes]


def make_address(key):
    chk = sha512_256(key)[-4:]
    return base64.b32encode(key + chk).decode().rstrip("=")


def py_escape(b):
    """What Bytes(str) emits for a str whose UTF-8 encoding is b (escapeStr), computed independently."""
    out = ['"']
    for c in b:
        ch = chr(c)
        if ch == "\\":
            out.append("\\\\")
        elif ch == '"':
            out.append('\\"')
        elif ch == "\n":
            out.append("\\n")
        elif ch == "\r":
            out.append("\\r")
        elif ch == "\t":
            out.append("\\t")
        elif c < 32 or c >= 127:
            out.append("\\x%02x" % c)
        else:
            out.append(ch)
    out.append('"')
    return "".join(out)


def is_utf8(b):
    try:
        b.decode("utf-8")
        return True
    except UnicodeDecodeError:
        return False


def spell_bytes(rng, b, form=None):
    """A spelling that PyTeal's Bytes constructor can emit for value b (form chosen at random)."""
    forms = ["hex", "HEX", "b32", "b32pad", "b64"]
    if is_utf8(b):
        forms += ["quoted", "quoted"]
    form = form or rng.choice(forms)
    if form == "quoted":
        return py_escape(b)
    if form == "hex":
        return "0x" + b.hex()
    if form == "HEX":
        return "0x" + b.hex().upper()
    if form == "b32":
        return "base32(" + base64.b32encode(b).decode().rstrip("=") + ")"
    if form == "b32pad":
        return "base32(" + base64.b32encode(b).decode() + ")"
    return "base64(" + base64.b64encode(b).decode() + ")"


MALFORMED_BYTES = [
    '"', '""', '"a', 'a"', "abc", "0x", "0x6", "0x6g", "0X61", "0x61 62", "0x 61", "0x61\t", '"\\xff"', '"\\x4"', '"a\\"', '"\\101"',
    '"\\q"', '"\\u0041"', '"\\u0141"', '"\\400"', '"\\U00000041"', '"\\U0000004"', '"\\\'"', '"\\a\\b\\f\\v"', '"\xe9"', '"\xc3\xa9"',
    '"a"b"', '"\\\\""', '"\\\\\\""', '"\\8"', '"\\0"', '"\\1011"', '"\\\n"', '"\\x41\\x4a"', '"\\xC3\\xA9"', '"\\xe2\\x82"',
    "base32()", "base32(AB)", "base32(AB======)", "base32(AB=C)", "base32(ABC)", "base32(ab)", "base32(A)", "base32(AAAAAAAA=)",
    "base32(AB====)", "base32(MFRGG===)", "base32(MFRGG", "base32 MFRGG", "b32(MFRGG)", "base32(MFRGGZDF)", "base32(MFRGG1)",
    "base64()", "base64(YQ==)", "base64(YQ)", "base64(YQ=)", "base64(Y Q==)", "base64(=YQ==)", "base64(YWJj=)", "base64(YWJj====)",
    "base64(Y)", "base64(YQ===)", "base64(Y=Q==)", "base64(YQ=x=)", "base64(YR==)", "base64(YQ==YQ==)", "base64(Y\xe9Q==)", "base64(YWJj",
    "b64(YQ==)", "base64 YQ==", "base64(-_==)", "base64(+/+/)", "TMPL_", "TMPL_x y", "tmpl_A", " 0x61", '"a" ', "base16(61)",
]
MALFORMED_INTS = ["5", "foo", "Pay", "0x10", "", "tmpl_X", "TMPL_", "noop", "NoOp ", 1 << 64, (1 << 64) + 5, 1 << 70]
MALFORMED_ADDRS = ["", "A" * 58, "a" * 58, "A" * 57, "A" * 59, "A" * 56 + "==", "AAAA", "TMPL_", "0x00", "=" * 58]
MALFORMED_SIGS = ["", '"', '""', '"a', 'a"', "'a'", "f()void", '"a\\nb()void"', '"a\\\\b"', '"q"q"', '"a b"', "TMPL_X", '"\xe9()void"']


def op(name, *args):
    return ("op", name) + tuple(args)


def lbl(name):
    return ("lbl", name)


def label(name, comment=None):
    return ("label", name, comment)


def wire_arg(a):
    if isinstance(a, bool):
        raise TypeError
    if isinstance(a, int):
        return a
    if isinstance(a, str):
        return a
    if isinstance(a, tuple) and a[0] == "lbl":
        return (S("lbl"), a[1])
    raise TypeError("arg %r" % (a,))


def wire_comp(c):
    if c[0] == "op":
        return (S("op"), c[1]) + tuple(wire_arg(a) for a in c[2:])
    if c[0] == "label":
        return (S("label"), c[1]) if c[2] is None else (S("label"), c[1], c[2])
    raise TypeError("comp %r" % (c,))


def representable(recipe):
    """The model's strings are code points < 256 and its integers are naturals."""
    for c in recipe:
        for a in c[1:]:
            if isinstance(a, str) and any(ord(ch) > 255 for ch in a):
                return False
            if isinstance(a, int) and a < 0:
                return False
            if isinstance(a, tuple) and any(ord(ch) > 255 for ch in a[1]):
                return False
    return True


def oracle_tables(recipe):
    """Hash oracles for the model: checksum digests of every 32-byte key an addr argument spells,
    digests of every method signature (UTF-8 encoded, as constants.py hashes it)."""
    ah = {}
    sh = {}
    for c in recipe:
        if c[0] != "op" or len(c) < 3:
            continue
        for a in c[2:]:
            if not isinstance(a, str):
                continue
            if c[1] == "addr" and len(a) == 58:
                key = own_b32decode_prefix(a, 32)
                if key is not None and len(key) == 32:
                    ah[key] = sha512_256(key)
            if c[1] == "method" and len(a) >= 1:
                inner = a[1:-1]
                sh[inner] = sha512_256(inner.encode("utf-8"))
    return ((S("addr-hashes"),) + tuple((k, v) for k, v in ah.items()),
            (S("sig-hashes"),) + tuple((k, v) for k, v in sh.items()))


def msel_table(recipe_or_sigs):
    """Selector table for the assembler model: raw signature text -> 4 bytes."""
    out = {}
    for s in recipe_or_sigs:
        out[s] = sha512_256(s.encode("utf-8"))[:4]
    return out


def build_real(recipe):
    """Recipe -> real TealComponent objects (constructed directly, as createConstantBlocks' tests do)."""
    import pyteal as pt
    from pyteal.ir.labelref import LabelReference
    ops_by_name = {str(o): o for o in pt.Op}
    out = []
    for c in recipe:
        if c[0] == "op":
            args = [LabelReference(a[1]) if isinstance(a, tuple) else a for a in c[2:]]
            out.append(pt.TealOp(None, ops_by_name[c[1]], *args))
        else:
            out.append(pt.TealLabel(None, LabelReference(c[1]), c[2]))
    return out


def recipe_of_components(components):
    """Real TealComponents (as handed to createConstantBlocks inside compileTeal) -> recipe; None if
    something is not expressible."""
    import pyteal as pt
    from pyteal.ir.labelref import LabelReference
    out = []
    for c in components:
        if isinstance(c, pt.TealOp):
            args = []
            for a in c.args:
                if isinstance(a, bool):
                    return None
                if isinstance(a, (int, str)):
                    args.append(a)
                elif isinstance(a, LabelReference):
                    args.append(("lbl", a.getLabel()))
                else:
                    return None
            out.append(("op", str(c.op)) + tuple(args))
        elif isinstance(c, pt.TealLabel):
            out.append(("label", c.getLabelRef().getLabel(), c.comment))
        else:
            return None
    return out


# -------------------------------------------------------------------------------------------------
# op-list generators
# -------------------------------------------------------------------------------------------------
FILLER = [op("pop"), op("+"), op("txn", "Sender"), op("global", "ZeroAddress"), op("load", 3), op("store", 3), op("dup"),
          op("//", "a comment"), op("concat"), op("=="), op("log"), op("bnz", lbl("l0")), op("b", lbl("l1")), op("callsub", lbl("sub0")),
          label("l0"), label("l1"), label("sub0", "sub0"), op("retsub"), op("gtxn", 0, "Amount"), op("pushint", 9), op("intc_0")]


def gen_const(rng, state, malformed_p=0.0):
    """One constant-loading op. state holds the pools of this list (so repeats are frequent)."""
    r = rng.random()
    if rng.random() < malformed_p:
        k = rng.randrange(6)
        if k == 0:
            return op("int", rng.choice(MALFORMED_INTS))
        if k == 1:
            return op("byte", rng.choice(MALFORMED_BYTES))
        if k == 2:
            return op("addr", rng.choice(MALFORMED_ADDRS))
        if k == 3:
            return op("method", rng.choice(MALFORMED_SIGS))
        if k == 4:
            return rng.choice([op("int"), op("int", 1, 2), op("byte", 5), op("byte"), op("byte", '"a"', '"b"'), op("addr", 7),
                               op("method", 3), op("int", lbl("l0")), op("byte", lbl("l0")), op("method")])
        b = rng.choice(state["bytes"])
        return op("byte", mutate_spelling(rng, b if isinstance(b, str) else spell_bytes(rng, b)))
    if r < 0.40:
        v = rng.choice(state["ints"])
        if isinstance(v, int) and v < 7 and rng.random() < 0.3:
            names = [n for n in ENUMS if enum_value(n) == v]
            if names:
                return op("int", rng.choice(names))
        return op("int", v)
    if r < 0.80:
        b = rng.choice(state["bytes"])
        if isinstance(b, str):
            return op("byte", b)
        return op("byte", spell_bytes(rng, b))
    if r < 0.90:
        a = rng.choice(state["addrs"])
        return op("addr", a)
    return op("method", '"%s"' % rng.choice(state["sigs"]))


def enum_value(n):
    return {"NoOp": 0, "OptIn": 1, "CloseOut": 2, "ClearState": 3, "UpdateApplication": 4, "DeleteApplication": 5,
            "unknown": 0, "pay": 1, "keyreg": 2, "acfg": 3, "axfer": 4, "afrz": 5, "appl": 6}[n]


def mutate_spelling(rng, s):
    if not s:
        return s
    k = rng.randrange(5)
    i = rng.randrange(len(s))
    if k == 0:
        return s[:i] + s[i + 1:]
    if k == 1:
        return s[:i] + rng.choice(['"', "\\", "=", " ", "x", "A", "0", "(", ")", "\xe9", "\n"]) + s[i:]
    if k == 2:
        return s[:i] + rng.choice(['"', "\\", "=", "g", "1", "8", "a"]) + s[i + 1:]
    if k == 3:
        return s + rng.choice(["=", '"', ")", " "])
    return s.swapcase()


def new_state(rng, n_int, n_bytes, templates=True):
    ints = [rng.choice(INT_POOL) if rng.random() < 0.7 else rng.randrange(0, 1 << rng.choice([7, 8, 16, 64])) for _ in range(n_int)]
    if templates and rng.random() < 0.5:
        ints += ["TMPL_INT_%d" % i for i in range(rng.randrange(1, 3))]
    byts = [rng.choice(BYTE_POOL) if rng.random() < 0.7 else bytes(rng.randrange(256) for _ in range(rng.randrange(0, 9))) for _ in range(n_bytes)]
    if templates and rng.random() < 0.5:
        byts += ["TMPL_BYTES_%d" % i for i in range(rng.randrange(1, 3))]
    addrs = [make_address(bytes(rng.randrange(256) for _ in range(32))) for _ in range(2)]
    if templates and rng.random() < 0.3:
        addrs.append("TMPL_ADDR_0")
    # an address whose key also occurs as a byte constant (same value, different pseudo-op)
    key = bytes(rng.randrange(256) for _ in range(32))
    if rng.random() < 0.3:
        addrs.append(make_address(key))
        byts.append(key)
    sigs = [rng.choice(SIGS) for _ in range(2)]
    if rng.random() < 0.3:
        byts.append(sha512_256(sigs[0].encode())[:4])
    # colliding argument TEXTS across pseudo-op kinds / literal forms (same text, different value)
    if rng.random() < 0.5:
        byts.append('"%s"' % rng.choice(sigs))              # byte "sig"  vs  method "sig"
    if rng.random() < 0.25:
        byts.append('"%s"' % rng.choice(addrs))             # byte "<addr or TMPL_ADDR_0>"  vs  addr <...>
    if rng.random() < 0.25:
        t = [x for x in byts if isinstance(x, str) and x.startswith("TMPL_")]
        byts.append('"%s"' % (t[0] if t else "TMPL_BYTES_0"))   # byte "TMPL_X"  vs  byte TMPL_X
    if rng.random() < 0.25:
        byts.append('"%s"' % rng.choice(ints))              # byte "5"  vs  int 5
    if rng.random() < 0.25:
        import base64 as _b
        v = rng.choice([x for x in byts if isinstance(x, bytes)] or [b"ab"])
        inner = rng.choice([_b.b64encode(v).decode(), _b.b32encode(v).decode().rstrip("="), v.hex(), "0x" + v.hex()])
        byts.append('"%s"' % inner)                         # byte "YWI="  vs  byte base64(YWI=)
    return {"ints": ints or [1], "bytes": byts or [b"a"], "addrs": addrs, "sigs": sigs}


def gen_list(rng, length, n_int, n_bytes, malformed_p=0.0, filler_p=0.3):
    st = new_state(rng, n_int, n_bytes)
    out = []
    for _ in range(length):
        if rng.random() < filler_p:
            out.append(rng.choice(FILLER))
        else:
            out.append(gen_const(rng, st, malformed_p))
    return out


def many_distinct(rng, n, kind, repeats=2, interleave=True):
    """n distinct constants, each used `repeats` times (n > 255 exercises the index bound)."""
    if kind == "int":
        vals = rng.sample(range(128, 100000), n)
        consts = [op("int", v) for v in vals]
    elif kind == "smallint":
        vals = list(range(n))
        consts = [op("int", v) for v in vals]
    else:
        consts = [op("byte", "0x%06x" % v) for v in rng.sample(range(1 << 24), n)]
    out = []
    for r in range(repeats):
        part = list(consts)
        if interleave and r > 0 and rng.random() < 0.5:
            rng.shuffle(part)
        out += part
    if interleave:
        for _ in range(rng.randrange(0, 6)):
            out.insert(rng.randrange(len(out) + 1), rng.choice(FILLER))
    return out


def collision_lists(rng):
    """Lists whose constant ops carry the SAME argument text (or the same inner text) under different pseudo-ops /
    literal forms, hence different values: each used once and several times, in both orders, bare and interleaved."""
    import base64 as _b
    a1 = make_address(bytes(range(32)))
    pairs = []
    for sig in ["add(uint64,uint64)uint64", "f()void", "x", "a"]:
        pairs.append((op("byte", '"%s"' % sig), op("method", '"%s"' % sig)))
    pairs += [
        (op("byte", '"TMPL_BYTES_0"'), op("byte", "TMPL_BYTES_0")),
        (op("byte", '"TMPL_ADDR_0"'), op("addr", "TMPL_ADDR_0")),
        (op("byte", "TMPL_X_0"), op("int", "TMPL_X_1")),
        (op("int", 5), op("byte", '"5"')),
        (op("int", "pay"), op("byte", '"pay"')),
        (op("addr", a1), op("byte", '"%s"' % a1)),
        (op("addr", a1), op("byte", "base32(%s)" % a1[:56])),
        (op("byte", "base64(YWJj)"), op("byte", '"YWJj"')),
        (op("byte", "base64(YWJj)"), op("byte", '"base64(YWJj)"')),
        (op("byte", "base32(MFRGG)"), op("byte", '"MFRGG"')),
        (op("byte", "base32(MFRGG)"), op("byte", "base64(MFRGG+==)")),
        (op("byte", "0x6162"), op("byte", '"0x6162"')),
        (op("byte", "0x6162"), op("byte", '"6162"')),
        (op("byte", "0x6a6b"), op("byte", "0x6A6B")),
        (op("method", '"ab"'), op("byte", "0x6162")),
        (op("byte", '"ab"'), op("byte", "base64(YWI=)")),
    ]
    out = []
    for a, b in pairs:
        for na, nb in [(1, 1), (1, 3), (2, 2), (3, 1)]:
            for first, second, n1, n2 in [(a, b, na, nb), (b, a, nb, na)]:
                seq = [first] * n1 + [second] * n2
                out.append(list(seq))
                mixed = list(seq)
                rng.shuffle(mixed)
                for _ in range(rng.randrange(0, 3)):
                    mixed.insert(rng.randrange(len(mixed) + 1), rng.choice(FILLER))
                out.append(mixed)
    return out
