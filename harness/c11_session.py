"""C11 session runner — executed in a FRESH interpreter:  python c11_session.py <spec.json>

Reads a session (list of steps over recipes), performs each step on the real PyTeal through its public
constructors, and after every step records: outcome (ok / exception class), the three process-global
observables (ScratchSlot.nextSlotId, SubroutineDefinition.nextSubroutineId, SubroutineEval._current_proto
is set? and how many locals its Proto lists) and, for compilations, the TEAL text.  Prints one JSON document on stdout.

Nothing here decides anything; the driver (c11.py) compares."""
import json
import sys


def main():
    spec = json.load(open(sys.argv[1]))
    import pyteal as pt
    from pyteal import abi
    from pyteal.ast.scratch import ScratchSlot
    from pyteal.ast.subroutine import SubroutineDefinition, SubroutineEval

    T = pt.TealType
    subs = {}      # handle -> SubroutineFnWrapper | ABIReturnSubroutine
    progs = {}     # program id -> (expr, mode)
    routers = {}   # router id -> Router

    BIN = {
        "+": pt.Add, "-": pt.Minus, "*": pt.Mul, "/": pt.Div, "%": pt.Mod,
        "<": pt.Lt, ">": pt.Gt, "==": pt.Eq, "!=": pt.Neq, "&&": pt.And, "||": pt.Or,
        "&": pt.BitwiseAnd, "|": pt.BitwiseOr, "<=": pt.Le, ">=": pt.Ge,
    }
    TXN = {"fee": pt.Txn.fee, "first_valid": pt.Txn.first_valid, "amount": pt.Txn.amount, "group_index": pt.Txn.group_index}
    GLOBAL = {"min_txn_fee": pt.Global.min_txn_fee, "round": pt.Global.round, "latest_timestamp": pt.Global.latest_timestamp,
              "group_size": pt.Global.group_size}
    ABI_T = {"uint64": abi.Uint64, "uint32": abi.Uint32, "uint16": abi.Uint16, "uint8": abi.Uint8, "string": abi.String}

    class Env:
        def __init__(self, argv, out):
            self.vars = []     # ScratchVar uint64
            self.bvars = []    # ScratchVar bytes
            self.avars = []    # abi uint-like
            self.svars = []    # abi.String
            self.dyn = []      # DynamicScratchVar
            self.maybe = []    # MaybeValue
            self.pre = []      # statements produced by declarations (store_into)
            self.nested = []   # subroutines defined in this body
            self.args = argv
            self.out = out

    def call_args(args, env):
        out = []
        for kind, x in args:
            if kind == "v":
                out.append(E(x, env))
            elif kind == "r":
                out.append(env.vars[x])
            elif kind == "a":
                out.append(env.avars[x])
            elif kind == "aarg":
                out.append(env.args[x])
            else:
                raise AssertionError(kind)
        return out

    def E(e, env):
        k = e[0]
        if k == "int":
            return pt.Int(e[1])
        if k == "tmpl":
            return pt.Tmpl.Int(e[1])
        if k == "load":
            return env.vars[e[1]].load()
        if k == "aget":
            return env.avars[e[1]].get()
        if k == "arg":
            return env.args[e[1]]
        if k == "refload":
            return env.args[e[1]].load()
        if k == "abiarg":
            return env.args[e[1]].get()
        if k == "outget":
            return env.out.get()
        if k == "bin":
            return BIN[e[1]](E(e[2], env), E(e[3], env))
        if k == "not":
            return pt.Not(E(e[1], env))
        if k == "call":
            return subs[e[1]](*call_args(e[2], env))
        if k == "callnested":
            return env.nested[e[1]](*call_args(e[2], env))
        if k == "txn":
            return TXN[e[1]]()
        if k == "global":
            return GLOBAL[e[1]]()
        if k == "btoi":
            return pt.Btoi(B(e[1], env))
        if k == "len":
            return pt.Len(B(e[1], env))
        if k == "ife":
            return pt.If(E(e[1], env), E(e[2], env), E(e[3], env))
        if k == "dynload":
            return env.dyn[e[1]].load()
        if k == "maybeval":
            mv = env.maybe[e[1]]
            return pt.Seq(mv, pt.If(mv.hasValue(), mv.value(), pt.Int(0)))
        if k == "typeerr":
            return pt.Add(pt.Int(1), pt.Bytes("a"))
        if k == "v7":      # an op that exists from program version 7 on (replace2)
            return pt.Btoi(pt.Replace(pt.Itob(E(e[1], env)), pt.Int(0), pt.Bytes("base16", "0x01")))
        raise AssertionError("expr " + repr(e))

    def B(e, env):
        k = e[0]
        if k == "bytes":
            return pt.Bytes(e[1])
        if k == "tmplb":
            return pt.Tmpl.Bytes(e[1])
        if k == "itob":
            return pt.Itob(E(e[1], env))
        if k == "concat":
            return pt.Concat(B(e[1], env), B(e[2], env))
        if k == "sget":
            return env.svars[e[1]].get()
        if k == "loadb":
            return env.bvars[e[1]].load()
        if k == "addr":
            return pt.Tmpl.Addr(e[1])
        raise AssertionError("bexpr " + repr(e))

    def SEQ(ss, env):
        return pt.Seq(*[ST(s, env) for s in ss])

    def ST(s, env):
        k = s[0]
        if k == "store":
            return env.vars[s[1]].store(E(s[2], env))
        if k == "storeb":
            return env.bvars[s[1]].store(B(s[2], env))
        if k == "pop":
            return pt.Pop(E(s[1], env))
        if k == "popb":
            return pt.Pop(B(s[1], env))
        if k == "assert":
            return pt.Assert(E(s[1], env))
        if k == "assertc":
            return pt.Assert(E(s[1], env), comment=s[2])
        if k == "assertm":
            return pt.Assert(*[E(x, env) for x in s[1]], comment=s[2])
        if k == "if":
            if s[3]:
                return pt.If(E(s[1], env)).Then(SEQ(s[2], env)).Else(SEQ(s[3], env))
            return pt.If(E(s[1], env)).Then(SEQ(s[2], env))
        if k == "while":
            return pt.While(E(s[1], env)).Do(SEQ(s[2], env))
        if k == "for":
            v = env.vars[s[1]]
            return pt.For(v.store(pt.Int(0)), v.load() < pt.Int(s[2]), v.store(v.load() + pt.Int(1))).Do(SEQ(s[3], env))
        if k == "break":
            return pt.Break()
        if k == "continue":
            return pt.Continue()
        if k == "aset":
            return env.avars[s[1]].set(E(s[2], env))
        if k == "sset":
            return env.svars[s[1]].set(B(s[2], env))
        if k == "outset":
            return env.out.set(E(s[1], env))
        if k == "refstore":
            return env.args[s[1]].store(E(s[2], env))
        if k == "callnone":
            return subs[s[1]](*call_args(s[2], env))
        if k == "log":
            return pt.Log(B(s[1], env))
        if k == "cond":
            return pt.Cond(*[[E(c, env), SEQ(b, env)] for c, b in s[1]])
        if k == "pre":
            return env.pre[s[1]]
        if k == "dynset":
            return env.dyn[s[1]].set_index(env.vars[s[2]])
        if k == "dynstore":
            return env.dyn[s[1]].store(E(s[2], env))
        if k == "comment":
            return pt.Comment(s[1], SEQ(s[2], env))
        raise AssertionError("stmt " + repr(s))

    def run_decl(d, env):
        k = d["d"]
        if k == "var":
            if d.get("t") == "b":
                env.bvars.append(pt.ScratchVar(T.bytes))
            else:
                env.vars.append(pt.ScratchVar(T.uint64))
        elif k == "res":
            env.vars.append(pt.ScratchVar(T.uint64, d["n"]))
        elif k == "dyn":
            env.dyn.append(pt.DynamicScratchVar(T.uint64))
        elif k == "maybe":
            env.maybe.append(pt.App.globalGetEx(pt.Int(0), pt.Bytes(d.get("key", "k"))))
        elif k == "abi":
            t = d.get("t", "uint64")
            if t == "string":
                env.svars.append(abi.String())
            else:
                env.avars.append(ABI_T[t]())
        elif k == "storeinto":
            rv = subs[d["h"]](*call_args(d["args"], env))
            env.pre.append(rv.store_into(env.avars[d["into"]]))
        elif k == "probe":
            subs[d["h"]].type_of()
        elif k == "defsub":
            @pt.Subroutine(T.none)
            def c11_dead_nested():
                return pt.Pop(pt.Int(0))
        elif k == "nested":
            env.nested.append(make_sub(None, d["sub"]))
        elif k == "raise":
            raise ValueError("c11: body raises")
        elif k == "typeerr":
            pt.Add(pt.Int(1), pt.Bytes("a"))
        else:
            raise AssertionError("decl " + repr(d))

    def build_body(body, argv, out, role):
        env = Env(argv, out)
        for d in body["decls"]:
            run_decl(d, env)
        stmts = [ST(s, env) for s in body["stmts"]]
        if body.get("badreturn"):
            return 5
        if role == "uint64":
            return pt.Seq(*stmts, E(body["ret"], env))
        if role in ("none", "void"):
            return pt.Seq(*stmts)
        if role == "out":
            return pt.Seq(*stmts, out.set(E(body["ret"], env)))
        if role == "app":
            return pt.Seq(*stmts, pt.Approve())
        if role == "sig":
            return pt.Seq(*stmts, pt.Int(1))
        raise AssertionError(role)

    def make_fn(rec):
        args = rec["args"]
        ann = {"val": "pt.Expr", "ref": "pt.ScratchVar", "abi": "pt.abi.Uint64"}
        params = ["a%d: %s" % (i, ann[a]) for i, a in enumerate(args)]
        sig = ", ".join(params)
        if rec["ret"] == "out":
            sig += (", " if params else "") + "*, output: pt.abi.Uint64"
        name = rec["name"]
        src = "def %s(%s):\n    return __body__([%s], %s)\n" % (
            name, sig, ", ".join("a%d" % i for i in range(len(args))), "output" if rec["ret"] == "out" else "None")
        ns = {"pt": pt, "__body__": lambda argv, out: build_body(rec["body"], argv, out, rec["ret"])}
        exec(src, ns)
        return ns[name]

    def make_sub(h, rec):
        fn = make_fn(rec)
        if rec["kind"] == "sub":
            w = pt.Subroutine(T.uint64 if rec["ret"] == "uint64" else T.none)(fn)
        else:
            w = pt.ABIReturnSubroutine(fn)
        if h is not None:
            subs[h] = w
        return w

    def options(st):
        o = st.get("opt", {})
        kw = {}
        if "scratch_slots" in o or "frame_pointers" in o:
            kw["optimize"] = pt.OptimizeOptions(scratch_slots=o.get("scratch_slots"), frame_pointers=o.get("frame_pointers"))
        return kw, bool(o.get("assemble_constants", False))

    def do_step(st):
        k = st["k"]
        if k == "defsub":
            make_sub(st["h"], st["sub"])
            return None
        if k == "build":
            mode = pt.Mode.Application if st["mode"] == "app" else pt.Mode.Signature
            progs.pop(st["p"], None)
            progs[st["p"]] = (build_body(st["body"], [], None, st["mode"]), mode)
            return None
        if k == "compile":
            expr, mode = progs[st["p"]]
            kw, ac = options(st)
            return pt.compileTeal(expr, mode, version=st["version"], assembleConstants=ac, **kw)
        if k == "probe":
            subs[st["h"]].type_of()
            return None
        if k == "router_new":
            bare = st.get("bare", "approve")
            if bare == "none":
                bca = pt.BareCallActions()
            elif bare == "approve":
                bca = pt.BareCallActions(no_op=pt.OnCompleteAction.create_only(pt.Approve()))
            else:
                bca = pt.BareCallActions(no_op=pt.OnCompleteAction.create_only(pt.Approve()),
                                         opt_in=pt.OnCompleteAction.call_only(subs[bare[1]]))
            routers[st["r"]] = pt.Router(st["name"], bca, clear_state=pt.Approve())
            return None
        if k == "router_method":
            w = make_sub(st["h"], st["sub"])
            routers[st["r"]].add_method_handler(w)
            return None
        if k == "router_compile":
            kw, ac = options(st)
            a, c, _ = routers[st["r"]].compile_program(version=st["version"], assemble_constants=ac, **kw)
            return a + "\n==== clear ====\n" + c
        if k == "deep_seq":
            e = pt.Seq(*[pt.Pop(pt.Int(i)) for i in range(st["n"])], pt.Approve())
            return pt.compileTeal(e, pt.Mode.Application, version=st["version"])
        if k == "noop":
            return None
        raise AssertionError("step " + repr(st))

    recover = bool(spec.get("recover", True))
    out = []
    for i, st in enumerate(spec["steps"]):
        rec = {"i": i}
        try:
            teal = do_step(st)
            rec["ok"] = True
            if teal is not None:
                rec["teal"] = teal
        except RecursionError as e:
            rec["ok"] = False
            rec["exc"] = "RecursionError"
        except Exception as e:  # noqa
            rec["ok"] = False
            rec["exc"] = type(e).__name__
            rec["msg"] = str(e)[:160]
        rec["slot"] = ScratchSlot.nextSlotId
        rec["sub"] = SubroutineDefinition.nextSubroutineId
        rec["marker"] = SubroutineEval._current_proto is not None
        rec["locals"] = len(SubroutineEval._current_proto.mem_layout.local_stack_types) if rec["marker"] else None
        if recover and rec["marker"]:
            SubroutineEval._current_proto = None
        out.append(rec)
    json.dump({"steps": out}, sys.stdout)


if __name__ == "__main__":
    main()
