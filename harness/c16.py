"""C16 — WideRatio is exact or fails, never wraps."""
import itertools
import sys

from common import *  # noqa

ensure_env()

U64 = 1 << 64
U128 = 1 << 128
BOUNDARY = [0, 1, 2, 3, 7, (1 << 32) - 1, 1 << 32, (1 << 32) + 1, (1 << 63) - 1, 1 << 63, (1 << 63) + 1, U64 - 2, U64 - 1]


def oracle(ns, ds):
    """The property statement in Python integers: exact quotient or None (= must fail)."""
    for fs in (ns, ds):
        acc = 1
        for f in fs:
            acc *= f
            if acc >= U128:
                return None
    pn = 1
    for f in ns:
        pn *= f
    pd = 1
    for f in ds:
        pd *= f
    if pd == 0:
        return None
    q = pn // pd
    return q if q < U64 else None


def real_ops(nums, dens, version):
    """Op list the real WideRatio lowers to (walks the chain of simple blocks)."""
    import pyteal as pt
    from pyteal.compiler.compiler import CompileOptions
    expr = pt.WideRatio(nums, dens)
    start, end = expr.__teal__(CompileOptions(version=version, mode=pt.Mode.Application))
    ops = []
    b = start
    seen = 0
    while b is not None:
        ops += [op.assemble() for op in b.ops]
        b = getattr(b, "nextBlock", None)
        seen += 1
        assert seen < 10000
    return ops


def gen_values(rng, n, style):
    if style == "boundary":
        return [rng.choice(BOUNDARY) for _ in range(n)]
    if style == "near128":
        # products that land near 2^128: choose factors of about 128/n bits
        bits = max(1, 128 // max(1, n))
        out = []
        for _ in range(n):
            b = min(64, max(1, bits + rng.choice([-2, -1, 0, 0, 1, 2])))
            out.append(rng.randrange(1 << (b - 1), 1 << b))
        return out
    if style == "small":
        return [rng.randrange(0, 1000) for _ in range(n)]
    return [rng.randrange(0, U64) for _ in range(n)]


# ---- compound / run-time factors (the general theorems Props/C16_general.v quantify over arbitrary factor
# expressions; these programs tie that reading to the emitted code) ----
FACTOR_KINDS = ["arg", "sum", "rsum", "prod", "minus", "div", "fee", "if", "len", "const", "nested", "load"]
FACTOR_CONSTS = [0, 1, 2, 3, 7, 1000, (1 << 32) + 1, 1 << 63, U64 - 1]


def make_factor(pt, kind, i, c, svars=None):
    """Factor expression number i (reads application argument i) of the given kind with constant c."""
    a = pt.Btoi(pt.Txn.application_args[i])
    if kind == "arg":
        return a
    if kind == "sum":
        return a + pt.Int(c)
    if kind == "rsum":
        return pt.Int(c) + a
    if kind == "prod":
        return a * pt.Int(c)
    if kind == "minus":
        return a - pt.Int(c)
    if kind == "div":
        return a / pt.Int(c)
    if kind == "fee":
        return pt.Txn.fee()
    if kind == "if":
        return pt.If(a > pt.Int(c), a, pt.Int(c))
    if kind == "len":
        return pt.Len(pt.Txn.application_args[i])
    if kind == "const":
        return pt.Int(c)
    if kind == "nested":
        return pt.WideRatio([a, pt.Int(c)], [pt.Int(3)])
    if kind == "load":
        return svars[i].load()
    raise ValueError(kind)


def factor_value(kind, a, c, fee):
    """What the factor evaluates to in exact integers; None = the factor itself must fail."""
    if kind in ("arg", "load"):
        return a
    if kind in ("sum", "rsum"):
        return a + c if a + c < U64 else None
    if kind == "prod":
        return a * c if a * c < U64 else None
    if kind == "minus":
        return a - c if a >= c else None
    if kind == "div":
        return a // c if c != 0 else None
    if kind == "fee":
        return fee
    if kind == "if":
        return a if a > c else c
    if kind == "len":
        return 8
    if kind == "const":
        return c
    if kind == "nested":
        return oracle([a, c], [3])
    raise ValueError(kind)


def compound_program(pt, kinds_n, kinds_d, consts):
    """Log(Itob(WideRatio(...))) with the given factor kinds; `load` factors are stored first."""
    n = len(kinds_n) + len(kinds_d)
    kinds = list(kinds_n) + list(kinds_d)
    svars = {i: pt.ScratchVar(pt.TealType.uint64, 10 + i) for i in range(n) if kinds[i] == "load"}
    pre = [svars[i].store(pt.Btoi(pt.Txn.application_args[i])) for i in sorted(svars)]
    fs = [make_factor(pt, kinds[i], i, consts[i], svars) for i in range(n)]
    w = pt.WideRatio(fs[:len(kinds_n)], fs[len(kinds_n):])
    return pt.Seq(*(pre + [pt.Log(pt.Itob(w)), pt.Approve()]))


def main(argv):
    args = parse_args(argv)
    ck = Check("C16", args.tier)
    thorough = args.tier == "thorough"
    import pyteal as pt

    # proof obligations: the constant-factor theorem (Props/C16.v) and the arbitrary-factor theorems
    # (Props/C16_general.v: source semantics + lowered graph, composed with lower_correct)
    ck.run_proofs("Props/C16.v",
                  ["Proofs/WideRatioProof.v", "Proofs/WideRatioGeneralOps.v", "Proofs/WideRatioGeneral.v",
                   "Proofs/WideRatioGeneralGraph.v", "Proofs/WideRatioGeneralExamples.v"],
                  extra_props=["Props/C16_general.v"])
    model = Model()

    def avm(teal, argv_, fields=()):
        """Run compiled TEAL on the extracted AVM: (verdict, logs)."""
        ctx = (S("ctx"), (S("mode"), S("app")),
               (S("group"), ((S("fields"),) + tuple(fields), (S("arrays"), ("ApplicationArgs", argv_)))))
        res = model.ask((S("run"), ctx, teal))
        verdict = res[1] if res and res[0] == S("ran") else res
        logs = [e[1] for e in res[3][1:] if e[0] == S("log")] if res and res[0] == S("ran") else None
        return verdict, logs

    def judged(verdict, logs, exp_logs):
        """exp_logs = list of expected uint64 results (logged in order), or None = the program must fail."""
        if exp_logs is None:
            return verdict == S("fail")
        return verdict == S("approve") and logs == [x.to_bytes(8, "big") for x in exp_logs]

    def other_version(v, k=1):
        return 5 + ((v - 5 + k) % 6)

    def compile_twice(prog, v, descr, assemble=False):
        """Compile the SAME expression object at v and then again at another version (an expression tree may be
        compiled any number of times: two versions, approval + clear, with_sourcemap=True ...). Returns
        [(compile_no, version, teal)]; a compilation that raises is recorded as a failing input."""
        out = []
        for no, vv in ((1, v), (2, other_version(v, 1 + (v % 4)))):
            r = call_real(pt.compileTeal, prog, pt.Mode.Application, version=vv, assembleConstants=assemble)
            if r[0] != "ok":
                d = dict(descr)
                d.update({"kind": "compile-error", "version": vv, "compile_no": no, "first_version": v, "expected": "TEAL",
                          "observed_verdict": "%s %s" % (r[1], (r[2] if len(r) > 2 else "")), "observed_logs": None})
                sem_fail.append(d)
                continue
            out.append((no, vv, r[1]))
        return out

    sem_fail = []

    # ---------------- correspondence 1: op-list text equality, constructor acceptance ----------
    text_mismatch = []
    maxn = 9 if thorough else 7
    versions = range(5, 11)
    for nn, nd in itertools.product(range(0, maxn + 1), repeat=2):
        ns = [ck.rng.randrange(0, U64) for _ in range(nn)]
        ds = [ck.rng.randrange(0, U64) for _ in range(nd)]
        accept_model = nn != 0 and nd != 0 and not (nn == 1 and nd == 1)
        try:
            pt.WideRatio([pt.Int(x) for x in ns], [pt.Int(x) for x in ds])
            accepted = True
        except pt.TealInternalError:
            accepted = False
        ck.count(("accept", nn, nd), nontrivial=False)
        if accepted != accept_model:
            ck.violation("WideRatio constructor acceptance differs from the model for %d numerators / %d denominators" % (nn, nd),
                         {"kind": "acceptance", "nn": nn, "nd": nd, "real": accepted, "model": accept_model})
            continue
        if not accepted:
            continue
        m_ops = [s for s in model.ask((S("wide-ops"), ns, ds))[1:]]
        for v in versions:
            r = call_real(real_ops, [pt.Int(x) for x in ns], [pt.Int(x) for x in ds], v)
            r_ops = r[1] if r[0] == "ok" else ["<%s>" % r[1]]
            ck.count(("text", nn, nd, v))
            if r[0] == "exc" and r[1] not in PYTEAL_ERRORS:
                ck.violation("WideRatio with %d/%d factors crashes at version %d with %s" % (nn, nd, v, r[1]),
                             {"kind": "crash", "nn": nn, "nd": nd, "version": v, "exception": r[1:]})
            if r_ops != m_ops:
                text_mismatch.append({"nn": nn, "nd": nd, "version": v, "ns": ns, "ds": ds, "real": r_ops, "model": m_ops})
        # repeated literals: equal adjacent constants (the model emits one `int x` per factor, whatever its neighbours)
        pool = [ck.rng.choice([1, 2, 3, 5, 1000, (1 << 32) - 1, U64 - 1]) for _ in range(2)]
        ns_r = [ck.rng.choice(pool) for _ in range(nn)]
        ds_r = [ck.rng.choice(pool) for _ in range(nd)]
        m_ops_r = [s for s in model.ask((S("wide-ops"), ns_r, ds_r))[1:]]
        v_r = 5 + ((nn + nd) % 6)
        r = call_real(real_ops, [pt.Int(x) for x in ns_r], [pt.Int(x) for x in ds_r], v_r)
        r_ops = r[1] if r[0] == "ok" else ["<%s>" % r[1]]
        ck.count(("text-repeated", nn, nd, v_r, tuple(ns_r), tuple(ds_r)))
        if r_ops != m_ops_r:
            text_mismatch.append({"nn": nn, "nd": nd, "version": v_r, "ns": ns_r, "ds": ds_r, "repeated_literals": True, "real": r_ops, "model": m_ops_r})
        # composite factors: model ops with each `int k` replaced by the factor's own code
        comp_n = [(pt.Int(x) + pt.Int(1), ["int %d" % x, "int 1", "+"]) for x in ns]
        comp_d = [(pt.Btoi(pt.Bytes("base16", "0x01")) , ["byte 0x01", "btoi"]) for x in ds]
        r = call_real(real_ops, [e for e, _ in comp_n], [e for e, _ in comp_d], 6)
        r_ops = r[1] if r[0] == "ok" else ["<%s>" % r[1]]
        it = iter([c for _, c in comp_n] + [c for _, c in comp_d])
        expect = []
        consts = set("int %d" % x for x in ns + ds)
        k = 0
        # substitute factor constants positionally: the model emits exactly one `int x` per factor, in order,
        # plus `int 0` for a single-factor high word (which precedes that factor).
        m_struct = model.ask((S("wide-ops"), [11] * nn, [11] * nd))[1:]
        for line in m_struct:
            if line == "int 11":
                expect += next(it)
            else:
                expect.append(line)
        ck.count(("text-composite", nn, nd))
        if r_ops != expect:
            text_mismatch.append({"nn": nn, "nd": nd, "version": 6, "composite": True, "real": r_ops, "model": expect})
    # version gate
    for v in (2, 3, 4):
        try:
            real_ops([pt.Int(1), pt.Int(2)], [pt.Int(3)], v)
            ck.violation("WideRatio lowered at version %d although it needs cover/uncover (v5)" % v, {"kind": "version-gate", "version": v})
        except pt.TealCompileError:
            pass
        ck.count(("gate", v), nontrivial=False)
    ck.coverage["text_cases_mismatching"] = len(text_mismatch)

    # ---------------- correspondence 2 / oracle: real TEAL on the AVM vs big integers -----------
    shapes = [(a, b) for a in range(1, 7) for b in range(1, 7) if not (a == 1 and b == 1)]
    if thorough:
        shapes += [(7, 2), (2, 7), (8, 8), (1, 9), (9, 1)]
    per_shape = 60 if thorough else 14
    recompile_runs = 10 if thorough else 3      # inputs also run on the SECOND compilation of the same object
    hist = {"ok": 0, "must_fail": 0}
    for (nn, nd) in shapes:
        vs = list(versions) if thorough else [5, 8, 10]
        for v in vs:
            # factors come from application arguments, so one compilation serves many inputs
            nums = [pt.Btoi(pt.Txn.application_args[i]) for i in range(nn)]
            dens = [pt.Btoi(pt.Txn.application_args[nn + i]) for i in range(nd)]
            prog = pt.Seq(pt.Log(pt.Itob(pt.WideRatio(nums, dens))), pt.Approve())
            teals = compile_twice(prog, v, {"ns": [nn], "ds": [nd]})
            for k in range(per_shape):
                style = ["boundary", "near128", "small", "random", "near128", "boundary"][k % 6]
                ns = gen_values(ck.rng, nn, style)
                ds = gen_values(ck.rng, nd, style)
                if k % 7 == 3 and nd > 0:
                    ds[ck.rng.randrange(nd)] = ck.rng.choice([1, 1, 2, 0])
                exp = oracle(ns, ds)
                hist["ok" if exp is not None else "must_fail"] += 1
                argv_ = [x.to_bytes(8, "big") for x in ns + ds]
                spec = model.ask((S("wide-spec"), ns, ds))
                spec_v = spec[1] if spec[0] == S("some") else None
                if spec_v != exp:
                    ck.model_problem("Coq wide_ratio_spec disagrees with the big-integer oracle on ns=%s ds=%s: %s vs %s" % (ns, ds, spec_v, exp))
                verdict = None
                for (no, vv, teal) in teals:
                    if no == 2 and k >= recompile_runs:
                        continue
                    verdict, logs = avm(teal, argv_)
                    ck.count(("run", nn, nd, vv, no, tuple(ns), tuple(ds)))
                    if not judged(verdict, logs, None if exp is None else [exp]):
                        sem_fail.append({"kind": "semantic", "version": vv, "compile_no": no, "first_version": v, "ns": ns, "ds": ds,
                                         "expected": ("fail" if exp is None else exp), "observed_verdict": repr(verdict),
                                         "observed_logs": [l.hex() for l in logs] if logs else logs, "teal": teal})
                if len(ck.samples) < 4 and k in (0, 1):
                    ck.sample({"nums": ns, "dens": ds, "version": v, "expected": ("fail" if exp is None else exp), "verdict": repr(verdict)})
    ck.coverage["input_distribution"] = hist
    ck.coverage["shapes"] = len(shapes)

    # ---------------- correspondence 3: compound / run-time factors, versions 5..10 -----------
    # Factors are arbitrary expressions (arithmetic on application arguments, Txn.fee, If, Len, a nested
    # WideRatio, scratch loads); the compiled program runs on the extracted AVM and is compared with exact
    # integer arithmetic: every factor's own value (or its failure), then the oracle on the values.
    chist = {"ok": 0, "must_fail": 0, "factor_fails": 0}
    kind_hist = {}
    per_prog = 20 if thorough else 5
    fee = 1000
    for si, (nn, nd) in enumerate(shapes):
        if nn + nd > 14:
            continue
        vs = list(versions) if thorough else [5 + (si % 6), 5 + ((si + 3) % 6)]
        for v in vs:
            kinds = [ck.rng.choice(FACTOR_KINDS) for _ in range(nn + nd)]
            # a compound factor in third-or-later position whenever there is one (multi-block code there)
            if nn >= 3:
                kinds[ck.rng.randrange(2, nn)] = ck.rng.choice(["sum", "rsum", "prod", "if", "nested", "minus"])
            if nd >= 3:
                kinds[nn + ck.rng.randrange(2, nd)] = ck.rng.choice(["sum", "rsum", "prod", "if", "nested", "div"])
            if not any(k in ("arg", "sum", "rsum", "prod", "minus", "div", "if", "nested", "load") for k in kinds):
                kinds[0] = "arg"
            consts = [ck.rng.choice(FACTOR_CONSTS[:6]) if ck.rng.random() < 0.7 else ck.rng.choice(FACTOR_CONSTS) for _ in kinds]
            for i, kd in enumerate(kinds):
                if kd in ("prod", "div", "nested") and consts[i] == 0 and ck.rng.random() < 0.8:
                    consts[i] = ck.rng.choice([1, 2, 3, 7])
                kind_hist[kd] = kind_hist.get(kd, 0) + 1
            rb = call_real(compound_program, pt, kinds[:nn], kinds[nn:], consts)
            if rb[0] != "ok":
                sem_fail.append({"kind": "compile-error", "version": v, "ns": kinds[:nn], "ds": kinds[nn:], "consts": consts,
                                 "expected": "TEAL", "observed_verdict": rb[1], "observed_logs": None})
                continue
            teals = compile_twice(rb[1], v, {"ns": kinds[:nn], "ds": kinds[nn:], "consts": consts})
            for k in range(per_prog):
                style = ["small", "boundary", "near128", "random", "small"][k % 5]
                args_ = gen_values(ck.rng, nn + nd, style)
                if k % 2 == 0:
                    # keep derived factors alive: arguments above the constant for `minus`, small for `sum`/`prod`
                    for i, kd in enumerate(kinds):
                        if kd == "minus" and args_[i] < consts[i]:
                            args_[i] = min(U64 - 1, consts[i] + ck.rng.randrange(0, 1000))
                        if kd in ("sum", "rsum", "prod") and factor_value(kd, args_[i], consts[i], fee) is None:
                            args_[i] = ck.rng.randrange(0, 1 << 20)
                vals = [factor_value(kinds[i], args_[i], consts[i], fee) for i in range(nn + nd)]
                if any(x is None for x in vals):
                    exp = None
                    chist["factor_fails"] += 1
                else:
                    exp = oracle(vals[:nn], vals[nn:])
                    chist["ok" if exp is not None else "must_fail"] += 1
                argv_ = [x.to_bytes(8, "big") for x in args_]
                verdict = None
                for (no, vv, teal) in teals:
                    if no == 2 and k >= 2 and not thorough:
                        continue
                    verdict, logs = avm(teal, argv_, (("Fee", fee), ("NumAppArgs", len(argv_))))
                    ck.count(("run-compound", nn, nd, vv, no, tuple(kinds), tuple(consts), tuple(args_)))
                    if not judged(verdict, logs, None if exp is None else [exp]):
                        sem_fail.append({"kind": "semantic-compound", "version": vv, "compile_no": no, "first_version": v,
                                         "ns": vals[:nn], "ds": vals[nn:],
                                         "factor_kinds": kinds, "factor_consts": consts, "app_args": args_, "fee": fee,
                                         "expected": ("fail" if exp is None else exp), "observed_verdict": repr(verdict),
                                         "observed_logs": [l.hex() for l in logs] if logs else logs, "teal": teal})
                if k == 0 and si in (7, 20):
                    ck.sample({"factor_kinds": kinds, "consts": consts, "app_args": args_, "version": v,
                               "expected": ("fail" if exp is None else exp), "verdict": repr(verdict)})
    ck.coverage["compound_input_distribution"] = chist
    ck.coverage["compound_factor_kinds"] = kind_hist

    # ---------------- correspondence 4: ONE WideRatio object used at two places ----------------
    # r = WideRatio(3..5 numerators, 3..5 denominators) over application arguments; (i) as both factors of an
    # outer ratio WideRatio([r, r], [Int 1]) = r*r; (ii) in two statements Log(Itob(r)); Log(Itob(r)).  An
    # expression object may occur any number of times in a program: every occurrence must compute the full ratio.
    shist = {"ok": 0, "must_fail": 0}
    per_shared = 12 if thorough else 3
    sshapes = [(a, b) for a in (3, 4, 5) for b in (3, 4, 5)]
    for si, (nn, nd) in enumerate(sshapes):
        vs = list(versions) if thorough else [5 + (si % 6), 5 + ((si + 2) % 6)]
        for v in vs:
            for form in ("outer", "twice"):
                nums = [pt.Btoi(pt.Txn.application_args[i]) for i in range(nn)]
                dens = [pt.Btoi(pt.Txn.application_args[nn + i]) for i in range(nd)]
                rr = pt.WideRatio(nums, dens)
                if form == "outer":
                    prog = pt.Seq(pt.Log(pt.Itob(pt.WideRatio([rr, rr], [pt.Int(1)]))), pt.Approve())
                else:
                    prog = pt.Seq(pt.Log(pt.Itob(rr)), pt.Log(pt.Itob(rr)), pt.Approve())
                teals = compile_twice(prog, v, {"ns": [nn], "ds": [nd], "shared_form": form})
                for k in range(per_shared):
                    style = ["small", "near128", "boundary", "small", "random", "near128"][k % 6]
                    ns = gen_values(ck.rng, nn, style)
                    ds = gen_values(ck.rng, nd, "small" if k % 2 == 0 else style)
                    if k % 2 == 0:
                        ds = [max(1, x) for x in ds]
                    q = oracle(ns, ds)
                    if q is None:
                        exp_logs = None
                    elif form == "outer":
                        qq = oracle([q, q], [1])
                        exp_logs = None if qq is None else [qq]
                    else:
                        exp_logs = [q, q]
                    shist["ok" if exp_logs is not None else "must_fail"] += 1
                    argv_ = [x.to_bytes(8, "big") for x in ns + ds]
                    for (no, vv, teal) in teals:
                        if no == 2 and k >= 2 and not thorough:
                            continue
                        verdict, logs = avm(teal, argv_)
                        ck.count(("run-shared", form, nn, nd, vv, no, tuple(ns), tuple(ds)))
                        if not judged(verdict, logs, exp_logs):
                            sem_fail.append({"kind": "semantic", "shared_form": form, "version": vv, "compile_no": no, "first_version": v,
                                             "ns": ns, "ds": ds, "inner_quotient": q,
                                             "expected": ("fail" if exp_logs is None else exp_logs), "observed_verdict": repr(verdict),
                                             "observed_logs": [l.hex() for l in logs] if logs else logs, "teal": teal})
    ck.coverage["shared_object_input_distribution"] = shist

    # ---------------- correspondence 5: LITERAL factors with repetitions, assembleConstants on/off ----------
    # Factor lists are Int literals drawn from a small pool, so equal values recur: adjacent equal literals at every
    # position (2nd, 3rd and later, in numerator and denominator, across the numerator/denominator boundary), the same
    # Int OBJECT used several times, boundary values whose running product's low word differs from the factor.  The
    # program also uses repeated small constants elsewhere (Assert / Pop of Int 1, 2, 3 ...), and is compiled with
    # assembleConstants=False and =True (intcblock / intc_N / pushint); the emitted TEAL runs on the AVM vs the oracle.
    lhist = {"ok": 0, "must_fail": 0, "adjacent_equal_3rd_or_later": 0, "assembled": 0}
    LIT_SMALL = [1, 2, 3, 5, 7, 11, 100]
    LIT_LARGE = [128, 1000, 65537, (1 << 32) - 1, (1 << 32) + 1, 1 << 63, U64 - 1, 4294967297 * 3]
    lit_rounds = 4 if thorough else 1
    for si, (nn, nd) in enumerate(shapes):
        if nn + nd > 14:
            continue
        for rnd in range(lit_rounds):
            vs = list(versions) if thorough else [5 + ((si + rnd) % 6), 5 + ((si + rnd + 3) % 6)]
            for v in vs:
                pool_n = ck.rng.randrange(1, 4)
                pool = [ck.rng.choice(LIT_SMALL) for _ in range(pool_n)] + [ck.rng.choice(LIT_LARGE) for _ in range(ck.rng.randrange(1, 3))]
                if ck.rng.random() < 0.3:
                    pool = [x for x in pool if x < (1 << 33)] or [3, 1000]
                ns = [ck.rng.choice(pool) for _ in range(nn)]
                ds = [ck.rng.choice(pool) for _ in range(nd)]
                # force an adjacent repetition at a third-or-later position, and one across the boundary
                if nn >= 3:
                    j = ck.rng.randrange(2, nn)
                    ns[j] = ns[j - 1]
                if nd >= 3:
                    j = ck.rng.randrange(2, nd)
                    ds[j] = ds[j - 1]
                if ck.rng.random() < 0.5:
                    ds[0] = ns[-1]
                if ck.rng.random() < 0.25 and nd >= 2:
                    ds[ck.rng.randrange(nd)] = ck.rng.choice([1, 1, 2, 0])
                if any(fs[j] == fs[j - 1] for fs in (ns, ds) for j in range(2, len(fs))):
                    lhist["adjacent_equal_3rd_or_later"] += 1
                share = ck.rng.random() < 0.5            # one Int object per distinct value, reused
                objs = {}
                def lit(x):
                    if share:
                        if x not in objs:
                            objs[x] = pt.Int(x)
                        return objs[x]
                    return pt.Int(x)
                if ck.rng.random() < 0.5:
                    # dense: five or more repeated small constants that outrank the factor literals (the intcblock keeps
                    # only the four most frequent small ones; the others become pushint), then repeated large ones
                    amb = [(1, 5), (2, 5), (3, 4), (5, 4), (7, ck.rng.choice([3, 4])), (11, ck.rng.choice([0, 3])),
                           (ck.rng.choice(LIT_LARGE), ck.rng.choice([0, 2, 3]))]
                else:
                    amb = [(1, 3), (2, ck.rng.randrange(0, 4)), (3, ck.rng.randrange(0, 3)), (5, ck.rng.randrange(0, 3)),
                           (ck.rng.choice(LIT_SMALL), 2), (ck.rng.choice(LIT_LARGE), ck.rng.randrange(0, 3))]
                pre = []
                for (a, m) in amb:
                    for t in range(m):
                        pre.append(pt.Assert(pt.Int(a)) if t % 2 == 0 else pt.Pop(pt.Int(a)))
                ck.rng.shuffle(pre)
                cut = ck.rng.randrange(0, len(pre) + 1)
                exp = oracle(ns, ds)
                for assemble in (False, True):
                    w = pt.WideRatio([lit(x) for x in ns], [lit(x) for x in ds])
                    prog = pt.Seq(*(pre[:cut] + [pt.Log(pt.Itob(w))] + pre[cut:] + [pt.Approve()]))
                    teals = compile_twice(prog, v, {"ns": ns, "ds": ds, "literal": True, "assembleConstants": assemble,
                                                    "ambient_constants": amb}, assemble=assemble)
                    for (no, vv, teal) in teals:
                        if no == 2 and not thorough and (si + rnd) % 3 != 0:
                            continue
                        verdict, logs = avm(teal, [])
                        ck.count(("run-literal", vv, no, assemble, tuple(ns), tuple(ds), tuple(amb), cut, share))
                        lhist["ok" if exp is not None else "must_fail"] += 1
                        lhist["assembled"] += 1 if assemble else 0
                        if not judged(verdict, logs, None if exp is None else [exp]):
                            sem_fail.append({"kind": "semantic", "literal": True, "assembleConstants": assemble, "shared_int_objects": share,
                                             "ambient_constants": amb, "version": vv, "compile_no": no, "first_version": v,
                                             "ns": ns, "ds": ds, "expected": ("fail" if exp is None else exp),
                                             "observed_verdict": repr(verdict),
                                             "observed_logs": [l.hex() for l in logs] if logs else logs, "teal": teal})
    ck.coverage["literal_input_distribution"] = lhist

    # ---------------- verdict ----------------
    # report at most 8 failing inputs: silently wrong numbers first (approve with a wrong log), and all
    # families (argument factors / one object at two places / compound factors) represented
    def _rank(f):
        wrong_number = f.get("observed_verdict") == repr(S("approve"))
        return (0 if wrong_number else 1)
    plain = sorted([f for f in sem_fail if f["kind"] != "semantic-compound" and not f.get("shared_form") and not f.get("literal")], key=_rank)
    lits = sorted([f for f in sem_fail if f.get("literal")], key=lambda f: (_rank(f), 0 if not f.get("assembleConstants") else 1))
    lits = [f for f in lits if not f.get("assembleConstants")][:2] + [f for f in lits if f.get("assembleConstants")][:2]
    shared = sorted([f for f in sem_fail if f["kind"] != "semantic-compound" and f.get("shared_form")], key=_rank)
    comp = sorted([f for f in sem_fail if f["kind"] == "semantic-compound"], key=_rank)
    for f in plain[:3] + shared[:2] + lits + comp[:3]:
        if f["kind"] == "semantic-compound":
            ck.violation("compiled WideRatio with factor expressions %s (constants %s) on application arguments %s (factor values %s/%s) at v%d gave %s %s, expected %s%s"
                         % (f["factor_kinds"], f["factor_consts"], f["app_args"], f["ns"], f["ds"], f["version"], f["observed_verdict"], f["observed_logs"], f["expected"],
                            (" [SECOND compilation of the same expression object; first was at v%d]" % f["first_version"]) if f.get("compile_no") == 2 else ""), f)
            continue
        note = ""
        if f.get("shared_form") == "outer":
            note += " [r = that ratio used as BOTH factors of WideRatio([r, r], [1]) -- one object, two places]"
        if f.get("shared_form") == "twice":
            note += " [the same WideRatio object logged in two statements]"
        if f.get("literal"):
            note += " [Int LITERAL factors, compileTeal(assembleConstants=%s), other constants in the program (value, uses): %s]" % (f["assembleConstants"], f["ambient_constants"])
        if f.get("compile_no") == 2:
            note += " [SECOND compilation of the same expression object; first was at v%d]" % f["first_version"]
        ck.violation("compiled WideRatio %s/%s at v%d gave %s %s, expected %s%s" % (f["ns"], f["ds"], f["version"], f["observed_verdict"], f["observed_logs"], f["expected"], note), f)
    if text_mismatch and not sem_fail:
        ck.violation("correspondence broken: WideRatio op list differs from Comp/WideRatio.v (theorem C16_wide_ratio_exact_or_fails no longer transfers); AVM search over %d inputs found no wrong result" % (hist["ok"] + hist["must_fail"]),
                     {"kind": "correspondence", "broken": "text equality WideRatio.__teal__ vs wide_ratio_ops", "first": text_mismatch[0]}, no_failing_input=True)
    if not ck.proof_ok and not sem_fail:
        ck.violation("proof obligation broken: Props/C16.v, Props/C16_general.v or their proof files no longer check",
                     {"kind": "proof", "broken": "C16_wide_ratio_exact_or_fails / C16_wide_ratio_general / C16_wide_ratio_never_wraps",
                      "log": ck.proof_log[-1500:]}, no_failing_input=True)
    ck.coverage["disagreements_checked"] = len(text_mismatch) + len(sem_fail)
    model.close()
    return ck.finish(
        level="proof",
        rule="text: every (numerators, denominators) count pair 0..%d x versions 5..10 with random constants, plus composite factors; "
             "semantic: real compileTeal output run on the extracted AVM for shapes 1..6 x 1..6 with boundary/near-2^128/small/random uint64 factors taken from application arguments; "
             "compound: the same with factor expressions drawn from {btoi(arg), arg+c, c+arg, arg*c, arg-c, arg/c, Txn.fee, If(arg>c,arg,c), Len(arg), Int c, nested WideRatio, scratch load} "
             "(a compound factor forced into every third-or-later position), versions 5..10, each factor's value/failure computed in exact integers; "
             "literal: Int-literal factor lists with repetitions (adjacent equal literals at every position incl. 3rd-or-later and across the num/den boundary, shared Int objects) "
             "inside programs with further repeated constants, compiled with assembleConstants=False and True, run on the AVM; "
             "recompile: every generated program OBJECT is compiled twice (second time at another version) and both outputs are run; "
             "shared: one WideRatio object (3..5 x 3..5 factors) used as both factors of an outer ratio and in two statements; "
             "a case is distinct by (shape, version, compilation number, factor kinds/constants, factor values); non-trivial = the constructor accepts the shape" % maxn,
        trusted_base=[
            "AVM semantics of int/mulw/*/+/uncover/dig/cover/swap/divmodw/pop/!/assert/btoi/itob/log/txna in coq/AVM (hand-written spec)",
            "Theorem is about Comp/WideRatio.v (hand model of widemath.py), tied to the code by op-list text equality on every run",
            "C16_wide_ratio_exact_or_fails quantifies over constant factors on the op list; C16_wide_ratio_general / _never_wraps / _general_graph "
            "quantify over arbitrary factor expressions under Src/Denote.v and the lowered block graph (Comp/Lower.v), which are tied to pyteal by "
            "the C01 correspondence and here by running compiled compound-factor programs on the AVM",
            "C16_wide_ratio_never_wraps assumes each factor is uint64-valued (leaves exactly one uint64 on the stack it started from when it "
            "terminates normally): WideRatio.__init__ performs no require_type on its factors, so this is a hypothesis, not checked by PyTeal",
            "Extraction: ExtrOcamlBasic + ExtrOcamlNativeString, driver.ml (read-line loop)",
        ])


if __name__ == "__main__":
    sys.exit(run_main(main))
