"""C19 — ABI assignability implies identical encoding.

Parts (DESIGN §2.4):
  1. proofs         Props/C19.v (+ Proofs/ABI*Proof.v, Proofs/AssignableProof.v)
  2. spec validation  coq/ABI/Spec.v (type_str / is_dynamic / static_len / arc4_encode / arc4_decode) and
                    ABI/Layout.v canon against the reference codec algosdk.abi — a disagreement is a MODEL problem (exit 2)
  3. correspondence Python type_spec_is_assignable_to / == / str() / issubclass  vs  the extracted model
                    (ABI/Assignable.v, ABI/Descr.v): corpus, EXHAUSTIVE over all ordered pairs of a bounded
                    universe, seeded random deeper pairs (related by mutation so that both answers are common)
  4. semantic oracle whenever either side answers True: layouts parsed from str(a), str(b) by an independent
                    parser must be equal and algosdk must encode sample values identically under both strings
  5. gates          SubroutineDefinition.invoke and InnerTxnBuilder.MethodCall accept an ABI argument iff assignable;
                    direct assignment dst.set(<ABI value>) for every ordered pair of the universe, member assignment
                    (Tuple.set / Array.set), dst.set(<ComputedValue>) and <ComputedValue>.store_into(dst) (ReturnedValue of an
                    ABIReturnSubroutine call, TupleElement, ArrayElement; accepted = builds AND compiles at v6/v8) accept iff
                    the modelled per-class test does,
                    and every ACCEPTED call is judged by the oracle (same layout, same encodings)
  6. known findings replayed;  7. verdict
"""
import itertools
import json
import os
import sys
import time

from common import *  # noqa
import c19_abi as AB

ensure_env()

CORPUS = os.path.join(VERIF, "harness", "corpus", "c19.json")


# ---------------------------------------------------------------------------------------------
# universe for the exhaustive part
# ---------------------------------------------------------------------------------------------
def build_universe(thorough, rng):
    E = list(AB.LEAVES_CORE)                       # encodable leaves (11)
    L = E + AB.LEAVES_SPECIAL                      # + 7 transaction + 3 reference specs
    Es = ["bool", "byte", ("uint", 8), ("uint", 16), "address", "string", "dynbytes", ("sbytes", 32)]
    Es4 = ["bool", "byte", ("uint", 8), "address", ("sbytes", 32)]
    lens = [2, 32] if not thorough else [0, 1, 2, 31, 32, 33]
    if thorough:
        E = E + [("sbytes", 31), ("sbytes", 0)]
        L = E + AB.LEAVES_SPECIAL
        Es = E
        Es4 = Es
    U = list(L)
    d1 = []
    for e in E:
        for n in lens:
            d1.append(("sarr", e, n))
        d1.append(("darr", e))
    d1.append(("tuple",))
    d1 += [("tuple", e) for e in L]
    d1 += [("tuple", e1, e2) for e1 in Es for e2 in Es]
    for c in (1, 2):
        d1 += [("named", c, ("f0",), e) for e in Es]
        d1 += [("named", c, ("f0", "f1"), e1, e2) for e1 in Es4 for e2 in Es4]
    d1 += [("sarr", ("txn", "pay"), 2), ("darr", ("ref", "asset")), ("named", 1, ())]
    d1 += [AB.realistic_named(("x",), ("byte",)), AB.realistic_named(("x",), (("uint", 8),)),
           AB.realistic_named(("y",), ("byte",)), AB.realistic_named(("a", "b"), ("address", "bool"))]
    U += d1
    # depth 2: constructors over a set of depth-1 types rich in layout-equal variants
    S1 = [("sarr", "byte", 32), ("sarr", ("uint", 8), 32), ("darr", "byte"), ("darr", ("uint", 8)), ("tuple",),
          ("tuple", "byte"), ("tuple", ("uint", 8)), ("named", 1, ("f0",), "byte"), ("tuple", "address"),
          ("tuple", ("sbytes", 32)), ("tuple", "string"), ("tuple", "dynbytes"), ("tuple", "bool", "bool"),
          ("darr", "bool"), ("sarr", "bool", 2)]
    S2 = S1[:6]
    if thorough:
        S1 = S1 + [x for x in d1 if x not in S1][::7]
        S2 = S1[:16]
    d2 = []
    for s in S1:
        d2 += [("darr", s), ("sarr", s, 2), ("tuple", s), ("named", 1, ("f0",), s), ("tuple", s, "bool")]
    d2 += [("tuple", s1, s2) for s1 in S2 for s2 in S2]
    d2 += [("named", 2, ("f0", "f1"), s1, s2) for s1 in S2[:4] for s2 in S2[:4]]
    # holders of (non-ARC-4) transaction / reference specs: exercises the member refusals of Tuple.set
    d2 += [("darr", ("txn", "pay")), ("tuple", ("tuple", ("txn", "appl"))), ("tuple", ("sarr", ("txn", "pay"), 2)),
           ("tuple", ("darr", ("txn", "pay"))), ("tuple", ("tuple", ("ref", "asset")))]
    U += d2
    seen, out = set(), []
    for t in U:
        if t not in seen:
            seen.add(t)
            out.append(t)
    return out


def matrix(model, cmd, rows, cols, chunk=40000):
    """ask the model for the |rows| x |cols| relation, in blocks"""
    cols_sx = tuple(AB.ty_sx(t) for t in cols)
    per = max(1, chunk // max(1, len(cols)))
    out = []
    for i in range(0, len(rows), per):
        blk = rows[i : i + per]
        r = model.ask((S(cmd), tuple(AB.ty_sx(t) for t in blk), cols_sx))
        assert r[0] == S("m") and len(r[1]) == len(blk) * len(cols), r if len(str(r)) < 300 else str(r)[:300]
        for k in range(len(blk)):
            out.append(r[1][k * len(cols) : (k + 1) * len(cols)])
    return out


# ---------------------------------------------------------------------------------------------
# semantic oracle (independent of the Coq model)
# ---------------------------------------------------------------------------------------------
def norm_decoded(a, v):
    """algosdk-decoded value -> spelling-independent form"""
    import algosdk.abi as A
    from algosdk import encoding
    if isinstance(a, A.AddressType):
        return list(encoding.decode_address(v)) if isinstance(v, str) else list(v)
    if isinstance(a, A.StringType):
        return list(v.encode("utf-8"))
    if isinstance(a, (A.ArrayStaticType, A.ArrayDynamicType)):
        return [norm_decoded(a.child_type, x) for x in v]
    if isinstance(a, A.TupleType):
        return [norm_decoded(c, x) for c, x in zip(a.child_types, v)]
    return v


def oracle_pair(ck, sa, sb, rng, nsamples):
    """The property for one admitted pair, stated on the two type strings only.
    Returns None if it holds, else a dict describing the failure."""
    import algosdk.abi as A
    try:
        La, Lb = AB.parse_type_str(sa), AB.parse_type_str(sb)
    except ValueError as e:
        return {"why": "type string not parseable: %s" % e}
    special = ("txn" in (La, Lb)) or any(isinstance(x, tuple) and x[0] == "ref" for x in (La, Lb))
    if special:
        # transaction / reference specs are not values; what PyTeal promises (docstring) is
        # "b is the same spec, or b is the generic `txn` and a is any transaction type"
        if La == "txn" and Lb == "txn":
            return None if (sb == "txn" or sa == sb) else {"why": "transaction type %s admitted where %s is expected" % (sa, sb)}
        return None if sa == sb else {"why": "reference/transaction spec %s admitted where %s is expected" % (sa, sb)}
    if La != Lb:
        return {"why": "different ARC-4 layouts", "layout_a": repr(La), "layout_b": repr(Lb)}
    try:
        ta, tb = A.ABIType.from_string(sa), A.ABIType.from_string(sb)
    except Exception:  # nested txn/ref: not an ARC-4 type at all; layouts already compared
        return None
    if AB.layout_of_sdk(ta) != La or AB.layout_of_sdk(tb) != Lb:
        ck.model_problem("harness type-string parser disagrees with algosdk on %r / %r" % (sa, sb))
        return None
    if ta.is_dynamic() != tb.is_dynamic() or (not ta.is_dynamic() and ta.byte_len() != tb.byte_len()):
        return {"why": "is_dynamic/byte_len differ"}
    for k in range(nsamples):
        v = AB.gen_value(La, rng, text=True)
        ea, eb = AB.sdk_encode(ta, v), AB.sdk_encode(tb, v)
        if ea[0] != "ok" or eb[0] != "ok":
            if ea[0] != eb[0]:
                return {"why": "a value encodes under one type only", "value": repr(v), "enc_a": repr(ea), "enc_b": repr(eb)}
            continue
        if ea[1] != eb[1]:
            return {"why": "encodings differ", "value": repr(v), "enc_a": ea[1].hex(), "enc_b": eb[1].hex()}
        try:
            da, db = norm_decoded(ta, ta.decode(ea[1])), norm_decoded(tb, tb.decode(ea[1]))
        except Exception:  # noqa  (algosdk cannot decode some valid encodings, e.g. ()[] with n > 0)
            ck.coverage["oracle_decode_skipped"] = ck.coverage.get("oracle_decode_skipped", 0) + 1
            continue
        if da != db:
            return {"why": "the same bytes decode to different values", "value": repr(v), "dec_a": repr(da), "dec_b": repr(db)}
    return None


# ---------------------------------------------------------------------------------------------
# spec validation against algosdk
# ---------------------------------------------------------------------------------------------
def validate_spec(ck, model, thorough):
    import algosdk.abi as A
    rng = ck.rng
    shapes = []
    E = ["bool", "byte", ("uint", 8), ("uint", 16), ("uint", 32), ("uint", 64), ("uint", 24), ("uint", 512), "address",
         "string", "dynbytes", ("sbytes", 0), ("sbytes", 3), ("sbytes", 32)]
    shapes += E
    for e in E:
        shapes += [("sarr", e, n) for n in (0, 1, 2, 8, 9)] + [("darr", e)]
    small = ["bool", "byte", ("uint", 16), "string", ("darr", "bool"), ("sarr", "bool", 3), ("tuple", "bool", "string")]
    for w in range(0, 4):
        for ts in itertools.product(small, repeat=w):
            shapes.append(("tuple",) + ts)
    # bool runs around the 8 boundary, between static and dynamic members
    for n in (7, 8, 9, 15, 16, 17):
        shapes.append(("tuple",) + ("bool",) * n)
        shapes.append(("tuple", ("uint", 8)) + ("bool",) * n + ("string",) + ("bool",) * 2)
        shapes.append(("sarr", "bool", n))
        shapes.append(("named", 1, tuple("f%d" % i for i in range(n))) + ("bool",) * n)
    nrand = 1500 if thorough else 400
    for _ in range(nrand):
        shapes.append(AB.rand_type(rng, rng.choice([1, 2, 2, 3, 3, 4]), special=0.0))
    bad = 0
    nvals = 0
    ndec = 0
    for t in shapes:
        ck.count(("spec", t), nontrivial=AB.size(t) > 1)
        s = AB.arc4_str(t)
        try:
            a = A.ABIType.from_string(s)
        except Exception as e:  # noqa
            ck.model_problem("harness arc4_str produced %r which algosdk rejects (%s)" % (s, e))
            continue
        d = model.ask((S("descr"), AB.ty_sx(t)))
        want = (str(a), a.is_dynamic(), None if a.is_dynamic() else a.byte_len())
        got = (d[1], d[3] == S("true"), None if d[4] == S("none") else d[4])
        L = AB.layout_from_wire(d[5])
        if got != want or d[1] != s:
            ck.model_problem("ABI/Spec.v descriptor of %s: model %r, algosdk %r" % (s, got, want))
            bad += 1
            continue
        if L != AB.layout_of_sdk(a) or L != AB.parse_type_str(s):
            ck.model_problem("ABI/Layout.v canon of %s: model %r, algosdk-derived %r" % (s, L, AB.layout_of_sdk(a)))
            bad += 1
            continue
        for k in range(3 if AB.size(t) < 12 else 1):
            v = AB.gen_value(L, rng, text=True, maxlen=5)
            ref = AB.sdk_encode(a, v)
            got = model.ask((S("encode"), AB.ty_sx(t), AB.val_sx(v)))
            typed = model.ask((S("typed"), AB.ty_sx(t), AB.val_sx(v))) == S("true")
            nvals += 1
            gotb = got[1] if got[0] == S("some") else None
            refb = ref[1] if ref[0] == "ok" else None
            if gotb != refb or (refb is not None and not typed):
                ck.model_problem("ABI/Spec.v arc4_encode %s %r: model %s (typed=%s), algosdk %s" % (
                    s, v, gotb.hex() if gotb is not None else None, typed, refb.hex() if refb is not None else ref))
                bad += 1
                break
            # decoding: the model decodes the reference encoding back to the value; a damaged encoding is
            # accepted only if the reference codec agrees that it is the encoding of the decoded value
            if refb is not None and len(refb) < 3000:
                dm = model.ask((S("decode"), AB.ty_sx(t), refb))
                ndec += 1
                if dm[0] != S("some") or AB.norm_value(AB.val_from_wire(dm[1])) != AB.norm_value(v):
                    ck.model_problem("ABI/Spec.v arc4_decode %s %s: model %r, expected %r" % (s, refb.hex(), dm, v))
                    bad += 1
                    break
                if refb and k == 0:
                    dmg = bytearray(refb)
                    how = rng.randrange(4)
                    if how == 0:
                        dmg[rng.randrange(len(dmg))] ^= 1 << rng.randrange(8)
                    elif how == 1:
                        dmg = dmg[:-1]
                    elif how == 2:
                        dmg += bytes([rng.randrange(256)])
                    else:
                        dmg[rng.randrange(len(dmg))] = rng.randrange(256)
                    dmg = bytes(dmg)
                    dm = model.ask((S("decode"), AB.ty_sx(t), dmg))
                    ndec += 1
                    try:
                        sv = a.decode(dmg)
                        sdk_ok = a.encode(sv) == dmg
                    except Exception:  # noqa
                        sv, sdk_ok = None, False
                    if dm[0] == S("some"):
                        re = AB.sdk_encode(a, AB.val_from_wire(dm[1]))
                        if re != ("ok", dmg) and re != ("err", "UnicodeDecodeError"):  # (a damaged `string` need not be UTF-8: not expressible to algosdk)
                            ck.model_problem("ABI/Spec.v arc4_decode accepts %s at %s as %r but algosdk encodes that value as %r" % (dmg.hex(), s, dm[1], re))
                            bad += 1
                    elif sdk_ok:
                        ck.model_problem("ABI/Spec.v arc4_decode rejects %s at %s although algosdk decodes it to %r and re-encodes it identically" % (dmg.hex(), s, sv))
                        bad += 1
            # the list spelling of byte strings means the same
            nv = AB.norm_value(v)
            if nv != v:
                g2 = model.ask((S("encode"), AB.ty_sx(t), AB.val_sx(nv)))
                if g2 != got:
                    ck.model_problem("VBytes / VList spellings encode differently at %s %r" % (s, v))
                    bad += 1
            if len(ck.samples) < 2 and AB.size(t) > 3 and refb:
                ck.sample({"kind": "spec-vs-algosdk", "type": s, "value": repr(v), "encoding": refb.hex()})
    # rejected values: out of range, wrong arity, offsets beyond uint16
    rejects = [
        (("uint", 8), 256), (("uint", 16), 65536), (("uint", 64), 1 << 64), ("byte", 256), ("bool", 1),
        (("sarr", "byte", 3), [1, 2]), (("sarr", "byte", 3), b"abcd"), ("address", b"a" * 31), ("address", b"a" * 33),
        (("tuple", "bool", "byte"), [True]), (("tuple", "string", "string"), [b"a" * 65530, b"b"]),
        ("string", b"a" * 65536), (("darr", "bool"), [True] * 65536), (("tuple", ("uint", 8)), [300]),
        (("darr", ("uint", 16)), [1, 70000]),
    ]
    accepts = [(("tuple", "string", "string"), [b"a" * 65529, b"b"]), ("string", b"a" * 65535), (("tuple",), []),
               (("sarr", ("tuple",), 5), [[], [], [], [], []]), (("darr", ("tuple",)), [[], []]), (("sbytes", 0), b"")]
    for t, v in rejects + accepts:
        a = AB.to_sdk(t)
        ref = AB.sdk_encode(a, v)
        got = model.ask((S("encode"), AB.ty_sx(t), AB.val_sx(v)))
        gotb = got[1] if got[0] == S("some") else None
        refb = ref[1] if ref[0] == "ok" else None
        ck.count(("spec-edge", t, repr(v)[:40]))
        nvals += 1
        if gotb != refb:
            ck.model_problem("ABI/Spec.v arc4_encode edge case %s: model %s, algosdk %s" % (
                AB.arc4_str(t), "some" if gotb is not None else None, "ok" if refb is not None else ref))
            bad += 1
    ck.coverage["spec_validation"] = {"shapes": len(shapes), "values": nvals, "decodes": ndec, "disagreements": bad}


# ---------------------------------------------------------------------------------------------
# the real relation
# ---------------------------------------------------------------------------------------------
def real_assignable(A, B):
    from pyteal.ast.abi.util import type_spec_is_assignable_to
    return call_real(type_spec_is_assignable_to, A, B)


def replay(path):
    """./check C19 --replay <file>: re-run one recorded pair on the real implementation and the oracle"""
    ent = json.load(open(path))

    def from_json(x):
        return tuple(from_json(y) for y in x) if isinstance(x, list) else x

    if ent.get("kind") == "from-algosdk":
        import algosdk.abi as SDK
        from pyteal.ast.abi.util import type_spec_from_algosdk
        ck = Check("C19", "quick")
        r = call_real(type_spec_from_algosdk, SDK.ABIType.from_string(ent["str_b"]))
        f = oracle_pair(ck, str(r[1]), ent["str_b"], ck.rng, 3) if r[0] == "ok" else None
        print("type_spec_from_algosdk(%s) = %s; oracle: %s" % (ent["str_b"], str(r[1]) if r[0] == "ok" else r[1:], "same encoding / refused" if f is None else f))
        if f is not None:
            print("VIOLATION property=C19 replay=%s" % path)
            return 1
        return 0
    if "a_json" not in ent:
        print("replay file has no single failing pair (kind=%s): %s" % (ent.get("kind"), ent.get("what", "")[:300]))
        return 2
    ta, tb = from_json(ent["a_json"]), from_json(ent["b_json"])
    A = AB.to_pyteal(ta)
    B = call_real(AB.to_pyteal, tb)
    B = B[1] if B[0] == "ok" else None      # (a signature parameter such as uint24 has no PyTeal spec)
    ck = Check("C19", "quick")
    kind = ent.get("kind", "")
    if kind.startswith("gate-set") or kind.startswith("gate-store-into") or kind == "gate-methodcall-signature":
        import pyteal as pt
        from pyteal import abi

        class _CV(abi.ComputedValue):
            def produced_type_spec(self):
                return A

            def store_into(self, output):
                return pt.Seq()

        calls = {"gate-set": lambda: B.new_instance().set(A.new_instance()),
                 "gate-set-computed": lambda: B.new_instance().set(_CV()),
                 "gate-set-member-tuple": lambda: abi.TupleTypeSpec(B, abi.BoolTypeSpec()).new_instance().set(A.new_instance(), abi.Bool()),
                 "gate-set-member-darr": lambda: abi.DynamicArrayTypeSpec(B).new_instance().set([A.new_instance()]),
                 "gate-set-member-sarr": lambda: abi.StaticArrayTypeSpec(B, 1).new_instance().set([A.new_instance()])}

        def _returned():
            def fn(*, output):
                return output.decode(pt.Txn.application_args[0])
            fn.__annotations__ = {"output": A.annotation_type(), "return": pt.Expr}
            fn.__name__ = "produce"
            e = pt.ABIReturnSubroutine(fn)().store_into(B.new_instance())
            return [pt.compileTeal(pt.Seq(e, pt.Approve()), pt.Mode.Application, version=v) for v in (6, 8)]

        def _element(H):
            h = H.new_instance()
            e = h[0].store_into(B.new_instance())
            return [pt.compileTeal(pt.Seq(h.decode(pt.Txn.application_args[0]), e, pt.Approve()), pt.Mode.Application, version=v) for v in (6, 8)]

        calls["gate-methodcall-signature"] = lambda: pt.InnerTxnBuilder.MethodCall(
            app_id=pt.Int(1), method_signature="f(%s)void" % ent["str_b"], args=[A.new_instance()])
        calls.update({"gate-store-into-returned": _returned,
                      "gate-store-into-tuple-element": lambda: _element(abi.TupleTypeSpec(A, abi.BoolTypeSpec())),
                      "gate-store-into-darr-element": lambda: _element(abi.DynamicArrayTypeSpec(A)),
                      "gate-store-into-sarr-element": lambda: _element(abi.StaticArrayTypeSpec(A, 1))})
        r = call_real(calls[kind])
        f = oracle_pair(ck, ent["str_a"], ent["str_b"], ck.rng, 5)
        print("%s: source %s into target %s: %s; oracle: %s" % (kind, ent["str_a"], ent["str_b"], "accepted" if r[0] == "ok" else r[1:],
                                                              "same encoding" if f is None else f))
        if r[0] == "ok" and f is not None:
            print("VIOLATION property=C19 replay=%s" % path)
            return 1
        return 0
    r = real_assignable(A, B)
    f = oracle_pair(ck, str(A), str(B), ck.rng, 5)
    print("type_spec_is_assignable_to(%s, %s) = %r; oracle: %s" % (str(A), str(B), r, "same encoding" if f is None else f))
    if r[0] == "ok" and r[1] and f is not None:
        print("VIOLATION property=C19 replay=%s" % path)
        return 1
    return 0


def main(argv):
    args = parse_args(argv)
    if args.replay:
        return replay(args.replay)
    ck = Check("C19", args.tier)
    thorough = args.tier == "thorough"
    import pyteal as pt
    from pyteal import abi
    t_start = time.time()

    # ---------------- 1. proofs ----------------
    ck.run_proofs("Props/C19.v",
                  ["Proofs/ABITypesProof.v", "Proofs/ABISpecProof.v", "Proofs/ABILayoutProof.v", "Proofs/ABIDescrProof.v",
                   "Proofs/AssignableProof.v"],
                  extra_targets=["Extract/Main_c19.vo"])
    model = Model("c19")

    # ---------------- 2. spec validation ----------------
    validate_spec(ck, model, thorough)
    t_spec = time.time()

    # ---------------- 3a. class table ----------------
    mism = []          # correspondence mismatches (model vs real)
    keys = list(AB.PY_CLASS_NAMES.keys())
    for c in keys:
        for d in keys:
            real = issubclass(getattr(abi, AB.PY_CLASS_NAMES[c]), getattr(abi, AB.PY_CLASS_NAMES[d]))
            mod = model.ask((S("subclass"), AB.class_sx(c), AB.class_sx(d))) == S("true")
            ck.count(("subclass", c, d), nontrivial=False)
            if real != mod:
                mism.append({"kind": "subclass", "c": repr(c), "d": repr(d), "real": real, "model": mod})
    # every concrete class is covered by the table
    concrete = sorted(n for n in dir(abi) if n.endswith("TypeSpec"))
    unknown = [n for n in concrete if n not in AB.PY_CLASS_NAMES.values()]
    if unknown:
        mism.append({"kind": "new-typespec-class", "classes": unknown})

    # ---------------- 3b/4. pairs ----------------
    sem_fail = []      # property failures on the real implementation
    admitted = {"real_true": 0, "model_true": 0, "same_layout_rejected": 0}
    hist = {}
    oracle_cache = {}

    def check_pair(ta, tb, A, B, m_ans, m_eq, origin):
        """compare one ordered pair; A, B are the real specs; m_ans/m_eq the model's answers"""
        r = real_assignable(A, B)
        ck.count(("pair", ta, tb))
        if r[0] != "ok":
            mism.append({"kind": "assignable-raises", "a": AB.ty_text(ta), "b": AB.ty_text(tb), "exception": r[1:], "origin": origin})
            if r[1] not in PYTEAL_ERRORS:
                sem_fail.append({"kind": "crash", "a": AB.ty_text(ta), "b": AB.ty_text(tb), "str_a": str(A), "str_b": str(B),
                                 "why": "type_spec_is_assignable_to raises %s" % r[1]})
            return None
        real = bool(r[1])
        if real != m_ans:
            mism.append({"kind": "assignable", "a": AB.ty_text(ta), "b": AB.ty_text(tb), "real": real, "model": m_ans, "origin": origin})
        if m_eq is not None:
            e = call_real(lambda: A == B)
            if e[0] != "ok" or bool(e[1]) != m_eq:
                mism.append({"kind": "py_eq", "a": AB.ty_text(ta), "b": AB.ty_text(tb), "real": e[1], "model": m_eq, "origin": origin})
        if real:
            admitted["real_true"] += 1
        if m_ans:
            admitted["model_true"] += 1
        if real or m_ans:
            sa, sb = str(A), str(B)
            key = (sa, sb)
            if key not in oracle_cache:
                oracle_cache[key] = oracle_pair(ck, sa, sb, ck.rng, 4 if thorough else 2)
            f = oracle_cache[key]
            hist["admitted:" + origin] = hist.get("admitted:" + origin, 0) + 1
            if f is not None and real:
                sem_fail.append(dict(f, kind="semantic", a=AB.ty_text(ta), b=AB.ty_text(tb), a_json=ta, b_json=tb, str_a=sa, str_b=sb, origin=origin))
            if len(ck.samples) < 5 and ta != tb and AB.size(ta) > 2:
                ck.sample({"kind": "admitted-pair", "a": sa, "b": sb, "a_term": AB.ty_text(ta), "b_term": AB.ty_text(tb), "oracle": "ok" if f is None else f})
        return real

    # corpus of earlier minimised failures first
    corpus = json.load(open(CORPUS)) if os.path.exists(CORPUS) else []

    def from_json(x):
        return tuple(from_json(y) for y in x) if isinstance(x, list) else x

    for ent in corpus:
        ta, tb = from_json(ent["a"]), from_json(ent["b"])
        m_ans = model.ask((S("assignable"), AB.ty_sx(ta), AB.ty_sx(tb))) == S("true")
        m_eq = model.ask((S("pyeq"), AB.ty_sx(ta), AB.ty_sx(tb))) == S("true")
        check_pair(ta, tb, AB.to_pyteal(ta), AB.to_pyteal(tb), m_ans, m_eq, "corpus")

    # descriptors of the universe: str(), class, is_dynamic
    U = build_universe(thorough, ck.rng)
    specs = [AB.to_pyteal(t) for t in U]
    for t, A in zip(U, specs):
        d = model.ask((S("descr"), AB.ty_sx(t)))
        ck.count(("descr", t), nontrivial=False)
        cls_name = AB.PY_CLASS_NAMES.get(d[7].name if isinstance(d[7], Sym) else (d[7][0].name, d[7][1] if isinstance(d[7][1], int) else d[7][1].name))
        if d[2] != str(A) or cls_name != type(A).__name__ or (d[3] == S("true")) != A.is_dynamic():
            mism.append({"kind": "descr", "t": AB.ty_text(t), "model": [d[2], cls_name, repr(d[3])], "real": [str(A), type(A).__name__, A.is_dynamic()]})
        if not AB.has_special(t) and not A.is_dynamic():
            if d[4] != A.byte_length_static():
                mism.append({"kind": "descr-len", "t": AB.ty_text(t), "model": repr(d[4]), "real": A.byte_length_static()})

    # exhaustive: every ordered pair of U
    t0 = time.time()
    M = matrix(model, "matrix", U, U)
    Q = matrix(model, "eqmatrix", U, U)
    t_model = time.time() - t0
    lay = [AB.parse_type_str(str(A)) if str(A) not in AB.TXN_STR.values() else ("txnkind", str(A)) for A in specs]
    for i, (ta, A) in enumerate(zip(U, specs)):
        row, qrow = M[i], Q[i]
        for j, (tb, B) in enumerate(zip(U, specs)):
            r = check_pair(ta, tb, A, B, row[j] == "1", qrow[j] == "1", "exhaustive")
            if r is False and lay[i] == lay[j]:
                # equal layouts but rejected: allowed (the relation is directional), information only
                admitted["same_layout_rejected"] += 1
    ck.coverage["universe"] = {"every_ordered_pair_checked": True, "types": len(U), "ordered_pairs": len(U) ** 2, "max_depth": max(AB.depth(t) for t in U),
                               "model_matrix_s": round(t_model, 1), "pairs_s": round(time.time() - t0, 1)}
    t_exh = time.time()

    # random deeper pairs, related by mutation
    nrand = 60000 if thorough else 15000
    batch = 300
    done = 0
    while done < nrand:
        pairs = []
        for _ in range(batch):
            d = ck.rng.choice([2, 3, 3, 4, 5])
            ta = AB.rand_type(ck.rng, d)
            k = ck.rng.random()
            if k < 0.75:
                tb = AB.mutate(ck.rng, ta, p=ck.rng.choice([0.15, 0.35, 0.6]))
            elif k < 0.85:
                tb = ta
            else:
                tb = AB.rand_type(ck.rng, d)
            if ck.rng.random() < 0.5:
                ta, tb = tb, ta
            pairs.append((ta, tb))
        ans = model.ask((S("pairs"),) + tuple((AB.ty_sx(ta), AB.ty_sx(tb)) for (ta, tb) in pairs))
        assert ans[0] == S("m") and len(ans[1]) == 2 * len(pairs), str(ans)[:300]
        for k, (ta, tb) in enumerate(pairs):
            m_ans, m_eq = ans[1][2 * k] == "1", ans[1][2 * k + 1] == "1"
            A, B = AB.to_pyteal(ta), AB.to_pyteal(tb)
            check_pair(ta, tb, A, B, m_ans, m_eq, "random")
            hist["depth%d" % max(AB.depth(ta), AB.depth(tb))] = hist.get("depth%d" % max(AB.depth(ta), AB.depth(tb)), 0) + 1
            # descriptor tie on the random types too
            if done % 7 == 0:
                d = model.ask((S("descr"), AB.ty_sx(ta)))
                if d[2] != str(A) or (d[3] == S("true")) != A.is_dynamic():
                    mism.append({"kind": "descr", "t": AB.ty_text(ta), "model": [d[2], repr(d[3])], "real": [str(A), A.is_dynamic()]})
            done += 1
    t_rand = time.time()

    # ---------------- 5. the gates ----------------
    gate_fail = []
    gates = {"subroutine": 0, "subroutine_rejects": 0, "methodcall": 0, "methodcall_rejects": 0, "methodcall_txn": 0}

    def roundtrips(t, A):
        try:
            return abi.type_spec_from_annotation(A.annotation_type()) == A and A.new_instance().type_spec() == A and \
                str(abi.type_spec_from_annotation(A.annotation_type())) == str(A) and \
                type(abi.type_spec_from_annotation(A.annotation_type())) is type(A) and type(A.new_instance().type_spec()) is type(A)
        except Exception:  # noqa
            return False

    gate_types = [t for t in U if AB.size(t) <= 4 and roundtrips(t, AB.to_pyteal(t))]
    ck.rng.shuffle(gate_types)
    gate_types = gate_types[: (60 if thorough else 26)]
    gate_specs = [AB.to_pyteal(t) for t in gate_types]
    GM = matrix(model, "matrix", gate_types, gate_types)
    for j, (tb, B) in enumerate(zip(gate_types, gate_specs)):
        def fn(x):
            return pt.Seq()
        fn.__annotations__ = {"x": B.annotation_type(), "return": pt.Expr}
        fn.__name__ = "callee%d" % j
        sub = call_real(lambda: pt.Subroutine(pt.TealType.none)(fn))
        if sub[0] != "ok":
            continue
        for i, (ta, A) in enumerate(zip(gate_types, gate_specs)):
            want = GM[i][j] == "1"
            r = call_real(lambda: sub[1](A.new_instance()))
            ck.count(("gate-sub", ta, tb))
            gates["subroutine"] += 1
            accepted = r[0] == "ok"
            if not accepted:
                gates["subroutine_rejects"] += 1
            if accepted != want or (not accepted and r[1] != "TealInputError"):
                gate_fail.append({"kind": "gate-subroutine", "a": AB.ty_text(ta), "b": AB.ty_text(tb), "str_a": str(A), "str_b": str(B),
                                  "model_assignable": want, "call": "accepted" if accepted else r[1:]})
    # MethodCall: the parameter spec comes from the signature string (type_spec_from_algosdk)
    def plain(t):
        """the term of type_spec_from_algosdk(str(t)): only plain ARC-4 spec classes"""
        if t == "dynbytes":
            return ("darr", "byte")
        if isinstance(t, str):
            return t
        h = t[0]
        if h == "sbytes":
            return ("sarr", "byte", t[1])
        if h == "sarr":
            return ("sarr", plain(t[1]), t[2])
        if h == "darr":
            return ("darr", plain(t[1]))
        if h in ("tuple", "named"):
            return ("tuple",) + tuple(plain(x) for x in AB.children(t))
        return t

    mc_params = [t for t in gate_types if not AB.has_special(t)][: (30 if thorough else 14)]
    mc_args = [(t, A) for t, A in zip(gate_types, gate_specs) if not AB.has_special(t)]
    for tb in mc_params:
        pb = plain(tb)
        sig = "f(%s)void" % AB.arc4_str(tb)
        got_spec = call_real(lambda: abi.type_specs_from_signature(sig)[0][0])
        if got_spec[0] != "ok" or str(got_spec[1]) != AB.arc4_str(pb) or got_spec[1] != AB.to_pyteal(pb):
            mism.append({"kind": "type_spec_from_algosdk", "sig": sig, "got": repr(got_spec)[:200], "expected_term": AB.ty_text(pb)})
            continue
        for (ta, A) in mc_args:
            want = model.ask((S("assignable"), AB.ty_sx(ta), AB.ty_sx(pb))) == S("true")
            r = call_real(lambda: pt.InnerTxnBuilder.MethodCall(app_id=pt.Int(1), method_signature=sig, args=[A.new_instance()]))
            ck.count(("gate-mc", ta, tb))
            gates["methodcall"] += 1
            accepted = r[0] == "ok"
            if not accepted:
                gates["methodcall_rejects"] += 1
            if accepted != want or (not accepted and r[1] != "TealTypeError"):
                gate_fail.append({"kind": "gate-methodcall", "a": AB.ty_text(ta), "b": AB.ty_text(pb), "sig": sig, "str_a": str(A), "str_b": AB.arc4_str(pb),
                                  "model_assignable": want, "call": "accepted" if accepted else r[1:]})
    txn_enum = {"pay": pt.TxnType.Payment, "keyreg": pt.TxnType.KeyRegistration, "acfg": pt.TxnType.AssetConfig,
                "axfer": pt.TxnType.AssetTransfer, "afrz": pt.TxnType.AssetFreeze, "appl": pt.TxnType.ApplicationCall}
    for ka, en in txn_enum.items():
        for kb in AB.TXN_KINDS:
            sig = "f(%s)void" % AB.TXN_STR[kb]
            want = model.ask((S("assignable"), AB.ty_sx(("txn", ka)), AB.ty_sx(("txn", kb)))) == S("true")
            r = call_real(lambda: pt.InnerTxnBuilder.MethodCall(app_id=pt.Int(1), method_signature=sig, args=[{pt.TxnField.type_enum: en}]))
            ck.count(("gate-mc-txn", ka, kb))
            gates["methodcall_txn"] += 1
            accepted = r[0] == "ok"
            if accepted != want or accepted != (kb == "any" or ka == kb):
                gate_fail.append({"kind": "gate-methodcall-txn", "a": ka, "b": kb, "str_a": AB.TXN_STR[ka], "str_b": AB.TXN_STR[kb], "model_assignable": want, "call": "accepted" if accepted else r[1:]})
    # ---- direct assignment: dst.set(<ABI value>), member assignment, dst.set(<ComputedValue>) ----
    # (each abi class has its own acceptance test in `set`; none goes through type_spec_is_assignable_to)
    class _CV(abi.ComputedValue):
        def __init__(self, spec):
            self._spec = spec

        def produced_type_spec(self):
            return self._spec

        def store_into(self, output):
            return pt.Seq()

    def instance_of(A):
        """an instance whose type_spec() is exactly A (placeholder named-tuple classes do not round-trip)"""
        try:
            i = A.new_instance()
            B = i.type_spec()
            return i if (type(B) is type(A) and B == A and A == B and str(B) == str(A)) else None
        except Exception:  # noqa
            return None

    def try_call(fn):
        r = call_real(fn)
        return (True, "accepted") if r[0] == "ok" else (False, r[1])

    set_stats = {"set_calls": 0, "set_accepted": 0, "elem_calls": 0, "elem_accepted": 0, "computed_calls": 0, "computed_accepted": 0,
                 "non_pyteal_exceptions": {}}

    def record(kind, ta, tb, sa, sb, want, ok, how):
        """compare one gate call with the model; an ACCEPTED call is also judged by the oracle directly"""
        if not ok and how not in PYTEAL_ERRORS:
            set_stats["non_pyteal_exceptions"][how] = set_stats["non_pyteal_exceptions"].get(how, 0) + 1
        bad = None
        if ok:
            key = (sa, sb)
            if key not in oracle_cache:
                oracle_cache[key] = oracle_pair(ck, sa, sb, ck.rng, 2)
            bad = oracle_cache[key]
            # the oracle's transaction rule is directional; for a plain copy only identical kinds are the same thing
        if ok != want or bad is not None:
            gate_fail.append({"kind": kind, "a": AB.ty_text(ta), "b": AB.ty_text(tb), "a_json": ta, "b_json": tb, "str_a": sa, "str_b": sb,
                              "model_assignable": want, "call": "accepted" if ok else how})

    SU = [(t, A) for t, A in zip(U, specs)]
    SI = [(t, A, instance_of(A)) for t, A in SU]
    SI = [(t, A, i) for (t, A, i) in SI if i is not None]
    dsts = [(t, A, i) for (t, A, i) in SI if hasattr(i, "set")]
    s_types = [t for (t, _, _) in SI]
    d_types = [t for (t, _, _) in dsts]
    SM = matrix(model, "setmatrix", s_types, d_types)
    for j, (tb, B, ib) in enumerate(dsts):
        # Tuple.set( *values) with one value assigns the single MEMBER of a 1-tuple
        sb = str(B.value_type_specs()[0]) if isinstance(B, abi.TupleTypeSpec) and B.length_static() == 1 else str(B)
        for i, (ta, A, ia) in enumerate(SI):
            ok, how = try_call(lambda: ib.set(ia))
            ck.count(("gate-set", ta, tb))
            set_stats["set_calls"] += 1
            set_stats["set_accepted"] += ok
            record("gate-set", ta, tb, str(A), sb, SM[i][j] == "1", ok, how)
    # dst.set(<ComputedValue producing spec a>): no instance of a needed, so every spec of U is a source
    cd = [(t, A, instance_of(A)) for t, A in SU]
    cd = [(t, A, i) for (t, A, i) in cd if i is not None and hasattr(i, "set")]
    CM = matrix(model, "cvmatrix", U, [t for (t, _, _) in cd])
    for j, (tb, B, ib) in enumerate(cd):
        for i, (ta, A) in enumerate(SU):
            ok, how = try_call(lambda: ib.set(_CV(A)))
            ck.count(("gate-cv", ta, tb))
            set_stats["computed_calls"] += 1
            set_stats["computed_accepted"] += ok
            record("gate-set-computed", ta, tb, str(A), str(B), CM[i][j] == "1", ok, how)
    # member assignment: Tuple.set(v, flag), DynamicArray.set([v]), StaticArray.set([v]) with member type b
    EU = [(t, A, i) for (t, A, i) in SI if AB.size(t) <= 3 and not AB.has_special(t)]
    ck.rng.shuffle(EU)
    EU = EU[: (400 if thorough else 150)]
    e_types = [t for (t, _, _) in EU]
    EM = matrix(model, "elemmatrix", e_types, e_types)
    flag = abi.Bool()
    for j, (tb, B, _) in enumerate(EU):
        holders = [("tuple", abi.TupleTypeSpec(B, abi.BoolTypeSpec()).new_instance(), lambda h, v: h.set(v, flag)),
                   ("darr", abi.DynamicArrayTypeSpec(B).new_instance(), lambda h, v: h.set([v])),
                   ("sarr", abi.StaticArrayTypeSpec(B, 1).new_instance(), lambda h, v: h.set([v]))]
        for i, (ta, A, ia) in enumerate(EU):
            for hname, h, call in holders:
                ok, how = try_call(lambda: call(h, ia))
                ck.count(("gate-elem", hname, ta, tb))
                set_stats["elem_calls"] += 1
                set_stats["elem_accepted"] += ok
                record("gate-set-member-" + hname, ta, tb, str(A), str(B), EM[i][j] == "1", ok, how)
    gates.update(set_stats)
    # ---- ComputedValue.store_into(dst): ReturnedValue (ABIReturnSubroutine call), TupleElement, ArrayElement ----
    si_stats = {"store_into_calls": 0, "store_into_accepted": 0, "store_into_compiled": 0, "store_into_deferred_rejections": 0,
                "store_into_producers": 0, "store_into_uncompiled_suspects": 0}
    arg0 = pt.Txn.application_args[0]

    def annotation_roundtrips(A):
        try:
            B = abi.type_spec_from_annotation(A.annotation_type())
            return type(B) is type(A) and B == A and A == B and str(B) == str(A)
        except Exception:  # noqa
            return False

    def returned_value(A, k):
        def fn(*, output):
            return output.decode(arg0)
        fn.__annotations__ = {"output": A.annotation_type(), "return": pt.Expr}
        fn.__name__ = "produce%d" % k
        rv = pt.ABIReturnSubroutine(fn)()
        return rv if (type(rv.produced_type_spec()) is type(A) and rv.produced_type_spec() == A) else None

    def producers(A, k):
        """[(kind, computed value, preparation expr)] producing exactly spec A"""
        out = []
        if annotation_roundtrips(A):
            r = call_real(returned_value, A, k)
            if r[0] == "ok" and r[1] is not None:
                out.append(("returned", r[1], None))
        for kind, H in (("tuple-element", abi.TupleTypeSpec(A, abi.BoolTypeSpec())), ("darr-element", abi.DynamicArrayTypeSpec(A)),
                        ("sarr-element", abi.StaticArrayTypeSpec(A, 1))):
            r = call_real(lambda: H.new_instance())
            if r[0] == "ok":
                e = call_real(lambda: r[1][0])
                if e[0] == "ok" and isinstance(e[1], abi.ComputedValue) and e[1].produced_type_spec() == A:
                    out.append((kind, e[1], r[1].decode(arg0)))
        return out

    def builds(expr, prep):
        """the rejection must not merely be deferred: the program has to compile (v6 scratch slots, v8 frame pointers)"""
        okv = []
        for v in (6, 8):
            prog = pt.Seq(*( [prep] if prep is not None else [] ), expr, pt.Approve())
            c = call_real(pt.compileTeal, prog, pt.Mode.Application, version=v)
            okv.append(c[0] == "ok")
        return okv

    PI = [(t, A, i) for (t, A, i) in SI if not AB.has_special(t)]
    if thorough:
        ck.rng.shuffle(PI)
        PI = PI[:600]
    p_types = [t for (t, _, _) in PI]
    XM = matrix(model, "simatrix", p_types, p_types)
    suspects_compiled = 0
    for i, (ta, A, _) in enumerate(PI):
        for kind, cv, prep in producers(A, i):
            si_stats["store_into_producers"] += 1
            for j, (tb, B, ib) in enumerate(PI):
                want = XM[i][j] == "1"
                r = call_real(lambda: cv.store_into(ib))
                ck.count(("gate-store-into", kind, ta, tb))
                si_stats["store_into_calls"] += 1
                ok, how = r[0] == "ok", ("accepted" if r[0] == "ok" else r[1])
                if ok:
                    if want or suspects_compiled < 150:
                        suspects_compiled += 0 if want else 1
                        okv = builds(r[1], prep)
                        si_stats["store_into_compiled"] += 1
                        if not any(okv):
                            ok, how = False, "rejected-at-compile"
                            si_stats["store_into_deferred_rejections"] += 1
                        else:
                            how = "accepted (compiles at v%s)" % "/".join(str(v) for v, o in zip((6, 8), okv) if o)
                    else:
                        si_stats["store_into_uncompiled_suspects"] += 1
                        continue
                si_stats["store_into_accepted"] += ok
                record("gate-store-into-" + kind, ta, tb, str(A), str(B), want, ok, "accepted" if ok else how)
    gates.update(si_stats)
    # ---- method signatures: type_spec_from_algosdk and the MethodCall parameter gate on every uint width ----
    import algosdk.abi as SDK
    from pyteal.ast.abi.util import type_spec_from_algosdk

    class _Unsupported(Exception):
        pass

    def term_of_sdk(a):
        """algosdk type object -> plain term of the same ARC-4 type (ufixed has no term)"""
        if isinstance(a, SDK.BoolType):
            return "bool"
        if isinstance(a, SDK.ByteType):
            return "byte"
        if isinstance(a, SDK.UintType):
            return ("uint", a.bit_size)
        if isinstance(a, SDK.AddressType):
            return "address"
        if isinstance(a, SDK.StringType):
            return "string"
        if isinstance(a, SDK.ArrayStaticType):
            return ("sarr", term_of_sdk(a.child_type), a.static_length)
        if isinstance(a, SDK.ArrayDynamicType):
            return ("darr", term_of_sdk(a.child_type))
        if isinstance(a, SDK.TupleType):
            return ("tuple",) + tuple(term_of_sdk(c) for c in a.child_types)
        raise _Unsupported(str(a))

    def pyteal_has(t):
        return all(pyteal_has(x) for x in AB.children(t)) and not (not isinstance(t, str) and t[0] == "uint" and t[1] not in (8, 16, 32, 64))

    sig_stats = {"from_algosdk_strings": 0, "from_algosdk_supported": 0, "from_algosdk_refused": 0, "sig_gate_calls": 0, "sig_gate_accepted": 0}
    widths = list(range(8, 520, 8))
    leaves = ["uint%d" % n for n in widths] + ["byte", "bool", "address", "string", "ufixed64x2", "ufixed8x1", "ufixed128x10", "ufixed512x160"]
    pool = list(leaves)
    for L in ["uint24", "uint40", "uint56", "uint72", "uint128", "uint256", "uint512", "uint64", "uint8", "byte", "ufixed64x2", "bool", "string", "address"]:
        pool += ["%s[]" % L, "%s[3]" % L, "(%s)" % L, "(bool,%s)" % L, "(%s,string)[]" % L, "((%s))[2]" % L, "%s[2][]" % L]
    for _ in range(600 if thorough else 150):
        t = plain(AB.rand_type(ck.rng, ck.rng.choice([1, 2, 3]), special=0.0, named=0.0))

        def widen(x):
            if not isinstance(x, str) and x[0] == "uint" and ck.rng.random() < 0.4:
                return ("uint", ck.rng.choice(widths))
            if isinstance(x, str):
                return x
            if x[0] == "sarr":
                return ("sarr", widen(x[1]), x[2])
            if x[0] == "darr":
                return ("darr", widen(x[1]))
            if x[0] == "tuple":
                return ("tuple",) + tuple(widen(y) for y in x[1:])
            return x
        pool.append(AB.arc4_str(widen(t)))
    pool = list(dict.fromkeys(pool))
    for sstr in pool:
        a = SDK.ABIType.from_string(sstr)
        canon_s = str(a)
        ck.count(("from-algosdk", canon_s))
        sig_stats["from_algosdk_strings"] += 1
        try:
            term = term_of_sdk(a)
            supported = model.ask((S("fromsdk"), AB.ty_sx(term))) == S("true")
            if supported != pyteal_has(term):
                ck.model_problem("sdk_supported disagrees with the harness on %s" % canon_s)
        except _Unsupported:
            term, supported = None, False
        r = call_real(type_spec_from_algosdk, a)
        if supported:
            sig_stats["from_algosdk_supported"] += 1
            E = AB.to_pyteal(term)
            good = (r[0] == "ok" and str(r[1]) == canon_s and type(r[1]) is type(E) and r[1] == E and E == r[1]
                    and r[1].is_dynamic() == a.is_dynamic() and (a.is_dynamic() or r[1].byte_length_static() == a.byte_len()))
        else:
            sig_stats["from_algosdk_refused"] += 1
            good = r[0] == "exc" and r[1] == "TealInputError"
        if not good:
            got = str(r[1]) if r[0] == "ok" else None
            f = oracle_pair(ck, got, canon_s, ck.rng, 2) if got is not None else None
            if f is not None:
                sem_fail.append(dict(f, kind="from-algosdk", str_a=got, str_b=canon_s, a="type_spec_from_algosdk(%s)" % canon_s, b=canon_s,
                                     why="the signature type %s is read as %s: %s" % (canon_s, got, f.get("why"))))
            else:
                mism.append({"kind": "type_spec_from_algosdk", "type_string": canon_s, "real": repr(r)[:200], "model_supported": supported})
    for sstr in AB.REF_KINDS + list(AB.TXN_STR.values()):
        r = call_real(type_spec_from_algosdk, sstr)
        ck.count(("from-algosdk", sstr), nontrivial=False)
        if r[0] != "ok" or str(r[1]) != sstr:
            mism.append({"kind": "type_spec_from_algosdk", "type_string": sstr, "real": repr(r)[:200]})
    # the MethodCall gate with parameters of every width (and nested), arguments of the PyTeal uint classes
    params = [("uint", n) for n in (8, 16, 24, 32, 40, 48, 56, 64, 72, 128, 256, 512)] + ["byte"]
    params += [("tuple", ("uint", n), "bool") for n in (24, 64, 128)] + [("sarr", ("uint", n), 2) for n in (40, 64)] + \
              [("darr", ("uint", n)) for n in (8, 72, 64)] + [("tuple", ("tuple", ("uint", 56)))]
    argts = [("uint", 8), ("uint", 16), ("uint", 32), ("uint", 64), "byte", ("tuple", ("uint", 64), "bool"), ("tuple", ("uint", 8), "bool"),
             ("sarr", ("uint", 64), 2), ("darr", ("uint", 64)), ("darr", ("uint", 8)), ("darr", "byte"), ("tuple", ("tuple", ("uint", 64)))]
    MCM = matrix(model, "mcmatrix", argts, params)
    for j, tp in enumerate(params):
        pstr = AB.arc4_str(tp)
        sig = "f(%s)void" % pstr
        for i, ta in enumerate(argts):
            A = AB.to_pyteal(ta)
            r = call_real(lambda: pt.InnerTxnBuilder.MethodCall(app_id=pt.Int(1), method_signature=sig, args=[A.new_instance()]))
            ck.count(("gate-mc-sig", ta, tp))
            sig_stats["sig_gate_calls"] += 1
            ok = r[0] == "ok"
            sig_stats["sig_gate_accepted"] += ok
            record("gate-methodcall-signature", ta, tp, str(A), pstr, MCM[i][j] == "1", ok, "accepted" if ok else r[1])
    gates.update(sig_stats)
    ck.coverage["gates"] = gates

    # ---------------- 6. known findings ----------------
    for f in ck.findings:
        w = f.get("witness", {})
        try:
            ta, tb = from_json(w["a"]), from_json(w["b"])
            A, B = AB.to_pyteal(ta), AB.to_pyteal(tb)
            r = real_assignable(A, B)
            if r[0] == "ok" and r[1] and oracle_pair(ck, str(A), str(B), ck.rng, 3) is not None:
                ck.known(f["id"], f["what"])
        except Exception as e:  # noqa
            ck.notes.append("known finding %s could not be replayed: %s" % (f.get("id"), e))

    # ---------------- 7. verdict ----------------
    def is_known(fail):
        return ck.match_known(lambda f: f.get("class") == "pair" and f["witness"].get("str_a") == fail.get("str_a") and f["witness"].get("str_b") == fail.get("str_b"))

    reported = 0
    for f in sem_fail:
        k = is_known(f)
        if k:
            ck.known(k["id"], k["what"])
            continue
        if reported < 5:
            if f.get("kind") == "from-algosdk":
                ck.violation("type_spec_from_algosdk: %s (an argument of that spec is then accepted for the parameter)" % f.get("why"), f)
            else:
                ck.violation("type_spec_is_assignable_to(%s, %s) is True but %s" % (f.get("str_a"), f.get("str_b"), f.get("why")), f)
            reported += 1
    gate_sem = 0
    for f in gate_fail:
        # a gate that ACCEPTS a pair the relation rejects is a failing input of the property only if the
        # two types really encode differently; otherwise it is a broken tie (gate vs relation)
        bad = None
        if f["call"] == "accepted" and "str_a" in f:
            sb = f["str_b"]
            bad = oracle_pair(ck, f["str_a"], sb, ck.rng, 3)
        if bad is not None and gate_sem < 5:
            gate_sem += 1
            ck.violation("%s accepts an argument of type %s for a parameter of type %s although %s" % (f["kind"], f["str_a"], sb, bad["why"]), dict(f, oracle=bad))
    if gate_fail and not gate_sem:
        f = gate_fail[0]
        ck.violation("call gate disagrees with the relation on %d case(s), first: %s argument %s for parameter %s: model assignable=%s, call %s; "
                     "no accepted pair with different encodings found" % (len(gate_fail), f["kind"], f["a"], f["b"], f["model_assignable"], f["call"]),
                     {"kind": "gate-correspondence", "broken": "SubroutineDefinition.invoke / InnerTxnBuilder.MethodCall vs call_admits", "count": len(gate_fail), "first": gate_fail[:5]},
                     no_failing_input=True)
    if mism and not sem_fail and not gate_fail:
        ck.violation("correspondence broken: the real %s differs from ABI/Assignable.v / ABI/Descr.v on %d case(s) "
                     "(theorem C19_assignable_same_layout no longer transfers); the oracle (layout equality + algosdk encodings) "
                     "found no admitted pair with different encodings among %d admitted pairs"
                     % (mism[0]["kind"], len(mism), admitted["real_true"]),
                     {"kind": "correspondence", "broken": "model vs type_spec_is_assignable_to / __eq__ / __str__ / class table",
                      "count": len(mism), "first": mism[:5]}, no_failing_input=True)
    if not ck.proof_ok and not sem_fail:
        ck.violation("proof obligation broken: Props/C19.v or its Proofs/ files no longer check",
                     {"kind": "proof", "broken": "C19 theorems", "log": ck.proof_log[-2500:]}, no_failing_input=True)
    ck.coverage["disagreements_checked"] = len(mism) + len(sem_fail) + len(gate_fail)
    ck.coverage["admitted"] = admitted
    ck.coverage["input_distribution"] = hist
    ck.coverage["oracle_distinct_pairs"] = len(oracle_cache)
    ck.coverage["phase_s"] = {"proofs+build": round(t_spec - t_start, 1), "exhaustive": round(t_exh - t_spec, 1),
                              "random": round(t_rand - t_exh, 1), "gates": round(time.time() - t_rand, 1)}
    model.close()
    return ck.finish(
        level="proof",
        rule="correspondence: EVERY ordered pair of an explicitly enumerated universe of %d type specs (all leaves incl. 7 transaction and 3 reference specs, "
             "all arrays/tuples/named tuples of depth 1 and width <= 2 over them, a depth-2 layer over layout-equal variants) compared on "
             "type_spec_is_assignable_to, ==, str(), class; plus %d seeded random pairs of depth <= 5 related by spelling-preserving / layout-breaking mutation; "
             "every pair admitted by either side goes to the oracle (independent type-string parser + algosdk encode/decode of sample values under both strings); "
             "gates: SubroutineDefinition.invoke and InnerTxnBuilder.MethodCall on a sample of the universe. "
             "distinct = distinct (a, b) terms / descriptor shapes; non-trivial = not a class-table or leaf-descriptor query" % (len(U), nrand),
        trusted_base=[
            "ARC-4 spec coq/ABI/Spec.v (hand-written from the ARC-4 text; validated against algosdk.abi on every run: type strings, is_dynamic, byte_len, encodings incl. rejected values and the 65535/65536 boundaries, decodings)",
            "Theorems are about coq/ABI/Assignable.v + ABI/Descr.v (hand models of util.py type_spec_is_assignable_to and of the TypeSpec classes' __str__/__eq__/class hierarchy), tied by exact comparison on every run",
            "Python `==` dispatch rule (reflected operand first when the right operand's class is a proper subclass) as modelled in ABI/Descr.v py_eq",
            "uint widths outside {8,16,32,64} and user-defined TypeSpec subclasses are outside the correspondence (the model extrapolates)",
            "algosdk.abi 2.x as reference codec for the oracle; harness type-string parser (cross-checked against algosdk on every admitted pair)",
            "Extraction: ExtrOcamlBasic + ExtrOcamlNativeString, ocaml/driver.ml (read-line loop)",
        ])


if __name__ == "__main__":
    sys.exit(run_main(main))
