"""C04 generators: real PyTeal programs built through the public API only.

Families (every case is reproducible from (family, key) — see `build_case`):
  catalogue  one small program per opcode family / field / immediate shape (high-level constructors),
             swept by the check over versions 2..10 x both modes: whatever PyTeal accepts must be legal
             TEAL for that target, so "needs something the target lacks" must end in a PyTeal error
  raw        every Op of PyTeal's table emitted through the public low-level expression MultiValue with
             valid immediates (tests the final verifyOpsForVersion/Mode sweep op by op)
  subs       seeded random programs with subroutines: plain / recursive / mutually recursive, by-value,
             by-reference and ABI parameters, odd names, up to 40 subroutines, nested control flow
  router     seeded random Routers (bare calls + ABI methods), approval and clear-state programs
  consts     many repeated constants with assembleConstants=True (below / at / above 256 block entries)
  frames     subroutines (plain, ABI void, ABI with output) whose bodies create k ABI locals, k around the 128-cell
             frame limit (126..129, 200), with 0 / 2 arguments: frame_dig / frame_bury immediates must stay in int8
  tails      routine-TAIL shapes: a routine (none-typed / value-typed subroutine, main) whose last statement is an
             If / If-ElseIf-Else / Cond / nested combination in which every subset of the arms leaves
             (Return / Approve / Reject / Err) and the others do not, with and without a following routine
  names      subroutine names with odd characters (incl. empty after sanitising, `main`, digits, unicode)
"""
import random
import sys

sys.setrecursionlimit(20000)

VERSIONS = list(range(2, 11))

ODD_NAMES = ["f", "main", "main_", "main_l0", "l0", "a", "a_1", "a1", "a_", "_", "", " ", "__", "0", "1_0", "x y", "x-y", "x.y",
             "f_0", "f_0_l0", "b", "bz", "int", "return", "retsub", "callsub", "é", "ünï", "日本", "a:b", "a;b", "a//b", "tab\tname",
             "q\"uote", "back\\slash", "#pragma", "sub_0", "A" * 60, "caster", "x_caster", "intcblock", "-1", "0x10"]


# ------------------------------------------------------------------------------------------------
# catalogue
# ------------------------------------------------------------------------------------------------
def _stmt(pt, e):
    """A complete program around an expression: pop a value, end with Approve."""
    t = e.type_of()
    if t == pt.TealType.none:
        return pt.Seq(e, pt.Approve())
    return pt.Seq(pt.Pop(e), pt.Approve())


def catalogue(pt):
    """[(name, thunk -> complete program Expr, tags)]"""
    I, B = pt.Int, pt.Bytes
    T = pt.Txn
    out = []

    def add(name, thunk, *tags):
        out.append((name, (lambda th=thunk: _stmt(pt, th())), set(tags)))

    def addmv(name, thunk, *tags):
        # MultiValue / MaybeValue: use one of its outputs
        def prog(th=thunk):
            mv = th()
            return pt.Seq(mv, pt.Pop(mv.output_slots[-1].load()), pt.Approve())
        out.append((name, prog, set(tags)))

    # ---- arithmetic / logic / bytes
    un = {"Not": pt.Not, "BitwiseNot": pt.BitwiseNot, "Sqrt": pt.Sqrt, "BitLen": pt.BitLen, "Itob": pt.Itob}
    for k, f in un.items():
        add("un:" + k, lambda f=f: f(I(7)))
    unb = {"Len": pt.Len, "Btoi": pt.Btoi, "Sha256": pt.Sha256, "Sha512_256": pt.Sha512_256, "Keccak256": pt.Keccak256,
           "Sha3_256": pt.Sha3_256, "BytesNot": pt.BytesNot, "BytesSqrt": pt.BytesSqrt, "Log": pt.Log}
    for k, f in unb.items():
        add("unb:" + k, lambda f=f: f(B("ab")))
    add("BytesZero", lambda: pt.BytesZero(I(3)))
    binu = {"Add": pt.Add, "Minus": pt.Minus, "Mul": pt.Mul, "Div": pt.Div, "Mod": pt.Mod, "Exp": pt.Exp, "Lt": pt.Lt, "Gt": pt.Gt,
            "Le": pt.Le, "Ge": pt.Ge, "Eq": pt.Eq, "Neq": pt.Neq, "And": pt.And, "Or": pt.Or, "BitwiseAnd": pt.BitwiseAnd,
            "BitwiseOr": pt.BitwiseOr, "BitwiseXor": pt.BitwiseXor, "ShiftLeft": pt.ShiftLeft, "ShiftRight": pt.ShiftRight,
            "GetBit": pt.GetBit}
    for k, f in binu.items():
        add("binu:" + k, lambda f=f: f(I(9), I(2)))
    binb = {"BytesAdd": pt.BytesAdd, "BytesMinus": pt.BytesMinus, "BytesMul": pt.BytesMul, "BytesDiv": pt.BytesDiv,
            "BytesMod": pt.BytesMod, "BytesLt": pt.BytesLt, "BytesGt": pt.BytesGt, "BytesLe": pt.BytesLe, "BytesGe": pt.BytesGe,
            "BytesEq": pt.BytesEq, "BytesNeq": pt.BytesNeq, "BytesAnd": pt.BytesAnd, "BytesOr": pt.BytesOr, "BytesXor": pt.BytesXor,
            "Concat": pt.Concat}
    for k, f in binb.items():
        add("binb:" + k, lambda f=f: f(B("ab"), B("c")))
    add("GetByte", lambda: pt.GetByte(B("abc"), I(1)))
    add("GetBitB", lambda: pt.GetBit(B("abc"), I(1)))
    add("SetBit", lambda: pt.SetBit(I(0), I(3), I(1)))
    add("SetBitB", lambda: pt.SetBit(B("abc"), I(3), I(1)))
    add("SetByte", lambda: pt.SetByte(B("abc"), I(1), I(65)))
    add("Divw", lambda: pt.Divw(I(1), I(2), I(3)))
    add("ExtractUint16", lambda: pt.ExtractUint16(B("abcdefghij"), I(1)))
    add("ExtractUint32", lambda: pt.ExtractUint32(B("abcdefghij"), I(1)))
    add("ExtractUint64", lambda: pt.ExtractUint64(B("abcdefghij"), I(1)))
    add("WideRatio", lambda: pt.WideRatio([I(3), I(4)], [I(5)]))
    add("WideRatio3", lambda: pt.WideRatio([I(3), I(4), I(7)], [I(5), I(2)]))
    add("Ed25519Verify", lambda: pt.Ed25519Verify(B("d"), B("s"), B("k")))
    add("Ed25519Verify_Bare", lambda: pt.Ed25519Verify_Bare(B("d"), B("s"), B("k")))
    add("Addr", lambda: pt.Addr("A" * 58 if False else "AAAAAAAAAAAAAAAAAAAAAAAAAAAAAAAAAAAAAAAAAAAAAAAAAAAAY5HFKQ"))
    add("MethodSignature", lambda: pt.MethodSignature("add(uint64,uint64)uint64"))
    add("Bytes16", lambda: B("base16", "0xdeadBEEF"))
    add("Bytes32", lambda: B("base32", "MFRGGZDFMY"))
    add("Bytes64", lambda: B("base64", "YWJjZGVm"))
    add("BytesEsc", lambda: B('a"b\\c\n\t\x00\x7f//;'))
    add("BytesRaw", lambda: B(bytes(range(256))))
    add("BytesEmpty", lambda: B(""))
    # textual literals with stray white space / line breaks: must be refused or stay on one line
    ADDR = "AAAAAAAAAAAAAAAAAAAAAAAAAAAAAAAAAAAAAAAAAAAAAAAAAAAAY5HFKQ"
    WS = [("nl", "%s\n"), ("cr", "%s\r"), ("crnl", "%s\r\n"), ("lead-nl", "\n%s"), ("sp", "%s "), ("tab", "%s\t"), ("nlnl", "%s\n\n"),
          ("vt", "%s\x0b"), ("ls", "%s\u2028"), ("mid-nl", None)]
    def ws_variants(text):
        for nm, fmt in WS:
            yield nm, (fmt % text if fmt else text[: len(text) // 2] + "\n" + text[len(text) // 2:])
    for nm, t in ws_variants("aGVsbG8h"):
        add("Bytes64+%s" % nm, lambda t=t: B("base64", t), "literal-ws")
    for nm, t in ws_variants("MFRGGZDFMY"):
        add("Bytes32+%s" % nm, lambda t=t: B("base32", t), "literal-ws")
    for nm, t in ws_variants("deadbeef"):
        add("Bytes16+%s" % nm, lambda t=t: B("base16", t), "literal-ws")
        add("Bytes16x+%s" % nm, lambda t=t: B("base16", "0x" + t), "literal-ws")
    for nm, t in ws_variants(ADDR):
        add("Addr+%s" % nm, lambda t=t: pt.Addr(t), "literal-ws")
    for nm, t in ws_variants("add(uint64,uint64)uint64"):
        add("MethodSignature+%s" % nm, lambda t=t: pt.MethodSignature(t), "literal-ws")
    for nm, t in ws_variants("pay"):
        add("EnumInt+%s" % nm, lambda t=t: pt.EnumInt(t), "literal-ws")
    for nm, t in ws_variants("hello"):
        add("BytesUtf8+%s" % nm, lambda t=t: B(t), "literal-ws")
        add("Comment+%s" % nm, lambda t=t: pt.Comment(t, pt.Pop(I(1))), "literal-ws")
        add("AssertComment+%s" % nm, lambda t=t: pt.Assert(I(1), comment=t), "literal-ws")
        def subn(t=t):
            f = pt.Subroutine(pt.TealType.uint64, name=t)(lambda a: a + I(1))
            return f(I(1))
        add("SubName+%s" % nm, subn, "literal-ws")
    add("IntMax", lambda: I(2 ** 64 - 1))
    add("IntEnum", lambda: pt.OnComplete.UpdateApplication)
    add("TxnTypeEnum", lambda: pt.TxnType.ApplicationCall)
    add("If", lambda: pt.If(I(1), I(2), I(3)))
    add("Cond", lambda: pt.Cond([I(1), I(2)], [I(0), I(3)]))
    add("Assert", lambda: pt.Assert(I(1)))
    add("AssertMany", lambda: pt.Assert(I(1), I(2), comment="why"))
    add("Err", lambda: pt.Seq(pt.If(I(1)).Then(pt.Err()), I(1)))
    add("Comment", lambda: pt.Comment("a comment // with ; odd \"chars", pt.Pop(I(1))))
    add("CommentNL", lambda: pt.Comment("two\nlines", pt.Pop(I(1))))
    add("Substring", lambda: pt.Substring(B("abcdef"), I(1), I(3)))
    add("SubstringDyn", lambda: pt.Substring(B("abcdef"), T.fee(), I(3)))
    add("Extract", lambda: pt.Extract(B("abcdef"), I(1), I(3)))
    add("ExtractDyn", lambda: pt.Extract(B("abcdef"), T.fee(), I(3)))
    add("Suffix", lambda: pt.Suffix(B("abcdef"), I(2)))
    add("SuffixDyn", lambda: pt.Suffix(B("abcdef"), T.fee()))
    add("Replace", lambda: pt.Replace(B("abcdef"), I(2), B("zz")))
    add("ReplaceDyn", lambda: pt.Replace(B("abcdef"), T.fee(), B("zz")))
    for s, e in [(0, 0), (0, 255), (255, 255), (255, 256), (254, 300), (0, 256), (256, 257), (3, 2), (100, 355), (1, 256)]:
        add("Substring:%d:%d" % (s, e), lambda s=s, e=e: pt.Substring(B("abcdef"), I(s), I(e)))
    for s, ln in [(0, 0), (0, 255), (255, 255), (255, 0), (256, 0), (0, 256), (300, 2), (1, 1)]:
        add("Extract:%d:%d" % (s, ln), lambda s=s, ln=ln: pt.Extract(B("abcdef"), I(s), I(ln)))
    # dense grid around the one-byte boundary: every op selector of substring.py (substring / substring3 / extract / extract3)
    GRID = [0, 1, 2, 127, 128, 254, 255, 256, 257, 511, 512]
    seen_rng = set()
    for s in GRID:
        for d in GRID:
            if ("S", s, s + d) not in seen_rng:
                seen_rng.add(("S", s, s + d))
                add("SubstringG:%d:%d" % (s, s + d), lambda s=s, d=d: pt.Substring(B("abcdef"), I(s), I(s + d)))
            add("ExtractG:%d:%d" % (s, d), lambda s=s, d=d: pt.Extract(B("abcdef"), I(s), I(d)))
    for s in GRID:
        add("SuffixG:%d" % s, lambda s=s: pt.Suffix(B("abcdef"), I(s)))
        add("ReplaceG:%d" % s, lambda s=s: pt.Replace(B("abcdef"), I(s), B("z")))
    for s in [0, 1, 255, 256, 70000]:
        add("Suffix:%d" % s, lambda s=s: pt.Suffix(B("abcdef"), I(s)))
        add("Replace:%d" % s, lambda s=s: pt.Replace(B("abcdef"), I(s), B("z")))
    # ---- base64 / json / vrf / block / ecdsa / ec
    add("Base64Decode.std", lambda: pt.Base64Decode.std(B("YQ==")))
    add("Base64Decode.url", lambda: pt.Base64Decode.url(B("YQ==")))
    add("JsonRef.string", lambda: pt.JsonRef.as_string(B("{}"), B("k")))
    add("JsonRef.uint64", lambda: pt.JsonRef.as_uint64(B("{}"), B("k")))
    add("JsonRef.object", lambda: pt.JsonRef.as_object(B("{}"), B("k")))
    addmv("VrfVerify.algorand", lambda: pt.VrfVerify.algorand(B("m"), B("p"), B("k")))
    addmv("VrfVerify.chainlink", lambda: pt.VrfVerify.chainlink(B("m"), B("p"), B("k")), "vrf-chainlink")
    for m in ["seed", "timestamp", "proposer", "fees_collected", "bonus", "branch", "fee_sink", "protocol", "txn_counter", "proposer_payout"]:
        add("Block." + m, lambda m=m: getattr(pt.Block, m)(I(10)))
    for c in ["Secp256k1", "Secp256r1"]:
        add("EcdsaVerify." + c, lambda c=c: pt.EcdsaVerify(getattr(pt.EcdsaCurve, c), B("d"), B("r"), B("s"), (B("x"), B("y"))))
        addmv("EcdsaDecompress." + c, lambda c=c: pt.EcdsaDecompress(getattr(pt.EcdsaCurve, c), B("k")))
        addmv("EcdsaRecover." + c, lambda c=c: pt.EcdsaRecover(getattr(pt.EcdsaCurve, c), B("d"), I(1), B("r"), B("s")))
    for c in ["BN254g1", "BN254g2", "BLS12_381g1", "BLS12_381g2"]:
        g = lambda c=c: getattr(pt.EllipticCurve, c)
        add("EcAdd." + c, lambda g=g: pt.EcAdd(g(), B("a"), B("b")))
        add("EcScalarMul." + c, lambda g=g: pt.EcScalarMul(g(), B("a"), B("b")))
        add("EcPairingCheck." + c, lambda g=g: pt.EcPairingCheck(g(), B("a"), B("b")))
        add("EcMultiScalarMul." + c, lambda g=g: pt.EcMultiScalarMul(g(), B("a"), B("b")))
        add("EcSubgroupCheck." + c, lambda g=g: pt.EcSubgroupCheck(g(), B("a")))
        add("EcMapTo." + c, lambda g=g: pt.EcMapTo(g(), B("a")))
    def mimc():
        from pyteal.ast.mimc import MimcConfig
        return pt.MiMC(list(MimcConfig)[0], B("a"))
    add("MiMC", mimc, "v11")
    add("OnlineStake", lambda: pt.OnlineStake(), "v11")
    # ---- transaction fields (every accessor of Txn, Gtxn[1], InnerTxn, Gitxn[1]) and globals
    import inspect
    scal, arrs = [], []
    for m in sorted(dir(T)):
        if m.startswith("_"):
            continue
        a = getattr(T, m)
        if isinstance(a, pt.TxnArray):
            arrs.append(m)
        elif callable(a) and m not in ("makeTxnExpr", "makeTxnaExpr"):
            scal.append(m)
    for m in scal:
        add("Txn." + m, lambda m=m: getattr(T, m)(), "field")
        add("Gtxn[1]." + m, lambda m=m: getattr(pt.Gtxn[1], m)(), "field")
        add("Gtxn[dyn]." + m, lambda m=m: getattr(pt.Gtxn[T.group_index()], m)(), "field")
        add("InnerTxn." + m, lambda m=m: getattr(pt.InnerTxn, m)(), "field")
        add("Gitxn[1]." + m, lambda m=m: getattr(pt.Gitxn[1], m)(), "field")
    for m in arrs:
        for idx in (0, 1, 255):
            add("Txn.%s[%d]" % (m, idx), lambda m=m, idx=idx: getattr(T, m)[idx], "field")
        add("Txn.%s[dyn]" % m, lambda m=m: getattr(T, m)[T.fee()], "field")
        add("Txn.%s.length" % m, lambda m=m: getattr(T, m).length(), "field")
        add("Gtxn[2].%s[3]" % m, lambda m=m: getattr(pt.Gtxn[2], m)[3], "field")
        add("Gtxn[2].%s[dyn]" % m, lambda m=m: getattr(pt.Gtxn[2], m)[T.fee()], "field")
        add("Gtxn[dyn].%s[3]" % m, lambda m=m: getattr(pt.Gtxn[T.group_index()], m)[3], "field")
        add("Gtxn[dyn].%s[dyn]" % m, lambda m=m: getattr(pt.Gtxn[T.group_index()], m)[T.fee()], "field")
        add("InnerTxn.%s[2]" % m, lambda m=m: getattr(pt.InnerTxn, m)[2], "field")
        add("InnerTxn.%s[dyn]" % m, lambda m=m: getattr(pt.InnerTxn, m)[T.fee()], "field")
        add("Gitxn[0].%s[2]" % m, lambda m=m: getattr(pt.Gitxn[0], m)[2], "field")
        add("Gitxn[0].%s[dyn]" % m, lambda m=m: getattr(pt.Gitxn[0], m)[T.fee()], "field")
        # beyond one byte: refused at construction since /repo 6fb1ed6 (was finding txn-array-index-over-255)
        for idx in (256, 300, 70000):
            add("Txn.%s[%d]" % (m, idx), lambda m=m, idx=idx: getattr(T, m)[idx], "index-gt-255")
        add("Gtxn[2].%s[256]" % m, lambda m=m: getattr(pt.Gtxn[2], m)[256], "index-gt-255")
        add("InnerTxn.%s[256]" % m, lambda m=m: getattr(pt.InnerTxn, m)[256], "index-gt-255")
        add("Gitxn[0].%s[999]" % m, lambda m=m: getattr(pt.Gitxn[0], m)[999], "index-gt-255")
    for t in (0, 1, 15):
        add("Gtxn[%d].fee" % t, lambda t=t: pt.Gtxn[t].fee())
        add("Gitxn[%d].fee" % t, lambda t=t: pt.Gitxn[t].fee())
        add("GeneratedID(%d)" % t, lambda t=t: pt.GeneratedID(t))
        for s in (0, 255):
            add("ImportScratchValue(%d,%d)" % (t, s), lambda t=t, s=s: pt.ImportScratchValue(t, s))
    add("GeneratedID(dyn)", lambda: pt.GeneratedID(T.group_index()))
    add("ImportScratchValue(dyn,3)", lambda: pt.ImportScratchValue(T.group_index(), 3))
    for m in sorted(dir(pt.Global)):
        a = getattr(pt.Global, m)
        if m.startswith("_") or not callable(a) or m in ("And", "Or", "getDefinitionTrace", "has_return", "type_of"):
            continue
        add("Global." + m, lambda a=a: a(), "field")
    for i in (0, 1, 2, 3, 4, 255):
        add("Arg(%d)" % i, lambda i=i: pt.Arg(i))
    add("Arg(dyn)", lambda: pt.Arg(T.fee()))
    # immediates beyond the encodable range: PyTeal must refuse them (constructor-time checks)
    add("Arg(256)", lambda: pt.Arg(256), "out-of-range")
    add("ScratchVar(256)", lambda: pt.ScratchVar(pt.TealType.uint64, 256).load(), "out-of-range")
    add("ImportScratchValue(0,256)", lambda: pt.ImportScratchValue(0, 256), "out-of-range")
    add("ImportScratchValue(256,0)", lambda: pt.ImportScratchValue(256, 0), "out-of-range")
    add("GeneratedID(256)", lambda: pt.GeneratedID(256), "out-of-range")
    add("Gtxn[256].fee", lambda: pt.Gtxn[256].fee(), "out-of-range")
    add("Gitxn[256].fee", lambda: pt.Gitxn[256].fee(), "out-of-range")
    add("Int(2^64)", lambda: I(2 ** 64), "out-of-range")
    # literal-argument hazards: Python bools / int subclasses where an int is expected; outcome must be a PyTeal error or legal TEAL
    import enum
    class _E(enum.IntEnum):
        A = 3
    class _MyInt(int):
        def __str__(self):
            return "myint"
        __repr__ = __str__
    for nm, val in (("True", True), ("False", False), ("IntEnum", _E.A), ("IntSubclass", _MyInt(5))):
        add("Int(%s)" % nm, lambda val=val: I(val), "literal")
        add("Int(%s)+1" % nm, lambda val=val: I(val) + I(1), "literal")
        add("Substring(Int(%s))" % nm, lambda val=val: pt.Substring(B("abcdef"), I(False) if val is True else I(0), I(val)), "literal")
        add("Substring(Int(%s),3)" % nm, lambda val=val: pt.Substring(B("abcdef"), I(val), I(6)), "literal")
        add("Extract(Int(%s))" % nm, lambda val=val: pt.Extract(B("abcdef"), I(val), I(1)), "literal")
        add("Extract(0,Int(%s))" % nm, lambda val=val: pt.Extract(B("abcdef"), I(0), I(val)), "literal")
        add("Suffix(Int(%s))" % nm, lambda val=val: pt.Suffix(B("abcdef"), I(val)), "literal")
        add("Replace(Int(%s))" % nm, lambda val=val: pt.Replace(B("abcdef"), I(val), B("z")), "literal")
        add("WideRatio(Int(%s))" % nm, lambda val=val: pt.WideRatio([I(val), I(3)], [I(2)]), "literal")
        add("Txn.application_args[%s]" % nm, lambda val=val: T.application_args[val], "literal")
        add("Gtxn[%s].fee" % nm, lambda val=val: pt.Gtxn[val].fee(), "literal")
        add("Gtxn[1].accounts[%s]" % nm, lambda val=val: pt.Gtxn[1].accounts[val], "literal")
        add("Arg(%s)" % nm, lambda val=val: pt.Arg(val), "literal")
        add("ScratchVar(%s)" % nm, lambda val=val: (lambda v: pt.Seq(v.store(I(1)), v.load()))(pt.ScratchVar(pt.TealType.uint64, val)), "literal")
        add("ImportScratchValue(%s)" % nm, lambda val=val: pt.ImportScratchValue(val, val), "literal")
        add("GeneratedID(%s)" % nm, lambda val=val: pt.GeneratedID(val), "literal")
        add("BytesZero(Int(%s))" % nm, lambda val=val: pt.BytesZero(I(val)), "literal")
        add("If(Int(%s))" % nm, lambda val=val: pt.If(I(val), I(2), I(3)), "literal")
    # ---- scratch
    for sid in (0, 1, 128, 255):
        add("ScratchVar(%d)" % sid, lambda sid=sid: (lambda v: pt.Seq(v.store(I(1)), v.load()))(pt.ScratchVar(pt.TealType.uint64, sid)))
    add("ScratchVar(auto)", lambda: (lambda v: pt.Seq(v.store(B("x")), v.load()))(pt.ScratchVar(pt.TealType.bytes)))
    add("DynamicScratchVar", lambda: (lambda d, v: pt.Seq(v.store(I(1)), d.set_index(v), d.store(I(3)), d.load()))(
        pt.DynamicScratchVar(pt.TealType.uint64), pt.ScratchVar(pt.TealType.uint64)))
    add("ScratchIndex", lambda: (lambda v: pt.Seq(v.store(I(1)), v.index()))(pt.ScratchVar(pt.TealType.uint64, 7)))
    # ---- application state / params
    add("App.id", lambda: pt.App.id())
    add("App.optedIn", lambda: pt.App.optedIn(I(0), I(1)))
    add("App.localGet", lambda: pt.App.localGet(I(0), B("k")))
    addmv("App.localGetEx", lambda: pt.App.localGetEx(I(0), I(1), B("k")))
    add("App.globalGet", lambda: pt.App.globalGet(B("k")))
    addmv("App.globalGetEx", lambda: pt.App.globalGetEx(I(0), B("k")))
    add("App.localPut", lambda: pt.App.localPut(I(0), B("k"), I(1)))
    add("App.globalPut", lambda: pt.App.globalPut(B("k"), B("v")))
    add("App.localDel", lambda: pt.App.localDel(I(0), B("k")))
    add("App.globalDel", lambda: pt.App.globalDel(B("k")))
    add("Balance", lambda: pt.Balance(I(0)))
    add("MinBalance", lambda: pt.MinBalance(I(0)))
    for m in ["balance", "frozen"]:
        addmv("AssetHolding." + m, lambda m=m: getattr(pt.AssetHolding, m)(I(0), I(1)))
    for m in ["total", "decimals", "defaultFrozen", "unitName", "name", "url", "metadataHash", "manager", "reserve", "freeze", "clawback", "creator"]:
        addmv("AssetParam." + m, lambda m=m: getattr(pt.AssetParam, m)(I(0)), *( ["asset-creator"] if m == "creator" else []))
    for m in ["approvalProgram", "clearStateProgram", "globalNumUint", "globalNumByteSlice", "localNumUint", "localNumByteSlice",
              "extraProgramPages", "creator", "address"]:
        addmv("AppParam." + m, lambda m=m: getattr(pt.AppParam, m)(I(0)))
    for m in ["balance", "minBalance", "authAddr", "totalNumUint", "totalNumByteSlice", "totalExtraAppPages", "totalAppsCreated",
              "totalAppsOptedIn", "totalAssetsCreated", "totalAssets", "totalBoxes", "totalBoxBytes", "incentiveEligible",
              "lastProposed", "lastHeartbeat"]:
        addmv("AccountParam." + m, lambda m=m: getattr(pt.AccountParam, m)(I(0)))
    if hasattr(pt, "VoterParam"):
        for m in [x for x in dir(pt.VoterParam) if not x.startswith("_")]:
            addmv("VoterParam." + m, lambda m=m: getattr(pt.VoterParam, m)(I(0)), "v11")
    # ---- boxes
    add("BoxCreate", lambda: pt.BoxCreate(B("k"), I(8)))
    add("BoxDelete", lambda: pt.BoxDelete(B("k")))
    add("BoxExtract", lambda: pt.BoxExtract(B("k"), I(0), I(2)))
    add("BoxReplace", lambda: pt.BoxReplace(B("k"), I(0), B("v")))
    addmv("BoxLen", lambda: pt.BoxLen(B("k")))
    addmv("BoxGet", lambda: pt.BoxGet(B("k")))
    add("BoxPut", lambda: pt.BoxPut(B("k"), B("v")))
    add("BoxResize", lambda: pt.BoxResize(B("k"), I(9)))
    add("BoxSplice", lambda: pt.BoxSplice(B("k"), I(0), I(1), B("v")))
    # ---- inner transactions
    ITB = pt.InnerTxnBuilder
    add("Itxn.pay", lambda: pt.Seq(ITB.Begin(), ITB.SetFields({pt.TxnField.type_enum: pt.TxnType.Payment, pt.TxnField.receiver: T.sender(),
                                                                     pt.TxnField.amount: I(1), pt.TxnField.fee: I(0)}), ITB.Submit()))
    add("Itxn.next", lambda: pt.Seq(ITB.Begin(), ITB.SetField(pt.TxnField.type_enum, pt.TxnType.Payment), ITB.Next(),
                                    ITB.SetField(pt.TxnField.type_enum, pt.TxnType.Payment), ITB.Submit()))
    add("Itxn.Execute", lambda: ITB.Execute({pt.TxnField.type_enum: pt.TxnType.AssetTransfer, pt.TxnField.xfer_asset: I(1)}))
    add("Itxn.appl", lambda: pt.Seq(ITB.Begin(), ITB.SetFields({pt.TxnField.type_enum: pt.TxnType.ApplicationCall,
                                    pt.TxnField.application_id: I(1), pt.TxnField.application_args: [B("a"), B("b")],
                                    pt.TxnField.accounts: [T.sender()], pt.TxnField.assets: [I(1)], pt.TxnField.applications: [I(2)],
                                    pt.TxnField.on_completion: pt.OnComplete.NoOp, pt.TxnField.note: B("n")}), ITB.Submit()))
    add("Itxn.pages", lambda: pt.Seq(ITB.Begin(), ITB.SetFields({pt.TxnField.type_enum: pt.TxnType.ApplicationCall,
                                     pt.TxnField.approval_program_pages: [B("a"), B("b")],
                                     pt.TxnField.clear_state_program_pages: [B("c")]}), ITB.Submit()))
    add("Itxn.MethodCall", lambda: pt.Seq(ITB.Begin(), ITB.MethodCall(app_id=I(1), method_signature="f(uint64)void",
                                          args=[pt.Itob(I(1))]), ITB.Submit()))
    for f in pt.TxnField:
        tag = "itxn-field"
        def mk(f=f):
            v = (I(1) if f.type_of() == pt.TealType.uint64 else B("x"))
            return pt.Seq(ITB.Begin(), ITB.SetField(f, [v] if f.is_array else v), ITB.Submit())
        add("ItxnField." + f.arg_name, mk, tag)
    add("OpUp.explicit", lambda: pt.Seq(pt.OpUp(pt.OpUpMode.Explicit, I(1)).ensure_budget(I(1000))))
    add("OpUp.oncall", lambda: pt.Seq(pt.OpUp(pt.OpUpMode.OnCall).maximize_budget(I(3000))))
    # ---- control flow shapes
    def loop_w():
        i = pt.ScratchVar(pt.TealType.uint64)
        return pt.Seq(i.store(I(0)), pt.While(i.load() < I(3)).Do(i.store(i.load() + I(1))))
    def loop_f():
        i = pt.ScratchVar(pt.TealType.uint64)
        return pt.For(i.store(I(0)), i.load() < I(3), i.store(i.load() + I(1))).Do(pt.If(i.load() == I(1)).Then(pt.Continue()).Else(pt.Break()))
    add("While", loop_w, "loop")
    add("For", loop_f, "loop")
    add("NoReturnMain", lambda: I(1))
    def sub_plain():
        @pt.Subroutine(pt.TealType.uint64)
        def f(a, b):
            return a + b
        return f(I(1), I(2))
    def sub_rec():
        @pt.Subroutine(pt.TealType.uint64)
        def fact(n):
            return pt.If(n <= I(1), I(1), n * fact(n - I(1)))
        return fact(I(5))
    def sub_ref():
        @pt.Subroutine(pt.TealType.none)
        def inc(v: pt.ScratchVar):
            return v.store(v.load() + I(1))
        x = pt.ScratchVar(pt.TealType.uint64)
        return pt.Seq(x.store(I(1)), inc(x), x.load())
    def sub_abi():
        @pt.ABIReturnSubroutine
        def addone(a: pt.abi.Uint64, *, output: pt.abi.Uint64):
            return output.set(a.get() + I(1))
        x, y = pt.abi.Uint64(), pt.abi.Uint64()
        return pt.Seq(x.set(I(4)), addone(x).store_into(y), y.get())
    def sub_abi_tuple():
        @pt.ABIReturnSubroutine
        def f(a: pt.abi.String, b: pt.abi.DynamicArray[pt.abi.Uint16], c: pt.abi.Tuple2[pt.abi.Bool, pt.abi.Address], *, output: pt.abi.Uint64):
            return output.set(pt.Len(a.get()) + b.length())
        a, b, c, o = pt.abi.String(), pt.abi.make(pt.abi.DynamicArray[pt.abi.Uint16]), pt.abi.make(pt.abi.Tuple2[pt.abi.Bool, pt.abi.Address]), pt.abi.Uint64()
        return pt.Seq(a.set("hi"), b.decode(B("base16", "0x00010002")), c.decode(pt.BytesZero(I(33))), f(a, b, c).store_into(o), o.get())
    add("Sub.plain", sub_plain, "sub")
    add("Sub.recursive", sub_rec, "sub")
    add("Sub.byref", sub_ref, "sub")
    add("Sub.abi", sub_abi, "sub")
    add("Sub.abi_tuple", sub_abi_tuple, "sub")
    return out


# valid immediates for the raw sweep (Op name -> (immediates, number of uint64 arguments to push, outputs))
RAW_IMMS = {
    "intc": None, "intc_0": None, "intc_1": None, "intc_2": None, "intc_3": None, "bytec": None, "bytec_0": None, "bytec_1": None,
    "bytec_2": None, "bytec_3": None, "intcblock": None, "bytecblock": None,           # constant blocks: only via assembleConstants
    "bnz": None, "bz": None, "b": None, "callsub": None, "retsub": None, "//": None,    # need labels / regions
    "return": None, "err": None,
    "int": [7], "byte": ['"x"'], "addr": ["AAAAAAAAAAAAAAAAAAAAAAAAAAAAAAAAAAAAAAAAAAAAAAAAAAAAY5HFKQ"], "method": ['"f()void"'],
    "arg": [0], "txn": ["Fee"], "global": ["MinTxnFee"], "gtxn": [0, "Fee"], "load": [0], "store": [0], "txna": ["ApplicationArgs", 0],
    "gtxna": [0, "ApplicationArgs", 0], "substring": [0, 1], "asset_holding_get": ["AssetBalance"], "asset_params_get": ["AssetTotal"],
    "gtxns": ["Fee"], "gtxnsa": ["ApplicationArgs", 0], "dig": [0], "pushbytes": ['"x"'], "pushint": [7], "gload": [0, 0], "gloads": [0],
    "gaid": [0], "ecdsa_verify": ["Secp256k1"], "ecdsa_pk_decompress": ["Secp256k1"], "ecdsa_pk_recover": ["Secp256k1"],
    "cover": [0], "uncover": [0], "extract": [0, 0], "app_params_get": ["AppCreator"], "itxn_field": ["Fee"], "itxn": ["Fee"],
    "itxna": ["Logs", 0], "txnas": ["ApplicationArgs"], "gtxnas": [0, "ApplicationArgs"], "gtxnsas": ["ApplicationArgs"],
    "itxnas": ["Logs"], "gitxn": [0, "Fee"], "gitxna": [0, "Logs", 0], "gitxnas": [0, "Logs"], "acct_params_get": ["AcctBalance"],
    "voter_params_get": ["VoterBalance"], "replace2": [0], "base64_decode": ["StdEncoding"], "json_ref": ["JSONString"],
    "vrf_verify": ["VrfAlgorand"], "block": ["BlkSeed"], "popn": [1], "dupn": [1], "bury": [1], "frame_dig": [-1], "frame_bury": [0],
    "proto": [0, 0], "ec_add": ["BN254g1"], "ec_scalar_mul": ["BN254g1"], "ec_pairing_check": ["BN254g1"],
    "ec_multi_scalar_mul": ["BN254g1"], "ec_subgroup_check": ["BN254g1"], "ec_map_to": ["BN254g1"], "mimc": ["BN254Mp110"],
}


def raw_cases(pt):
    """[(op name, thunk)] every op of PyTeal's table through MultiValue with valid immediates."""
    out = []
    for op in pt.Op:
        name = op.value.value
        if name in RAW_IMMS and RAW_IMMS[name] is None:
            continue
        imms = RAW_IMMS.get(name, [])
        def prog(op=op, imms=imms):
            return pt.Seq(pt.MultiValue(op, [], immediate_args=list(imms), args=[]), pt.Approve())
        out.append((name, prog))
    return out


# ------------------------------------------------------------------------------------------------
# random programs with subroutines
# ------------------------------------------------------------------------------------------------
def _fn(n, body, annotations=None):
    """A Python function of arity n (positional parameters p0..) whose body is body(list of params)."""
    if n > 24:
        raise ValueError(n)
    names = ["p%d" % i for i in range(n)]
    src = "def f(%s):\n    return body([%s])\n" % (", ".join(names), ", ".join(names))
    env = {"body": body}
    exec(src, env)
    f = env["f"]
    if annotations:
        f.__annotations__ = dict(annotations)
    return f


class PG:
    """Well-typed random expressions / statements over the public constructors."""

    def __init__(self, pt, rng, version, app, subs=None, params=(), ret=None, size=40, hist=None):
        self.pt, self.r, self.v, self.app = pt, rng, version, app
        self.subs = subs if subs is not None else []     # dicts: wrapper, kinds, ret ('n','u','b'), abi
        self.params = list(params)                       # (kind 'u'|'b'|'r'|'au', object)
        self.ret = ret                                   # None in main
        self.budget = size
        self.vars = []                                   # (ScratchVar, 'u'|'b')
        self.hist = hist if hist is not None else {}

    def note(self, k):
        self.hist[k] = self.hist.get(k, 0) + 1

    def newvar(self, ty):
        pt = self.pt
        sid = self.r.choice([None, None, None, self.r.randrange(0, 256)])
        v = pt.ScratchVar(pt.TealType.uint64 if ty == "u" else pt.TealType.bytes, sid) if sid is not None else \
            pt.ScratchVar(pt.TealType.uint64 if ty == "u" else pt.TealType.bytes)
        self.vars.append((v, ty))
        return v

    def inits(self):
        """a store for every variable created so far (a load before any store is a PyTeal error)"""
        pt = self.pt
        return [v.store(pt.Int(0) if t == "u" else pt.Bytes("")) for v, t in self.vars]

    # ---- leaves
    def ul(self):
        pt, r = self.pt, self.r
        ch = ["int", "int", "txn", "global", "var", "param"]
        if self.v >= 2:
            ch.append("alen")
        k = r.choice(ch)
        if k == "var":
            c = [v for v, t in self.vars if t == "u"]
            if c:
                return r.choice(c).load()
        if k == "param":
            c = [p for p in self.params if p[0] in ("u", "r", "au")]
            if c:
                kind, o = r.choice(c)
                return o if kind == "u" else (o.load() if kind == "r" else o.get())
        if k == "txn":
            return getattr(pt.Txn, r.choice(["fee", "first_valid", "last_valid", "amount", "group_index", "type_enum", "asset_amount"]))()
        if k == "global":
            return getattr(pt.Global, r.choice(["min_txn_fee", "min_balance", "max_txn_life", "group_size"]))()
        if k == "alen":
            return pt.Txn.application_args.length()
        return pt.Int(r.choice([0, 1, 2, 3, 7, 255, 256, 65535, 2 ** 32, 2 ** 63, 2 ** 64 - 1, r.randrange(0, 1000)]))

    def bl(self):
        pt, r = self.pt, self.r
        k = r.choice(["bytes", "bytes", "txn", "var", "param", "arg", "global"])
        if k == "var":
            c = [v for v, t in self.vars if t == "b"]
            if c:
                return r.choice(c).load()
        if k == "param":
            c = [p for p in self.params if p[0] == "b"]
            if c:
                return r.choice(c)[1]
        if k == "txn":
            return getattr(pt.Txn, r.choice(["sender", "note", "receiver", "lease", "tx_id"]))()
        if k == "arg":
            if self.app:
                return pt.Txn.application_args[r.choice([0, 1, 2, 255])]
            return pt.Arg(r.choice([0, 1, 2, 255]))
        if k == "global":
            return pt.Global.zero_address()
        return pt.Bytes(r.choice(["", "a", "abc", "k1", "hello world", "x" * 33, 'q"t', "sp ace", "//c", "a;b"]))

    # ---- expressions
    def u(self, d):
        pt, r, v = self.pt, self.r, self.v
        self.budget -= 1
        if d <= 0 or self.budget <= 0:
            return self.ul()
        ch = ["leaf", "bin", "bin", "un", "nary", "if", "cond", "seq", "frombytes", "cmpb"]
        if v >= 3:
            ch += ["bit"]
        if v >= 4:
            ch += ["v4", "call", "call", "bytesmath"]
        if v >= 5:
            ch += ["wide", "exu"]
        if self.app:
            ch += ["state"]
        k = r.choice(ch)
        self.note("u:" + k)
        if k == "bin":
            f = r.choice([pt.Minus, pt.Div, pt.Mod, pt.Lt, pt.Gt, pt.Le, pt.Ge, pt.Eq, pt.Neq, pt.BitwiseAnd, pt.BitwiseOr, pt.BitwiseXor])
            return f(self.u(d - 1), self.u(d - 1))
        if k == "un":
            f = r.choice([pt.Not, pt.BitwiseNot])
            return f(self.u(d - 1))
        if k == "nary":
            f = r.choice([pt.Add, pt.Mul, pt.And, pt.Or])
            return f(*[self.u(d - 1) for _ in range(r.choice([2, 2, 3, 4]))])
        if k == "if":
            return pt.If(self.u(d - 1), self.u(d - 1), self.u(d - 1))
        if k == "cond":
            arms = [[self.u(d - 1), self.u(d - 1)] for _ in range(r.choice([1, 2, 3]))]
            return pt.Cond(*arms)
        if k == "seq":
            return pt.Seq(*[self.stmt(d - 1, False, novalue_ctrl=True) for _ in range(r.choice([0, 1, 2]))], self.u(d - 1))
        if k == "frombytes":
            return r.choice([pt.Len, pt.Btoi])(self.b(d - 1))
        if k == "cmpb":
            return r.choice([pt.Eq, pt.Neq])(self.b(d - 1), self.b(d - 1))
        if k == "bit":
            return r.choice([lambda: pt.GetBit(self.u(d - 1), self.u(d - 1)), lambda: pt.GetByte(self.b(d - 1), self.u(d - 1)),
                             lambda: pt.SetBit(self.u(d - 1), self.u(d - 1), self.u(d - 1))])()
        if k == "v4":
            return r.choice([lambda: pt.Exp(self.u(d - 1), self.u(d - 1)), lambda: pt.Sqrt(self.u(d - 1)), lambda: pt.BitLen(self.u(d - 1)),
                             lambda: pt.ShiftLeft(self.u(d - 1), self.u(d - 1)), lambda: pt.ShiftRight(self.u(d - 1), self.u(d - 1))])()
        if k == "bytesmath":
            return r.choice([pt.BytesLt, pt.BytesGe, pt.BytesEq])(self.b(d - 1), self.b(d - 1))
        if k == "wide":
            nn, nd = r.choice([(1, 2), (2, 1), (2, 2), (3, 2), (1, 3)])
            return pt.WideRatio([self.u(d - 2) for _ in range(nn)], [self.u(d - 2) for _ in range(nd)])
        if k == "exu":
            return r.choice([pt.ExtractUint16, pt.ExtractUint32, pt.ExtractUint64])(self.b(d - 1), self.u(d - 1))
        if k == "state":
            return r.choice([lambda: pt.Balance(self.u(d - 1)), lambda: pt.App.optedIn(self.u(d - 1), self.u(d - 1)),
                             lambda: pt.App.id()])()
        if k == "call":
            c = [s for s in self.subs if s["ret"] == "u"]
            if c:
                return self.call(r.choice(c), d)
        return self.ul()

    def b(self, d):
        pt, r, v = self.pt, self.r, self.v
        self.budget -= 1
        if d <= 0 or self.budget <= 0:
            return self.bl()
        ch = ["leaf", "concat", "itob", "hash", "substr", "if", "seq"]
        if v >= 3:
            ch += ["setbyte"]
        if v >= 4:
            ch += ["bmath", "bzero", "call", "call"]
        if v >= 5:
            ch += ["extract", "suffix"]
        if v >= 7:
            ch += ["replace", "b64"]
        k = r.choice(ch)
        self.note("b:" + k)
        if k == "concat":
            return pt.Concat(*[self.b(d - 1) for _ in range(r.choice([2, 2, 3]))])
        if k == "itob":
            return pt.Itob(self.u(d - 1))
        if k == "hash":
            return r.choice([pt.Sha256, pt.Keccak256, pt.Sha512_256])(self.b(d - 1))
        if k == "substr":
            if r.random() < 0.6:
                s = r.choice([0, 1, 2, 254, 255, 256, 300])
                e = s + r.choice([0, 1, 2, 255, 256])
                return pt.Substring(self.b(d - 1), pt.Int(s), pt.Int(e))
            return pt.Substring(self.b(d - 1), self.u(d - 1), self.u(d - 1))
        if k == "if":
            return pt.If(self.u(d - 1), self.b(d - 1), self.b(d - 1))
        if k == "seq":
            return pt.Seq(*[self.stmt(d - 1, False, novalue_ctrl=True) for _ in range(r.choice([0, 1]))], self.b(d - 1))
        if k == "setbyte":
            return pt.SetByte(self.b(d - 1), self.u(d - 1), self.u(d - 1))
        if k == "bmath":
            return r.choice([pt.BytesAdd, pt.BytesMinus, pt.BytesMul, pt.BytesDiv, pt.BytesAnd, pt.BytesOr, pt.BytesXor])(self.b(d - 1), self.b(d - 1))
        if k == "bzero":
            return pt.BytesZero(self.u(d - 1))
        if k == "extract":
            if r.random() < 0.6:
                return pt.Extract(self.b(d - 1), pt.Int(r.choice([0, 1, 255, 256, 300])), pt.Int(r.choice([0, 1, 2, 255, 256])))
            return pt.Extract(self.b(d - 1), self.u(d - 1), self.u(d - 1))
        if k == "suffix":
            return pt.Suffix(self.b(d - 1), pt.Int(r.choice([0, 1, 255, 256])) if r.random() < 0.6 else self.u(d - 1))
        if k == "replace":
            return pt.Replace(self.b(d - 1), pt.Int(r.choice([0, 1, 255, 256])) if r.random() < 0.6 else self.u(d - 1), self.b(d - 1))
        if k == "b64":
            return r.choice([pt.Base64Decode.std, pt.Base64Decode.url])(self.b(d - 1))
        if k == "call":
            c = [s for s in self.subs if s["ret"] == "b"]
            if c:
                return self.call(r.choice(c), d)
        return self.bl()

    def call(self, s, d):
        pt, r = self.pt, self.r
        self.note("call:" + ("abi" if s.get("abi") else "plain"))
        args = []
        pre = []
        for kd in s["kinds"]:
            if kd == "u":
                args.append(self.u(d - 1))
            elif kd == "b":
                args.append(self.b(d - 1))
            elif kd == "r":
                c = [v for v, t in self.vars if t == "u"]
                args.append(r.choice(c) if c else self.newvar("u"))
            elif kd == "au":
                x = pt.abi.Uint64()
                pre.append(x.set(self.u(d - 1)))
                args.append(x)
        if s.get("abi"):
            if s["ret"] == "u":
                o = pt.abi.Uint64()
                return pt.Seq(*pre, s["wrapper"](*args).store_into(o), o.get())
            return pt.Seq(*pre, s["wrapper"](*args))
        e = s["wrapper"](*args)
        return pt.Seq(*pre, e) if pre else e

    # ---- statements
    def stmt(self, d, loop, novalue_ctrl=False):
        pt, r, v = self.pt, self.r, self.v
        self.budget -= 1
        ch = ["pop", "store", "store", "assert", "comment"]
        if d > 0 and self.budget > 0:
            ch += ["if", "ifelse", "cond", "seq"]
            if v >= 4:
                ch += ["while", "for", "callnone", "callnone", "callpop"]
        if self.app and v >= 5:
            ch += ["log"]
        if self.app:
            ch += ["gput", "lput", "gdel"]
        if self.app and v >= 5 and d > 0:
            ch += ["itxn"]
        if self.app and v >= 8:
            ch += ["box"]
        if loop and not novalue_ctrl:
            ch += ["break", "continue"]
        if not novalue_ctrl and r.random() < 0.25:
            ch += ["exit", "exit"]
        k = r.choice(ch)
        self.note("s:" + k)
        if k == "pop":
            return pt.Pop(self.u(d - 1) if r.random() < 0.5 else self.b(d - 1))
        if k == "store":
            ty = r.choice("ub")
            c = [x for x, t in self.vars if t == ty]
            val = self.u(d - 1) if ty == "u" else self.b(d - 1)
            var = r.choice(c) if c and r.random() < 0.6 else self.newvar(ty)
            return var.store(val)
        if k == "assert":
            cs = [self.u(d - 1) for _ in range(r.choice([1, 1, 2]))]
            if r.random() < 0.3:
                return pt.Assert(*cs, comment=r.choice(["c", "why not", "two\nlines", "semi;colon"]))
            return pt.Assert(*cs)
        if k == "comment":
            return pt.Comment(r.choice(["note", "a // b", "x\ny", "semi ; colon", "label:"]), pt.Pop(self.ul()))
        if k == "if":
            return pt.If(self.u(d - 1)).Then(self.block(d - 1, loop, novalue_ctrl))
        if k == "ifelse":
            e = pt.If(self.u(d - 1)).Then(self.block(d - 1, loop, novalue_ctrl))
            if r.random() < 0.3:
                e = e.ElseIf(self.u(d - 1)).Then(self.block(d - 1, loop, novalue_ctrl))
            return e.Else(self.block(d - 1, loop, novalue_ctrl))
        if k == "cond":
            return pt.Cond(*[[self.u(d - 1), self.block(d - 1, loop, novalue_ctrl)] for _ in range(r.choice([1, 2, 3]))])
        if k == "seq":
            return self.block(d - 1, loop, novalue_ctrl, force=True)
        if k == "while":
            i = self.newvar("u")
            return pt.Seq(i.store(pt.Int(0)),
                          pt.While(i.load() < self.ul()).Do(pt.Seq(i.store(i.load() + pt.Int(1)), self.block(d - 1, True, novalue_ctrl))))
        if k == "for":
            i = self.newvar("u")
            return pt.For(i.store(pt.Int(0)), i.load() < self.ul(), i.store(i.load() + pt.Int(1))).Do(self.block(d - 1, True, novalue_ctrl))
        if k in ("callnone", "callpop"):
            want = "n" if k == "callnone" else r.choice("ub")
            c = [s for s in self.subs if s["ret"] == want]
            if c:
                e = self.call(r.choice(c), d)
                return e if want == "n" else pt.Pop(e)
            return pt.Pop(self.ul())
        if k == "log":
            return pt.Log(self.b(d - 1))
        if k == "gput":
            return pt.App.globalPut(self.b(d - 1), self.u(d - 1) if r.random() < 0.5 else self.b(d - 1))
        if k == "lput":
            return pt.App.localPut(self.u(d - 1), self.b(d - 1), self.u(d - 1))
        if k == "gdel":
            return pt.App.globalDel(self.b(d - 1))
        if k == "itxn":
            ITB = pt.InnerTxnBuilder
            flds = {pt.TxnField.type_enum: pt.TxnType.Payment, pt.TxnField.amount: self.u(d - 1), pt.TxnField.receiver: self.b(d - 1)}
            if v >= 6 and r.random() < 0.5:
                return pt.Seq(ITB.Begin(), ITB.SetFields(flds), ITB.Next(), ITB.SetField(pt.TxnField.type_enum, pt.TxnType.Payment), ITB.Submit())
            return pt.Seq(ITB.Begin(), ITB.SetFields(flds), ITB.Submit())
        if k == "box":
            return r.choice([lambda: pt.BoxPut(self.b(d - 1), self.b(d - 1)), lambda: pt.Pop(pt.BoxCreate(self.b(d - 1), self.u(d - 1))),
                             lambda: pt.Pop(pt.BoxDelete(self.b(d - 1)))])()
        if k == "break":
            return pt.Break()
        if k == "continue":
            return pt.Continue()
        if k == "exit":
            if self.ret is None:
                return r.choice([pt.Approve, pt.Reject, lambda: pt.Return(self.u(d - 1))])()
            if r.random() < 0.2:
                return r.choice([pt.Approve, pt.Reject])()
            return self.ret_stmt(d)
        return pt.Pop(self.ul())

    def ret_stmt(self, d):
        pt = self.pt
        if self.ret == "n":
            return pt.Return()
        if self.ret == "u":
            return pt.Return(self.u(d - 1))
        if self.ret == "b":
            return pt.Return(self.b(d - 1))
        if self.ret == "abi":
            return pt.Return()
        return pt.Return(self.u(d - 1))

    def block(self, d, loop, novalue_ctrl=False, force=False):
        n = self.r.choice([0, 1, 1, 2, 3])
        st = [self.stmt(d, loop, novalue_ctrl) for _ in range(n)]
        if len(st) == 1 and not force and self.r.random() < 0.5:
            return st[0]
        return self.pt.Seq(*st)


def gen_subs_program(pt, seed, version, app):
    """A program with subroutines, reproducible from seed. Returns (expr, meta)."""
    rng = random.Random(seed)
    hist = {}
    nsub = rng.choice([0, 1, 2, 3, 3, 4, 6, 9, 15, 40]) if version >= 4 else 0
    subs = []
    names_used = []
    for k in range(nsub):
        abi = version >= 6 and rng.random() < 0.25
        if abi:
            kinds = [rng.choice(["au"]) for _ in range(rng.choice([0, 1, 2, 3, 16]) if rng.random() < 0.9 else 20)]
            ret = rng.choice(["u", "n"])
        else:
            kinds = [rng.choice(["u", "u", "b", "r"] if version >= 5 else ["u", "u", "b"]) for _ in range(rng.choice([0, 1, 1, 2, 3, 4]))]
            ret = rng.choice(["n", "u", "u", "b"])
        name = rng.choice(ODD_NAMES) if rng.random() < 0.6 else "sub%d" % k
        names_used.append(name)
        s = {"kinds": kinds, "ret": ret, "abi": abi, "seed": rng.randrange(1 << 30), "name": name}
        subs.append(s)
    # which subroutines each body may call: any (recursion and mutual recursion allowed) with some probability, else later ones only
    for k, s in enumerate(subs):
        allow_rec = rng.random() < 0.5
        # ABI subroutines are evaluated while the calling expression is built (ReturnedValue.store_into), so a cycle
        # through one never terminates in PyTeal itself: calls to ABI subroutines always go to a later one
        s["callees"] = [j for j in range(nsub) if (j > k) or (allow_rec and not subs[j]["abi"])]

    def make_wrapper(k, s):
        def body(params):
            r2 = random.Random(s["seed"])
            ps = []
            for kd, p in zip(s["kinds"], params):
                ps.append((kd, p))
            if s["abi"]:
                outp = params[len(s["kinds"])] if s["ret"] == "u" else None
            g = PG(pt, r2, version, app, subs=[subs[j] for j in s["callees"] if "wrapper" in subs[j]], params=ps,
                   ret=("abi" if s["abi"] else s["ret"]), size=r2.choice([4, 8, 15, 30]), hist=hist)
            stmts = [g.stmt(r2.choice([1, 2, 3]), False) for _ in range(r2.choice([0, 1, 2, 3]))]
            if s["abi"]:
                fin = outp.set(g.u(2)) if outp is not None else pt.Pop(g.ul())
                return pt.Seq(*g.inits(), *stmts, fin)
            if s["ret"] == "n":
                return pt.Seq(*g.inits(), *stmts) if r2.random() < 0.5 else pt.Seq(*g.inits(), *stmts, pt.Return())
            val = g.u(2) if s["ret"] == "u" else g.b(2)
            return pt.Seq(*g.inits(), *stmts, val) if r2.random() < 0.5 else pt.Seq(*g.inits(), *stmts, pt.Return(val))
        n = len(s["kinds"])
        if s["abi"]:
            names = ["p%d" % i for i in range(n)]
            if s["ret"] == "u":
                src = "def f(%s*, output):\n    return body([%s])\n" % ("".join(x + ", " for x in names), ", ".join(names + ["output"]))
            else:
                src = "def f(%s):\n    return body([%s])\n" % (", ".join(names), ", ".join(names))
            env = {"body": body}
            exec(src, env)
            f = env["f"]
            ann = {x: pt.abi.Uint64 for x in names}
            if s["ret"] == "u":
                ann["output"] = pt.abi.Uint64
            f.__annotations__ = ann
            f.__name__ = "m%d" % k
            w = pt.ABIReturnSubroutine(f, overriding_name=s["name"]) if _valid_abi_name(s["name"]) else pt.ABIReturnSubroutine(f)
            return w
        ann = {"p%d" % i: pt.ScratchVar for i, kd in enumerate(s["kinds"]) if kd == "r"}
        f = _fn(n, body, ann)
        rt = {"n": pt.TealType.none, "u": pt.TealType.uint64, "b": pt.TealType.bytes}[s["ret"]]
        return pt.Subroutine(rt, name=s["name"])(f)

    for k, s in enumerate(subs):
        s["wrapper"] = make_wrapper(k, s)
    g = PG(pt, rng, version, app, subs=subs, size=rng.choice([10, 20, 40, 80]), hist=hist)
    depth = rng.choice([1, 2, 3, 4])
    body = [g.stmt(depth, False) for _ in range(rng.choice([1, 2, 3, 5]))]
    # make sure most subroutines are reachable from main
    for s in subs:
        if rng.random() < 0.8:
            e = g.call(s, 2)
            body.append(e if s["ret"] == "n" else pt.Pop(e))
    rng.shuffle(body)
    fin = rng.choice(["approve", "return", "value", "value", "cond"])
    if fin == "approve":
        body.append(pt.Approve())
    elif fin == "return":
        body.append(pt.Return(g.u(2)))
    elif fin == "value":
        body.append(g.u(2))
    elif fin == "cond":
        body.append(pt.Cond([g.u(1), pt.Approve()], [g.u(1), pt.Reject()]))
    prog = pt.Seq(*g.inits(), *body)
    return prog, {"nsub": nsub, "names": names_used, "hist": hist, "fin": fin}


def _valid_abi_name(n):
    import re
    return bool(re.fullmatch(r"[_A-Za-z][A-Za-z0-9_]*", n))


def gen_names_program(pt, seed, version, app, newline=False):
    """Many subroutines whose names collide after sanitising / look like PyTeal's own labels."""
    rng = random.Random(seed)
    pool = list(ODD_NAMES)
    if newline:
        pool = ["foo\nbar:", "x\nmain_l0:", "y\nint 0\nreturn", "z\n", "w\r\nq", "v\n#pragma version 2", "u\nfrobnicate"]
    names = [rng.choice(pool) for _ in range(rng.choice([2, 3, 5, 12]))]
    if not newline and rng.random() < 0.5:
        names += [names[0], names[0]]                 # the same name several times
    subs = []
    for k, nm in enumerate(names):
        def body(params, k=k):
            r2 = random.Random(seed * 131 + k)
            i = pt.ScratchVar(pt.TealType.uint64)
            loop = pt.Seq(i.store(pt.Int(0)), pt.While(i.load() < pt.Int(2)).Do(i.store(i.load() + pt.Int(1))))
            inner = [loop] if r2.random() < 0.7 else []
            if subs and r2.random() < 0.6 and k > 0:
                inner.append(pt.Pop(subs[r2.randrange(0, k)](pt.Int(1))))
            return pt.Seq(*inner, pt.If(params[0]).Then(pt.Return(pt.Int(1))), pt.Int(k))
        subs.append(pt.Subroutine(pt.TealType.uint64, name=nm)(_fn(1, body)))
    i = pt.ScratchVar(pt.TealType.uint64)
    main = [pt.Seq(i.store(pt.Int(0)), pt.While(i.load() < pt.Int(2)).Do(i.store(i.load() + pt.Int(1))))]
    main += [pt.Pop(s(pt.Int(k))) for k, s in enumerate(subs)]
    return pt.Seq(*main, pt.Approve()), {"names": names}


def gen_router(pt, seed, version):
    """A random Router; returns (router, meta). compile with router.compile_program(version=...)."""
    rng = random.Random(seed)
    abi = pt.abi
    OCA, CC = pt.OnCompleteAction, pt.CallConfig
    def act():
        k = rng.choice(["never", "create", "call", "always"])
        a = rng.choice([pt.Approve(), pt.Seq(pt.Pop(pt.Int(1)), pt.Approve()), pt.Seq(pt.Assert(pt.Txn.fee() < pt.Int(5000)), pt.Approve())])
        return {"never": OCA.never(), "create": OCA.create_only(a), "call": OCA.call_only(a), "always": OCA.always(a)}[k]
    bca = pt.BareCallActions(no_op=act(), opt_in=act(), close_out=OCA.call_only(pt.Approve()) if rng.random() < 0.5 else OCA.never(),
                             update_application=OCA.never() if rng.random() < 0.5 else OCA.call_only(pt.Reject()),
                             delete_application=OCA.never() if rng.random() < 0.7 else OCA.call_only(pt.Approve()))
    clear = rng.choice([None, pt.Approve(), pt.Seq(pt.Pop(pt.Int(1)), pt.Approve())])
    if clear is None:
        router = pt.Router("r%d" % seed, bca, clear_state=pt.Approve())
    else:
        router = pt.Router("r%d" % seed, bca, clear_state=clear)
    TYPES = [abi.Uint64, abi.Uint8, abi.Uint16, abi.Uint32, abi.Bool, abi.Byte, abi.String, abi.Address, abi.DynamicBytes,
             abi.DynamicArray[abi.Uint64], abi.StaticArray[abi.Uint8, 4], abi.Tuple2[abi.Uint64, abi.String], abi.Account, abi.Asset,
             abi.Application, abi.PaymentTransaction, abi.Transaction]
    RET = [None, abi.Uint64, abi.String, abi.Bool, abi.Tuple2[abi.Uint64, abi.String], abi.DynamicArray[abi.Uint64]]
    nm = rng.choice([0, 1, 2, 3, 5])
    sigs = []
    for k in range(nm):
        nargs = rng.choice([0, 1, 2, 3, 15, 16, 18]) if rng.random() < 0.3 else rng.choice([0, 1, 2, 3])
        targs = [rng.choice(TYPES if nargs <= 3 else TYPES[:12]) for _ in range(nargs)]
        # transaction arguments must come before; keep them anywhere (PyTeal sorts out indices)
        ret = rng.choice(RET)
        names = ["a%d" % i for i in range(nargs)]
        src = "def meth%d(%s%s):\n    return body([%s])\n" % (k, "".join(x + ", " for x in names), "*, output" if ret is not None else "",
                                                              ", ".join(names + (["output"] if ret is not None else [])))
        def body(params, ret=ret, nargs=nargs):
            st = []
            for p in params[:nargs]:
                if isinstance(p, (abi.Uint64, abi.Uint8, abi.Uint16, abi.Uint32, abi.Bool, abi.Byte)):
                    st.append(pt.Pop(p.get()))
                elif isinstance(p, (abi.String, abi.Address, abi.DynamicBytes)):
                    st.append(pt.Pop(pt.Len(p.get())))
            if ret is None:
                return pt.Seq(*st, pt.Pop(pt.Int(1)))
            out = params[-1]
            if ret is abi.Uint64:
                return pt.Seq(*st, out.set(pt.Int(7)))
            if ret is abi.String:
                return pt.Seq(*st, out.set("hi"))
            if ret is abi.Bool:
                return pt.Seq(*st, out.set(pt.Int(1)))
            if ret is RET[4]:
                a, b = abi.Uint64(), abi.String()
                return pt.Seq(*st, a.set(pt.Int(1)), b.set("x"), out.set(a, b))
            a = abi.Uint64()
            return pt.Seq(*st, a.set(pt.Int(1)), out.set([a, a]))
        env = {"body": body}
        exec(src, env)
        f = env["meth%d" % k]
        ann = {n: t for n, t in zip(names, targs)}
        if ret is not None:
            ann["output"] = ret
        f.__annotations__ = ann
        kw = {}
        if rng.random() < 0.4:
            kw = {"no_op": rng.choice([CC.CALL, CC.ALL, CC.CREATE]), "opt_in": rng.choice([CC.NEVER, CC.CALL])}
        try:
            router.add_method_handler(pt.ABIReturnSubroutine(f), method_config=pt.MethodConfig(**kw) if kw else None)
            sigs.append((nargs, str(ret)))
        except pt.TealInputError:
            pass
    return router, {"methods": sigs}


def gen_consts_program(pt, n_int, n_bytes, repeat=2):
    """n distinct integer / byte constants, each used `repeat` times, in two n-ary expressions (no deep Seq)."""
    ia, ba = [], []
    for i in range(n_int):
        ia += [pt.Int(1000 + i)] * repeat
    for i in range(n_bytes):
        ba += [pt.Bytes("k%d" % i)] * repeat
    st = []
    if ia:
        st.append(pt.Pop(pt.Add(*ia) if len(ia) > 1 else ia[0]))
    if ba:
        st.append(pt.Pop(pt.Concat(*ba) if len(ba) > 1 else ba[0]))
    return pt.Seq(*st, pt.Approve())


FRAME_KINDS = ["plain", "abi_void", "abi_out"]
FRAME_LOCALS = [126, 127, 128, 129, 200]


def frames_cases():
    """[(kind, k locals, nargs)]"""
    return [(kd, k, na) for kd in FRAME_KINDS for k in FRAME_LOCALS for na in (0, 2)]


def gen_frames_program(pt, kind, k, nargs):
    """A subroutine whose body creates k ABI locals (each written, those around the 128 boundary read back)."""
    abi = pt.abi

    def locals_body(extra):
        vs = [abi.Uint64() for _ in range(k)]
        reads = [vs[i].get() for i in sorted(set([0, k // 2, k - 1] + [i for i in (125, 126, 127, 128, 129) if i < k]))]
        return [v.set(pt.Int(i + 1)) for i, v in enumerate(vs)], pt.Add(*(reads + extra)) if len(reads + extra) > 1 else (reads + extra)[0]

    if kind == "plain":
        def body(params):
            st, total = locals_body(list(params))
            return pt.Seq(*st, total)
        f = pt.Subroutine(pt.TealType.uint64, name="many_%d" % k)(_fn(nargs, body))
        return pt.Seq(pt.Pop(f(*[pt.Int(7)] * nargs)), pt.Approve())
    names = ["p%d" % i for i in range(nargs)]
    if kind == "abi_void":
        def body(params):
            st, total = locals_body([p.get() for p in params])
            return pt.Seq(*st, pt.Pop(total))
        src = "def f(%s):\n    return body([%s])\n" % (", ".join(names), ", ".join(names))
    else:
        def body(params):
            st, total = locals_body([p.get() for p in params[:-1]])
            return pt.Seq(*st, params[-1].set(total))
        src = "def f(%s*, output):\n    return body([%s])\n" % ("".join(x + ", " for x in names), ", ".join(names + ["output"]))
    env = {"body": body}
    exec(src, env)
    f = env["f"]
    ann = {x: abi.Uint64 for x in names}
    if kind == "abi_out":
        ann["output"] = abi.Uint64
    f.__annotations__ = ann
    f.__name__ = "many_%s_%d" % (kind, k)
    w = pt.ABIReturnSubroutine(f)
    args = []
    pre = []
    for _ in range(nargs):
        x = abi.Uint64()
        pre.append(x.set(pt.Int(3)))
        args.append(x)
    if kind == "abi_out":
        o = abi.Uint64()
        return pt.Seq(*pre, w(*args).store_into(o), pt.Pop(o.get()), pt.Approve())
    return pt.Seq(*pre, w(*args), pt.Approve())


# ------------------------------------------------------------------------------------------------
# routine tails
# ------------------------------------------------------------------------------------------------
X = "x"
TAIL_TEMPLATES = [
    ("cond", [X, X]), ("cond", [X, X, X]), ("if", X), ("ifelse", X, X), ("ifelif", X, X, X),
    ("cond", [("ifelse", X, X), X]), ("cond", [X, ("ifelse", X, X)]), ("ifelse", ("cond", [X, X]), X),
    ("ifelse", X, ("cond", [X, X])), ("cond", [X, ("cond", [X, X])]), ("ifelse", ("ifelse", X, X), X),
    ("cond", [X, X, ("if", X)]), ("ifelif", ("cond", [X, X]), X, X),
    # loop tails: the routine's last statement is a loop; inside a loop a staying leaf rotates over Break / Continue / plain
    ("while1", X), ("while2", X), ("whilec", X), ("for", X),
    ("while1", ("if", X)), ("while1", ("ifelse", X, X)), ("while2", ("if", X)), ("whilec", ("ifelse", X, X)), ("for", ("if", X)),
    ("while1", ("cond", [X, X])), ("for", ("ifelse", X, X)), ("ifelse", ("while1", ("if", X)), X), ("while1", ("while1", ("if", X))),
]
TAIL_WHERE = ["sub_none", "sub_none_prefix", "sub_value", "main"]


def _slots(t):
    if t == X:
        return 1
    if t[0] == "cond":
        return sum(_slots(a) for a in t[1])
    return sum(_slots(a) for a in t[1:])


def tails_cases():
    """[(template index, leave-pattern bitmask, where, followed-by-another-routine)]"""
    out = []
    for ti, t in enumerate(TAIL_TEMPLATES):
        n = _slots(t)
        for mask in range(1 << n):
            for w in TAIL_WHERE:
                for follow in (True, False):
                    if w == "main" and not follow:
                        continue
                    out.append((ti, mask, w, follow))
    return out


def gen_tail_program(pt, ti, mask, where, follow, app):
    """The routine under test ends in TAIL_TEMPLATES[ti]; leaf i leaves the routine iff bit i of mask is set."""
    I = pt.Int
    counter = [0]
    v = pt.ScratchVar(pt.TealType.uint64)
    in_sub = where != "main"
    value_sub = where == "sub_value"
    loop_depth = [0]
    w = pt.ScratchVar(pt.TealType.uint64)

    def leaf():
        i = counter[0]
        counter[0] += 1
        if loop_depth[0] and not (mask >> i) & 1:
            return [pt.Break, lambda: pt.Seq(pt.Pop(I(4)), pt.Break()), pt.Continue, lambda: pt.Pop(I(30 + i))][(i + mask) % 4]()
        if (mask >> i) & 1:
            if not in_sub:
                kinds = [lambda: pt.Return(I(1)), pt.Approve, pt.Reject, pt.Err]
            elif value_sub:
                kinds = [lambda: pt.Return(I(9)), pt.Reject, pt.Err, lambda: pt.Seq(pt.Pop(I(3)), pt.Return(I(8)))]
            else:
                kinds = [pt.Return, pt.Reject, pt.Approve, pt.Err, lambda: pt.Seq(pt.Pop(I(3)), pt.Return())]
            return kinds[(i + ti + mask) % len(kinds)]()
        return [lambda: pt.Pop(I(10 + i)), lambda: v.store(I(20 + i)), lambda: pt.Seq(pt.Pop(I(1)), v.store(I(2))), lambda: pt.Seq()][(i + mask) % 4]()

    def cond_expr():
        i = counter[0]
        return pt.Txn.fee() == I(100 + i) if i % 3 else I(1)

    def build(t):
        if t == X:
            return leaf()
        if t[0] == "cond":
            return pt.Cond(*[[cond_expr(), build(a)] for a in t[1]])
        if t[0] in ("while1", "while2", "whilec", "for"):
            loop_depth[0] += 1
            inner = build(t[1])
            loop_depth[0] -= 1
            step = w.store(w.load() + I(1))
            if t[0] == "for":
                return pt.For(w.store(I(0)), w.load() < I(3), step).Do(inner)
            c = {"while1": I(1), "while2": I(2), "whilec": w.load() < I(3)}[t[0]]
            return pt.Seq(w.store(I(0)), pt.While(c).Do(pt.Seq(step, inner)))
        if t[0] == "if":
            return pt.If(cond_expr()).Then(build(t[1]))
        if t[0] == "ifelse":
            c = cond_expr()
            a = build(t[1])
            return pt.If(c).Then(a).Else(build(t[2]))
        c1 = cond_expr()
        a = build(t[1])
        c2 = pt.Txn.fee() > I(5)
        b = build(t[2])
        return pt.If(c1).Then(a).ElseIf(c2).Then(b).Else(build(t[3]))

    tmpl = TAIL_TEMPLATES[ti]

    @pt.Subroutine(pt.TealType.uint64, name="after")
    def after(a):
        return a + I(1)

    if not in_sub:
        tail = build(tmpl)
        return pt.Seq(v.store(I(0)), pt.Pop(after(I(1))), tail)

    def body(params):
        tail = build(tmpl)
        pre = [v.store(params[0])] if where != "sub_none" else []
        if value_sub:
            return pt.Seq(*pre, tail, v.load() + I(5))
        return pt.Seq(*pre, tail) if pre else tail

    rt = pt.TealType.uint64 if value_sub else pt.TealType.none
    first = pt.Subroutine(rt, name="tail")(_fn(1, body))
    call = pt.Pop(first(I(3))) if value_sub else first(I(3))
    if follow:
        # `tail` was defined after `after`?  ids decide the order of emission: define a second follower after it
        @pt.Subroutine(pt.TealType.none, name="follower")
        def follower():
            return pt.Pop(I(77))
        return pt.Seq(v.store(I(0)), call, follower(), pt.Pop(after(I(1))), pt.Approve())
    return pt.Seq(v.store(I(0)), pt.Pop(after(I(1))), call, pt.Approve())
