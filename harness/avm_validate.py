"""avm_validate.py -- validation of the hand-written AVM model (coq/AVM/*.v, extracted to ocaml/pvmodel).

No AVM exists offline, so the model is kept honest by data that came from a real node upstream and is
stored in the repository, plus an independent second implementation of the pure opcodes:

  A. TEAL reader: every tracked *.teal/*.tealf file of the repository must parse.
  B. Scenario replay: tests/integration/graviton_test.py APP_SCENARIOS / LOGICSIG_SCENARIOS (inputs and the
     expected stackTop / lastLog / finalScratch / status / cost that a real node's dry-run produced) on the
     golden TEAL of tests/integration/teal/stability.
  C. ABI round-trip goldens tests/integration/teal/roundtrip/*_v6.teal, *_v8.teal: the log must be
     0x151f7c75 ++ encode((x, complement x, x)) as computed with algosdk.abi (v8 = frame pointers: decisive
     for the retsub-under-proto rule).
  D. Pure opcodes: coq/AVM/Ops.v exec_pure against harness/avm_ref.py on boundary-biased operands.
  E. Directed machine-level programs (control flow, frames, scratch, constant blocks, limits) with the
     result the AVM specification prescribes, and the remaining small goldens of the repository
     (tests/unit/teal/blackbox, tests/unit/teal/user_guide) with their documented behaviour.

A disagreement is a defect of the MODEL (or of this validator): it is reported with ck.model_problem(...)
(exit status 2, "MODEL-VALIDATION-FAILED"), never as a PyTeal violation.

    validate(ck, model, thorough=False) -> dict      (used by harness/c01.py)
    /venv/bin/python harness/avm_validate.py [--thorough] [--section A,B,..]   (exit 0 / 2)
"""
import hashlib
import os
import random
import re
import subprocess
import sys
import time

sys.path.insert(0, os.path.dirname(os.path.abspath(__file__)))
import common  # noqa: E402
from common import S, Model  # noqa: E402
import avm_ref  # noqa: E402

TESTS = os.path.join(common.REPO, "tests")
STABILITY = os.path.join(TESTS, "integration", "teal", "stability")
ROUNDTRIP = os.path.join(TESTS, "integration", "teal", "roundtrip")
CORPUS = os.path.join(os.path.dirname(os.path.abspath(__file__)), "corpus", "avm")

APP_BUDGET = 700          # MaxAppProgramCost
LSIG_BUDGET = 20000       # LogicSigMaxCost
ABI_RETURN_PREFIX = bytes.fromhex("151f7c75")
MAXU64 = (1 << 64) - 1


# =================================================================================================
# talking to the model
# =================================================================================================
def selector(sig):
    h = hashlib.new("sha512_256")
    h.update(sig.encode())
    return h.digest()[:4]


def method_sigs(text):
    return sorted(set(re.findall(r'^\s*method\s+"([^"]*)"', text, re.M)))


def make_ctx(app, args, fuel, text="", extra_fields=(), globals_=None, gstate=()):
    """The transaction context of a dry-run of a single application call / logic signature."""
    fields = [("Fee", 1000), ("FirstValid", 1), ("LastValid", 1001), ("Amount", 0), ("GroupIndex", 0),
              ("TypeEnum", 6 if app else 1), ("Sender", bytes(32)), ("Receiver", bytes(32)), ("Note", b""),
              ("NumAppArgs", len(args) if app else 0), ("ApplicationID", 77 if app else 0), ("OnCompletion", 0),
              ("RekeyTo", bytes(32)), ("NumAccounts", 0), ("NumAssets", 0), ("NumApplications", 0)]
    fields = [f for f in fields if f[0] not in dict(extra_fields)] + list(extra_fields)
    gl = globals_ if globals_ is not None else [
        ("MinTxnFee", 1000), ("MinBalance", 100000), ("MaxTxnLife", 1000), ("GroupSize", 1), ("ZeroAddress", bytes(32)),
        ("LogicSigVersion", 10), ("Round", 1), ("LatestTimestamp", 1), ("CurrentApplicationID", 77)]
    ctx = [S("ctx"), (S("mode"), S("app") if app else S("sig")), (S("gi"), 0), (S("app-id"), 77),
           (S("group"), ((S("fields"),) + tuple(fields), (S("arrays"), ("ApplicationArgs", tuple(args if app else ()))))),
           (S("globals"),) + tuple(gl),
           (S("args"),) + tuple(() if app else args),
           (S("gstate"),) + tuple(gstate),
           (S("msel"),) + tuple((s, selector(s)) for s in method_sigs(text)),
           (S("fuel"), fuel)]
    return tuple(ctx)


class _BinModel(Model):
    """A model process started from an explicit binary (self-tests of this validation against deliberately
    broken variants of the AVM model: AVM_VALIDATE_BIN=/path/to/pvmodel)."""

    def __init__(self, binary):
        import resource

        def _big_stack():
            try:
                resource.setrlimit(resource.RLIMIT_STACK, (1 << 29, resource.getrlimit(resource.RLIMIT_STACK)[1]))
            except Exception:
                pass
        self.p = subprocess.Popen([binary], preexec_fn=_big_stack, stdin=subprocess.PIPE, stdout=subprocess.PIPE, text=True, encoding="latin-1", bufsize=1)
        self.n = 0


def new_model():
    b = os.environ.get("AVM_VALIDATE_BIN")
    return _BinModel(b) if b else Model("main")


class Res:
    """Decoded (ran ...) response.  stack: bottom first (the wire has the top first)."""
    __slots__ = ("raw", "ok", "verdict", "stack", "logs", "trace", "scratch", "pc")

    def __init__(self, raw):
        self.raw = raw
        self.ok = isinstance(raw, list) and len(raw) >= 6 and raw[0] == S("ran")
        if not self.ok:
            self.verdict = "parse-error" if raw == [S("parse-error")] else "error:" + repr(raw)[:120]
            self.stack, self.logs, self.trace, self.scratch, self.pc = [], [], [], {}, -1
            return
        v = raw[1]
        self.verdict = v.name if isinstance(v, common.Sym) else "unsup:" + str(v[1])
        self.stack = list(reversed(raw[2][1:]))
        self.trace = raw[3][1:]
        self.logs = [e[1] for e in self.trace if e[0] == S("log")]
        self.scratch = {k: v for k, v in raw[4][1]}
        self.pc = raw[5][1]

    @property
    def top(self):
        return self.stack[-1] if self.stack else None


def run(model, ctx, text):
    return Res(model.ask((S("run"), ctx, text)))


def run_enough(model, mkctx, text, start=4000, limit=4000000):
    """Run with growing fuel until the model gives a verdict other than `fuel` (the wire converts the fuel to
    a unary number: a large fuel costs time even for a short run)."""
    fuel = start
    while True:
        r = run(model, mkctx(fuel), text)
        if r.verdict != "fuel" or fuel >= limit:
            return r
        fuel = min(limit, fuel * 8)


def instructions(text):
    """Opcode mnemonic of each instruction of a TEAL text, in model pc order (labels, pragmas, comments and
    blank lines are not instructions).  Only used on goldens whose literals contain neither '//' nor ';'."""
    out = []
    for line in text.split("\n"):
        line = line.split("//")[0].strip()
        if not line or line.startswith("#pragma") or re.fullmatch(r"[A-Za-z_][A-Za-z0-9_]*:", line):
            continue
        out.append(line.split()[0])
    return out


def steps_executed(model, mkctx, text, hi=1 << 12):
    """Number of instructions the model executes: the least fuel with a verdict other than `fuel`
    (programs ending in `return`/`err`/a failing op; a program running off its end needs one extra step)."""
    while run(model, mkctx(hi), text).verdict == "fuel":
        if hi >= (1 << 22):
            return None
        hi *= 4
    res_hi = run(model, mkctx(hi), text)
    off_end = res_hi.ok and res_hi.pc == len(instructions(text))
    lo = 1
    while lo < hi:
        mid = (lo + hi) // 2
        if run(model, mkctx(mid), text).verdict == "fuel":
            lo = mid + 1
        else:
            hi = mid
    return lo - (1 if off_end else 0)


class Report:
    """Collects disagreements; forwards them to ck.model_problem."""

    def __init__(self, ck):
        self.ck = ck
        self.problems = []
        self.counts = {}
        self.extra = {}

    def count(self, key, n=1):
        self.counts[key] = self.counts.get(key, 0) + n

    def problem(self, section, what):
        msg = "AVM model validation [%s]: %s" % (section, what)
        self.problems.append(msg)
        if len(self.problems) <= 40 and self.ck is not None:
            self.ck.model_problem(msg[:900])


# =================================================================================================
# A. the TEAL reader accepts every TEAL file of the repository
# =================================================================================================
def repo_teal_files():
    rc, out = common.sh("git -C %s ls-files" % common.REPO)
    files = [f for f in out.split("\n") if f.endswith(".teal") or f.endswith(".tealf")] if rc == 0 else []
    if not files:   # not a git checkout: walk
        for root, _, fs in os.walk(common.REPO):
            if "/." in root or "generated" in root:
                continue
            files += [os.path.relpath(os.path.join(root, f), common.REPO) for f in fs if f.endswith((".teal", ".tealf"))]
    return sorted(files)


def parse_tasks(thorough=False):
    """Files under roundtrip/ and stability/ are parsed when they are executed (sections B, C): a parse error
    there is reported by those sections.  Everything else is parsed here, in batches."""
    files = repo_teal_files()
    executed = [f for f in files if "/teal/roundtrip/" in f or "/teal/stability/" in f]
    rest = [f for f in files if f not in set(executed)]
    rest.sort(key=lambda f: -os.path.getsize(os.path.join(common.REPO, f)))
    tasks = [("parse", (rest[i:i + 6], thorough)) for i in range(0, len(rest), 6)]
    return tasks, len(executed)


def do_parse(model, payload):
    files, thorough = payload
    rep = Report(None)
    for f in files:
        text = open(os.path.join(common.REPO, f), encoding="utf-8").read()
        rep.count("parse.files")
        r = run(model, make_ctx(True, [], 0, text), text)
        if "TMPL_" in text:       # template placeholders: not assemblable as they stand
            rep.count("parse.templates_must_not_parse")
            if r.ok:
                rep.problem("parse", "%s contains TMPL_ placeholders but the reader accepted it" % f)
            continue
        if not r.ok:
            rep.problem("parse", "golden %s is not accepted by AVM/Parse.v: %s" % (f, r.verdict))
    return rep


def opcode_histogram():
    hist = {}
    for f in repo_teal_files():
        text = open(os.path.join(common.REPO, f), encoding="utf-8").read()
        if "TMPL_" in text:
            continue
        for op in instructions(text):
            hist[op] = hist.get(op, 0) + 1
    return hist


# =================================================================================================
# B. scenario replay (tests/integration/graviton_test.py)
# =================================================================================================
def enc_arg(x):
    """graviton DryRunEncoder: ints are 8-byte big-endian, str utf-8, bytes as they are."""
    if isinstance(x, int):
        return x.to_bytes(8, "big")
    if isinstance(x, str):
        return x.encode("utf-8")
    return bytes(x)


def hx(x):
    return enc_arg(x).hex()


def hx0(x):
    return "0x" + hx(x)


def fac_with_overflow(n):
    if n < 2:
        return 1
    if n > 20:
        return 2432902008176640000
    return n * fac_with_overflow(n - 1)


def fib(n):
    a, b = 0, 1
    for _ in range(n):
        a, b = b, a + b
    return a


ANY = object()   # "the table does not constrain this"

# Transcription of APP_SCENARIOS (graviton_test.py lines 166-321).  Each entry: inputs, and functions of the
# input tuple for every asserted dry-run property.  `cost` is a predicate on the cost; `scratch` is either an
# exact dict (dry-run omits zero-valued slots), or ("values-superset", set).  maxStackHeight is not observable
# on the model and is not transcribed.
APP_SCENARIOS = {
    "exp": dict(
        inputs=[()],
        cost=lambda a, c: c in (11, 12),
        lastLog=lambda a: hx(2 ** 10),
        scratch=lambda a: {0: 1024},
        stackTop=lambda a: 1024,
        status=lambda a: "PASS",
        error=lambda a: None),
    "square_byref": dict(
        inputs=[(i,) for i in range(100)],
        cost=lambda a, c: 20 < c < 24,
        lastLog=lambda a: hx(1337),
        scratch=lambda a: ("values-superset", {1, 1337, (a[0] ** 2 if a[0] else 1)}),
        stackTop=lambda a: 1337,
        status=lambda a: "PASS",
        error=lambda a: None),
    "square": dict(
        inputs=[(i,) for i in range(100)],
        cost=lambda a, c: c == 14,
        lastLog=lambda a: hx(a[0] * a[0]),
        scratch=lambda a: ({0: a[0] ** 2, 1: a[0]} if a[0] else {}),
        stackTop=lambda a: a[0] ** 2,
        status=lambda a: "PASS" if a[0] > 0 else "REJECT",
        error=lambda a: None),
    "swap": dict(
        inputs=[(1, 2), (1, "two"), ("one", 2), ("one", "two")],
        cost=lambda a, c: c in (27, 30),
        lastLog=lambda a: hx(1337),
        scratch=lambda a: {0: 1337, 1: hx0(a[1]), 2: hx0(a[0]), 3: 1, 4: 2, 5: hx0(a[0])},
        stackTop=lambda a: 1337,
        status=lambda a: "PASS",
        error=lambda a: None),
    "string_mult": dict(
        inputs=[("xyzw", i) for i in range(100)],
        lastLog=lambda a: hx(a[0] * a[1]),
        scratch=lambda a: ({0: hx0(a[0] * a[1]), 1: hx0(a[0] * a[1]), 2: 1, 3: a[1], 4: a[1] + 1, 5: hx0(a[0])}
                           if a[1] else {2: 1, 4: a[1] + 1, 5: hx0(a[0])}),
        stackTop=lambda a: len(a[0] * a[1]),
        status=lambda a: "PASS" if 0 < a[1] < 45 else "REJECT",     # REJECT for n >= 45 is the 700 budget
        error=lambda a: None),
    "oldfac": dict(
        inputs=[(i,) for i in range(25)],
        lastLog=lambda a: hx(fac_with_overflow(a[0])) if a[0] < 21 else None,
        scratch=lambda a: ({1: a[0], 0: fac_with_overflow(a[0])} if 0 < a[0] < 21
                           else ({1: min(21, a[0])} if a[0] else {0: fac_with_overflow(a[0])})),
        stackTop=lambda a: fac_with_overflow(a[0]),
        status=lambda a: "PASS" if a[0] < 21 else "REJECT",
        error=lambda a: None if a[0] < 21 else "overflowed"),
    "slow_fibonacci": dict(
        inputs=[(i,) for i in range(17)],
        lastLog=lambda a: hx(fib(a[0])),
        scratch=lambda a: ({1: a[0], 0: fib(a[0])} if 0 < a[0] < 17 else {}),
        stackTop=lambda a: fib(a[0]),
        status=lambda a: "PASS" if 0 < a[0] < 8 else "REJECT",      # REJECT for n >= 8 is the 700 budget
        error=lambda a: None),
}

# LOGICSIG_SCENARIOS (lines 325-459): no cost, no logs.  The finalScratch entries of that table are copies
# of the application table (upstream skips them: SKIP_SCRATCH_ASSERTIONS) and do not fit the slot allocation
# of the lsig goldens, whose wrapper has no result variable.  `scratch` below is therefore the table's entry
# transported to the golden's slots by reading the golden (second-author expectation, marked "derived").
LSIG_SCENARIOS = {
    "exp": dict(inputs=[()], scratch=lambda a: {}, stackTop=lambda a: 1024, status=lambda a: "PASS", error=lambda a: None),
    "square_byref": dict(
        inputs=[(i,) for i in range(100)],
        scratch=lambda a: {0: 1, 1: a[0] ** 2},                                          # derived
        stackTop=lambda a: 1337, status=lambda a: "PASS", error=lambda a: None),
    "square": dict(
        inputs=[(i,) for i in range(100)],
        scratch=lambda a: {0: a[0]},                                                     # derived
        stackTop=lambda a: a[0] ** 2, status=lambda a: "PASS" if a[0] > 0 else "REJECT", error=lambda a: None),
    "swap": dict(
        inputs=[(1, 2), (1, "two"), ("one", 2), ("one", "two")],
        scratch=lambda a: {0: 3, 1: 4, 2: hx0(a[0]), 3: hx0(a[1]), 4: hx0(a[0])},         # derived
        stackTop=lambda a: 1337, status=lambda a: "PASS", error=lambda a: None),
    "string_mult": dict(
        inputs=[("xyzw", i) for i in range(100)],
        scratch=lambda a: {0: 4, 1: a[1], 2: a[1] + 1, 3: hx0(a[0]), 4: hx0(a[0] * a[1])},  # derived
        stackTop=lambda a: len(a[0] * a[1]), status=lambda a: "PASS" if a[1] else "REJECT", error=lambda a: None),
    "oldfac": dict(
        inputs=[(i,) for i in range(25)],
        scratch=lambda a: {0: min(21, a[0])},                                            # derived
        stackTop=lambda a: fac_with_overflow(a[0]), status=lambda a: "PASS" if a[0] < 21 else "REJECT",
        error=lambda a: None if a[0] < 21 else "overflowed"),
    "slow_fibonacci": dict(
        inputs=[(i,) for i in range(17)],
        scratch=lambda a: {0: a[0]},                                                     # derived
        stackTop=lambda a: (fib(a[0]) if a[0] < 15 else ANY),
        status=lambda a: "PASS" if 0 < a[0] < 15 else "REJECT",     # REJECT for n >= 15 is the 20000 budget
        error=lambda a: None if a[0] < 15 else "dynamic cost budget exceeded"),
}


def norm_scratch(model_scratch):
    """dry-run view of the scratch space: zero-valued slots (uint64 0, empty bytes) are not reported; bytes as 0xHEX."""
    out = {}
    for k, v in model_scratch.items():
        if isinstance(v, int):
            if v != 0:
                out[k] = v
        elif len(v):
            out[k] = "0x" + v.hex()
    return out


def scenario_tasks(thorough):
    tasks = []
    for mode, table in (("app", APP_SCENARIOS), ("lsig", LSIG_SCENARIOS)):
        for name, sc in table.items():
            n = len(sc["inputs"])
            step = 20
            for i in range(0, n, step):
                tasks.append(("scenario", (mode, name, i, min(n, i + step), thorough)))
    return tasks


def drop_zero(d):
    return {k: v for k, v in d.items() if v != 0 and v != "0x"}


def do_scenario(model, payload):
    mode, name, lo, hi, thorough = payload
    rep = Report(None)
    costs = rep.extra.setdefault("costs", {})
    app = mode == "app"
    table, budget = (APP_SCENARIOS, APP_BUDGET) if app else (LSIG_SCENARIOS, LSIG_BUDGET)
    sc = table[name]
    path = os.path.join(STABILITY, "%s_%s.teal" % (mode, name))
    if not os.path.exists(path):
        rep.problem("scenario", "golden %s is missing" % path)
        return rep
    text = open(path).read()
    ins = instructions(text)
    inputs = sc["inputs"]
    for a in inputs[lo:hi]:
        args = [enc_arg(x) for x in a]
        tag = "%s %s%r" % (mode, name, a)
        mk = lambda fuel: make_ctx(app, args, fuel, text)   # noqa: E731
        r = run_enough(model, mk, text)
        rep.count("scenario.runs")
        if not r.ok or r.verdict == "fuel" or r.verdict.startswith("unsup"):
            rep.problem("scenario", "%s: the model gives no verdict (%s)" % (tag, r.verdict))
            continue
        exp_status, exp_err = sc["status"](a), sc["error"](a)
        # --- verdict.  A REJECT of the table is either a zero return value, a failing opcode, or (the
        #     table's own comments) the cost budget of the dry-run: decide with the number of executed steps.
        within = run(model, mk(budget), text).verdict != "fuel"
        rep.count("scenario.runs")
        if exp_err == "overflowed":
            ok = r.verdict == "fail" and 0 <= r.pc < len(ins) and ins[r.pc] == "*"
            what = "expected a failing `*` (overflow)"
        elif exp_err == "dynamic cost budget exceeded":
            ok, what = (not within), "expected more than %d executed instructions" % budget
        elif exp_status == "PASS":
            ok, what = (r.verdict == "approve" and within), "expected approve within %d instructions" % budget
        else:
            ok, what = (r.verdict == "reject" or (r.verdict == "approve" and not within)), \
                "expected reject, or approve beyond the budget of %d" % budget
        if not ok:
            rep.problem("scenario", "%s: status %s in the table, model verdict=%s pc=%d within-budget=%s (%s)"
                        % (tag, exp_status, r.verdict, r.pc, within, what))
        rep.count("scenario.status")
        if exp_err == "dynamic cost budget exceeded":
            continue      # the node stopped the program: nothing else is asserted
        # --- top of stack (at the failing instruction when the program failed)
        want = sc["stackTop"](a)
        if want is not ANY:
            rep.count("scenario.stackTop")
            if r.top != want:
                rep.problem("scenario", "%s: stackTop %r expected, model %r" % (tag, want, r.top))
        # --- logs
        if app:
            want = sc["lastLog"](a)
            got = r.logs[-1].hex() if r.logs else None
            rep.count("scenario.lastLog")
            if got != want:
                rep.problem("scenario", "%s: lastLog %r expected, model %r" % (tag, want, got))
            if len(r.logs) != (0 if want is None else 1):
                rep.problem("scenario", "%s: %d logs, the wrapper logs exactly once" % (tag, len(r.logs)))
        elif r.logs:
            rep.problem("scenario", "%s: a logic signature produced logs" % tag)
        # --- final scratch
        want = sc["scratch"](a)
        got = norm_scratch(r.scratch)
        rep.count("scenario.finalScratch")
        if isinstance(want, tuple):
            if not want[1].issubset(set(got.values())):
                rep.problem("scenario", "%s: finalScratch values %r expected among %r" % (tag, want[1], got))
        elif got != drop_zero(want):
            rep.problem("scenario", "%s: finalScratch %r expected, model %r" % (tag, drop_zero(want), got))
        # --- cost (every opcode of these programs costs 1: cost = executed instructions)
        if "cost" in sc and (thorough or a in (inputs[0], inputs[-1], inputs[len(inputs) // 2])):
            c = steps_executed(model, mk, text)
            rep.count("scenario.cost")
            costs[tag] = c
            if c is None or not sc["cost"](a, c):
                rep.problem("scenario", "%s: cost %r does not satisfy the table's assertion" % (tag, c))
        # the budget thresholds the table asserts, as exact step counts
        if name in ("slow_fibonacci", "string_mult") and (thorough or a[-1] in ((7, 8, 44, 45) if app else (14, 15))):
            costs[tag] = steps_executed(model, mk, text)
    return rep


# =================================================================================================
# C. ABI round-trip goldens
# =================================================================================================
DEFAULT_DYNAMIC_ARRAY_LENGTH = 3    # tests/abi_roundtrip.py


def rt_value(t, rng, length):
    """A value of algosdk type t; dynamic things directly at the top have `length` elements, nested ones 3
    (the golden programs hard-code the element count they copy, see tests/abi_roundtrip.py)."""
    from algosdk import abi
    if isinstance(t, abi.BoolType):
        return rng.random() < 0.5
    if isinstance(t, abi.ByteType):
        return rng.choice([0, 1, 127, 128, 255, rng.randrange(256)])
    if isinstance(t, abi.UintType):
        m = (1 << t.bit_size) - 1
        return rng.choice([0, 1, m, m - 1, m >> 1, (m >> 1) + 1, rng.randrange(m + 1), rng.randrange(m + 1)])
    if isinstance(t, abi.AddressType):
        return bytes(rng.choice([0, 255, rng.randrange(256)]) if rng.random() < 0.3 else rng.randrange(256) for _ in range(32))
    if isinstance(t, abi.StringType):
        n = DEFAULT_DYNAMIC_ARRAY_LENGTH if length is None else length
        return "".join(chr(rng.choice([0x20, 0x7e, 0x41, rng.randrange(1, 128)])) for _ in range(n))
    if isinstance(t, abi.ArrayStaticType):
        return [rt_value(t.child_type, rng, None) for _ in range(t.static_length)]
    if isinstance(t, abi.ArrayDynamicType):
        n = DEFAULT_DYNAMIC_ARRAY_LENGTH if length is None else length
        return [rt_value(t.child_type, rng, None) for _ in range(n)]
    if isinstance(t, abi.TupleType):
        return [rt_value(c, rng, None) for c in t.child_types]
    raise ValueError("rt_value: %s" % t)


def rt_complement(t, v):
    """tests/abi_roundtrip.py mutator_factory: bool -> not, uintN/byte -> max - x, string -> reversed,
    arrays (address and byte strings included) and tuples element-wise."""
    from algosdk import abi
    if isinstance(t, abi.BoolType):
        return not v
    if isinstance(t, abi.ByteType):
        return 255 - v
    if isinstance(t, abi.UintType):
        return (1 << t.bit_size) - 1 - v
    if isinstance(t, abi.AddressType):
        return bytes(255 - b for b in v)
    if isinstance(t, abi.StringType):
        return v[::-1]
    if isinstance(t, (abi.ArrayStaticType, abi.ArrayDynamicType)):
        return [rt_complement(t.child_type, x) for x in v]
    if isinstance(t, abi.TupleType):
        return [rt_complement(c, x) for c, x in zip(t.child_types, v)]
    raise ValueError("rt_complement: %s" % t)


def roundtrip_tasks(thorough, rng):
    """One task per golden; the values are generated here (deterministic in the seed)."""
    from algosdk import abi
    tasks, problems = [], []
    files = sorted(f for f in os.listdir(ROUNDTRIP) if f.endswith(".teal"))
    per_file = 6 if thorough else 2
    for f in files:
        m = re.fullmatch(r"app_roundtrip_(.*?)(?:_(\d+))?_v(\d+)\.teal", f)
        if not m:
            problems.append("unexpected file name %s" % f)
            continue
        tstr, length, version = m.group(1), (int(m.group(2)) if m.group(2) else None), int(m.group(3))
        t = abi.ABIType.from_string(tstr)
        out_t = abi.TupleType([t, t, t])
        size = os.path.getsize(os.path.join(ROUNDTRIP, f))
        cases = []
        for k in range(1 if (size > 12000 and not thorough) else per_file):
            x = rt_value(t, rng, length)
            c = rt_complement(t, x)
            cases.append((t.encode(x), ABI_RETURN_PREFIX + out_t.encode([x, c, x]), repr(x)[:300]))
        tasks.append(("roundtrip", (f, version, cases, size)))
    tasks.sort(key=lambda t: -t[1][3])
    return tasks, problems


def do_roundtrip(model, payload):
    f, version, cases, _ = payload
    rep = Report(None)
    text = open(os.path.join(ROUNDTRIP, f)).read()
    ins = instructions(text)
    rep.count("roundtrip.files")
    for arg, want, xr in cases:
        r = run_enough(model, lambda fuel: make_ctx(True, [arg], fuel, text), text)
        rep.count("roundtrip.runs")
        rep.count("roundtrip.runs_v%d" % version)
        tag = "%s x=%s" % (f, xr)
        if r.verdict != "approve":
            rep.problem("roundtrip", "%s: verdict %s at pc %d (%s), approve expected" % (
                tag, r.verdict, r.pc, (ins[r.pc:r.pc + 1] or ["end"])[0] if r.pc >= 0 else "?"))
            continue
        if len(r.logs) != 1 or r.logs[0] != want:
            rep.problem("roundtrip", "%s: log %s expected (x, complement x, x), model logged %s" % (
                tag, want.hex()[:200], [l.hex()[:200] for l in r.logs]))
            continue
        if r.top != 1:
            rep.problem("roundtrip", "%s: return value %r, 1 expected" % (tag, r.top))
    return rep


# =================================================================================================
# D. pure opcodes against avm_ref.py
# =================================================================================================
INT_POOL = [0, 1, 2, 3, 7, 8, 9, 15, 16, 31, 32, 33, 63, 64, 65, 127, 128, 255, 256, 257, 4095, 4096, 4097, 65535, 65536,
            (1 << 31), (1 << 32) - 1, (1 << 32), (1 << 32) + 1, (1 << 53), (1 << 62), (1 << 63) - 1, (1 << 63), (1 << 63) + 1,
            MAXU64 - 1, MAXU64]
LEN_POOL = [0, 1, 2, 3, 7, 8, 9, 15, 16, 17, 31, 32, 33, 63, 64, 65, 127, 128, 129]


class Big:
    """A long byte string built inside the program (prefix ++ zeros ++ suffix): literals of thousands of
    bytes are slow to read."""
    __slots__ = ("pre", "n", "suf")

    def __init__(self, pre, n, suf):
        self.pre, self.n, self.suf = bytes(pre), n, bytes(suf)

    def value(self):
        return self.pre + bytes(self.n) + self.suf


def rint(rng):
    k = rng.random()
    if k < 0.55:
        return rng.choice(INT_POOL)
    if k < 0.8:
        return rng.getrandbits(rng.choice([1, 4, 8, 16, 31, 32, 33, 48, 63, 64]))
    return max(0, min(MAXU64, rng.choice(INT_POOL) + rng.choice([-2, -1, 1, 2])))


def rbytes_len(rng, n):
    k = rng.random()
    if n == 0:
        return b""
    if k < 0.15:
        return bytes(n)
    if k < 0.3:
        return b"\xff" * n
    if k < 0.45:
        return bytes(n - 1) + bytes([rng.randrange(1, 256)])
    if k < 0.6:
        z = rng.randrange(0, n)
        return bytes(z) + bytes(rng.randrange(256) for _ in range(n - z))
    if k < 0.7:
        return bytes([0x80]) + bytes(n - 1)
    return bytes(rng.randrange(256) for _ in range(n))


def rbytes(rng, maxlen=129):
    k = rng.random()
    if k < 0.7:
        n = rng.choice([x for x in LEN_POOL if x <= maxlen])
    else:
        n = rng.randrange(0, min(maxlen, 70) + 1)
    return rbytes_len(rng, n)


def rbig(rng):
    n = rng.choice([4095, 4096, 4096, 4094, 2048, 2049, 4032, 4033])
    pre = bytes(rng.randrange(256) for _ in range(rng.choice([0, 1, 2])))
    suf = bytes(rng.randrange(256) for _ in range(rng.choice([0, 1, 2])))
    return Big(pre, max(0, n - len(pre) - len(suf)), suf)


def rany(rng):
    return rint(rng) if rng.random() < 0.5 else rbytes(rng, 33)


def rof(rng, t, bmax=129):
    return rint(rng) if t == "u" else (rbytes(rng, bmax) if t == "b" else rany(rng))


def near(rng, n, extra=()):
    """indices around n"""
    c = [0, 1, n - 1, n, n + 1, n // 2, n + 8, 2 * n, (1 << 32), MAXU64] + list(extra)
    return max(0, rng.choice(c))


BYTEMATH = ["b+", "b-", "b*", "b/", "b%", "b<", "b>", "b<=", "b>=", "b==", "b!=", "b|", "b&", "b^"]


def special_cases(op, rng, n):
    """Boundary-directed operand tuples for `op`: list of (imms, operands deepest first)."""
    out = []
    add = lambda imms, *ops: out.append((list(imms), list(ops)))  # noqa: E731
    for _ in range(n):
        if op in ("+", "addw"):
            a = rint(rng); add((), a, max(0, min(MAXU64, MAXU64 - a + rng.choice([-1, 0, 1, 2]))))
        elif op == "-":
            a = rint(rng); add((), a, max(0, min(MAXU64, a + rng.choice([-1, 0, 1]))))
        elif op in ("*", "mulw"):
            a = rng.choice([rint(rng), 1 << rng.randrange(1, 64), (1 << 32) - 1, (1 << 32) + 1]) or 1
            add((), a, max(0, min(MAXU64, MAXU64 // a + rng.choice([-1, 0, 1, 2]))))
        elif op in ("/", "%"):
            add((), rint(rng), rng.choice([0, 1, 2, rint(rng)]))
        elif op in ("exp", "expw"):
            lim = 64 if op == "exp" else 128
            a = rng.choice([0, 1, 2, 3, 4, 10, 255, 256, 65535, 65536, (1 << 32) - 1, 1 << 32, (1 << 32) + 1, 1 << 63, MAXU64, rint(rng)])
            if a >= 2:
                e = 0
                while a ** (e + 1) < (1 << lim):
                    e += 1
                b = rng.choice([0, 1, e - 1, e, e + 1, e + 2, lim - 1, lim, lim + 1, MAXU64])
            else:
                b = rng.choice([0, 1, 2, 63, 64, 65, 127, 128, 129, MAXU64, rint(rng)])
            add((), a, max(0, b))
        elif op in ("shl", "shr"):
            add((), rint(rng), rng.choice([0, 1, 31, 32, 62, 63, 64, 65, 255, MAXU64, rng.randrange(64)]))
        elif op == "sqrt":
            r = rng.choice([0, 1, 2, 3, (1 << 16), (1 << 32) - 1, rng.getrandbits(32), rng.getrandbits(rng.randrange(1, 33))])
            add((), max(0, min(MAXU64, r * r + rng.choice([-1, 0, 1]))))
        elif op == "divw":
            c = rng.choice([0, 1, 2, rint(rng), rint(rng)])
            a = max(0, min(MAXU64, c + rng.choice([-2, -1, 0, 1]))) if rng.random() < 0.6 else rint(rng)
            add((), a, rint(rng), c)
        elif op == "divmodw":
            k = rng.random()
            if k < 0.15:
                add((), rint(rng), rint(rng), 0, 0)
            elif k < 0.5:
                add((), rint(rng), rint(rng), 0, rint(rng))
            else:
                add((), rint(rng), rint(rng), rint(rng), rint(rng))
        elif op == "btoi":
            add((), rbytes_len(rng, rng.choice([0, 1, 2, 7, 8, 8, 9, 9, 10, 16, 64])))
        elif op == "itob":
            add((), rint(rng))
        elif op == "concat":
            k = rng.random()
            if k < 0.25:
                b = rbig(rng)
                rest = 4096 - len(b.value())
                add((), b, rbytes_len(rng, max(0, rest + rng.choice([-1, 0, 1, 2]))))
            elif k < 0.35:
                b = rbig(rng)
                add((), rbytes_len(rng, max(0, 4096 - len(b.value()) + rng.choice([0, 1]))), b)
            else:
                add((), rbytes(rng), rbytes(rng))
        elif op in ("substring", "extract"):
            a = rbytes(rng, 260) if rng.random() < 0.8 else rbytes_len(rng, rng.choice([254, 255, 256, 257, 300]))
            n_ = len(a)
            s = min(255, near(rng, n_))
            if op == "substring":
                e = min(255, max(0, rng.choice([s - 1, s, s + 1, n_ - 1, n_, n_ + 1, 255])))
            else:
                e = min(255, max(0, rng.choice([0, 0, 1, n_ - s - 1, n_ - s, n_ - s + 1, 255])))
            add((s, e), a)
        elif op in ("substring3", "extract3"):
            a = rbytes(rng) if rng.random() < 0.9 else rbig(rng)
            n_ = len(a.value()) if isinstance(a, Big) else len(a)
            s = near(rng, n_)
            if op == "substring3":
                e = max(0, rng.choice([s - 1, s, s + 1, n_ - 1, n_, n_ + 1, MAXU64, (1 << 63)]))
            else:
                e = max(0, rng.choice([0, 1, n_ - s - 1, n_ - s, n_ - s + 1, MAXU64, MAXU64 - s, MAXU64 - s + 1, (1 << 63)]))
            add((), a, min(MAXU64, s), min(MAXU64, e))
        elif op in ("extract_uint16", "extract_uint32", "extract_uint64"):
            w = {"extract_uint16": 2, "extract_uint32": 4, "extract_uint64": 8}[op]
            a = rbytes(rng, 40)
            add((), a, max(0, rng.choice([0, 1, len(a) - w - 1, len(a) - w, len(a) - w + 1, len(a), MAXU64, MAXU64 - w + 1])))
        elif op in ("getbit", "setbit"):
            if rng.random() < 0.45:
                a = rint(rng)
                i = rng.choice([0, 1, 7, 8, 31, 32, 62, 63, 64, 65, MAXU64, rng.randrange(64)])
            else:
                a = rbytes(rng, 33) if rng.random() < 0.9 else rbig(rng)
                n_ = 8 * (len(a.value()) if isinstance(a, Big) else len(a))
                i = max(0, rng.choice([0, 1, 7, 8, 9, n_ - 9, n_ - 8, n_ - 1, n_, n_ + 1, MAXU64, rng.randrange(n_ + 1)]))
            if op == "getbit":
                add((), a, i)
            else:
                add((), a, i, rng.choice([0, 1, 0, 1, 2, MAXU64]))
        elif op in ("getbyte", "setbyte"):
            a = rbytes(rng, 33) if rng.random() < 0.9 else rbig(rng)
            n_ = len(a.value()) if isinstance(a, Big) else len(a)
            i = max(0, rng.choice([0, 1, n_ - 1, n_, n_ + 1, MAXU64, rng.randrange(n_ + 1)]))
            if op == "getbyte":
                add((), a, i)
            else:
                add((), a, i, rng.choice([0, 1, 127, 128, 255, 255, 256, MAXU64]))
        elif op == "bzero":
            add((), rng.choice([0, 1, 2, 8, 64, 65, 4095, 4096, 4097, 1 << 32, MAXU64, rng.randrange(300)]))
        elif op in ("replace2", "replace3"):
            a = rbytes(rng, 70)
            b = rbytes_len(rng, max(0, rng.choice([0, 1, len(a) - 1, len(a), len(a) + 1, len(a) // 2])))
            s = max(0, rng.choice([0, 1, len(a) - len(b) - 1, len(a) - len(b), len(a) - len(b) + 1, len(a), len(a) + 1]))
            if op == "replace2":
                add((min(255, s),), a, b)
            else:
                add((), a, rng.choice([s, s, s, MAXU64, 1 << 32]), b)
        elif op in BYTEMATH:
            k = rng.random()
            la = rng.choice([0, 1, 2, 8, 9, 31, 32, 33, 63, 64, 64, 65, rng.randrange(66)])
            if op in avm_ref.BITWISE_OPS and rng.random() < 0.15:
                la = rng.choice([65, 66, 100, 128, 200])
            lb = rng.choice([0, 1, 2, 8, 9, 31, 32, 33, 63, 64, 64, 65, rng.randrange(66), la, la])
            a, b = rbytes_len(rng, la), rbytes_len(rng, lb)
            if k < 0.2:     # numerically equal / adjacent with different spellings
                v = int.from_bytes(a, "big")
                w = max(0, v + rng.choice([-1, 0, 0, 1]))
                b = w.to_bytes(max(1, (w.bit_length() + 7) // 8), "big") if w else rng.choice([b"", b"\x00", b"\x00\x00"])
                b = bytes(rng.choice([0, 0, 1, 3])) + b
            elif k < 0.3:
                b = rng.choice([b"", b"\x00", bytes(64), bytes(65)])
            add((), a, b)
        elif op in ("b~", "bsqrt"):
            if op == "bsqrt" and rng.random() < 0.5:
                r = rng.getrandbits(rng.choice([1, 8, 64, 128, 255, 256]))
                v = max(0, r * r + rng.choice([-1, 0, 1]))
                add((), bytes(rng.choice([0, 0, 2])) + v.to_bytes((v.bit_length() + 7) // 8, "big"))
            else:
                add((), rbytes_len(rng, rng.choice([0, 1, 2, 8, 32, 63, 64, 64, 65, 66, 128])))
        elif op == "bitlen":
            add((), rng.choice([rint(rng), rbytes(rng), bytes(rng.randrange(5)) + bytes([1 << rng.randrange(8)]) + bytes(rng.randrange(70))]))
        elif op == "len":
            add((), rbytes(rng) if rng.random() < 0.85 else rbig(rng))
        elif op in ("==", "!="):
            a = rany(rng)
            k = rng.random()
            if k < 0.4:
                add((), a, a)
            elif k < 0.6 and isinstance(a, bytes):
                add((), a, rng.choice([a + b"\x00", b"\x00" + a, a[:-1]]))
            else:
                add((), a, rany(rng))
        elif op == "select":
            add((), rany(rng), rany(rng), rng.choice([0, 1, 2, MAXU64, rint(rng)]))
        elif op == "assert":
            add((), rng.choice([0, 1, 2, MAXU64, rint(rng), b"", b"\x01"]))
        elif op in ("int", "pushint"):
            add((rint(rng),))
        elif op in ("dig", "cover", "uncover", "bury", "popn", "dupn"):
            h = rng.choice([0, 1, 2, 3, 4, 5, 8])
            stack = [rany(rng) for _ in range(h)]
            k = max(0, rng.choice([0, 1, h - 2, h - 1, h, h + 1, 2, 3, 255]))
            if op == "dupn" and k == 255 and rng.random() < 0.7:
                k = rng.randrange(6)
            add((min(255, k),), *stack)
        else:
            sig = avm_ref.SIGS[op]
            add((), *[rof(rng, t) for t in sig])
    return out


def generic_cases(op, rng, n):
    """Well-typed random operands, ill-typed operands, and stacks that are too short."""
    out = []
    sig = avm_ref.SIGS[op]
    nimm = avm_ref.IMMS.get(op, 0)
    bmax = 66 if (op in BYTEMATH or op in ("b~", "bsqrt")) else 129
    if op in avm_ref.BITWISE_OPS and rng.random() < 0.3:
        bmax = 129
    for i in range(n):
        imms = [rng.choice([0, 1, 2, 3, 5, 8, 255, rng.randrange(256)]) for _ in range(nimm)]
        if op in ("int", "pushint"):
            imms = [rint(rng)]
        ops = [rof(rng, t, bmax) for t in sig]
        if not sig and nimm:       # depth ops: any stack
            ops = [rany(rng) for _ in range(rng.randrange(0, 6))]
        k = rng.random()
        if sig and k < 0.12:         # wrong type in one position
            j = rng.randrange(len(sig))
            ops[j] = rbytes(rng, 9) if isinstance(ops[j], int) else rint(rng)
        elif sig and k < 0.18:       # too few operands, nothing below
            ops = ops[rng.randrange(1, len(sig) + 1):]
            out.append((imms, ops, []))
            continue
        below = [rany(rng) for _ in range(rng.choice([0, 0, 1, 2]))]
        out.append((imms, ops, below))
    return out


def case_program(imms, ops, below, op):
    """TEAL text pushing below ++ ops (deepest first) then the opcode.  Returns (text, index of the opcode)."""
    lines = ["#pragma version 10"]
    n = 0
    for v in list(below) + list(ops):
        if isinstance(v, Big):
            parts = []
            if v.pre:
                parts.append("byte 0x" + v.pre.hex())
            parts.append("int %d" % v.n)
            parts.append("bzero")
            if v.pre:
                parts.append("concat")
            if v.suf:
                parts.append("byte 0x" + v.suf.hex())
                parts.append("concat")
            lines += parts
            n += len(parts)
        elif isinstance(v, int):
            lines.append("int %d" % v)
            n += 1
        else:
            lines.append("byte 0x" + v.hex())
            n += 1
    lines.append(op + "".join(" %d" % i for i in imms))
    return "\n".join(lines), n


def plain(v):
    return v.value() if isinstance(v, Big) else v


def show(v):
    if isinstance(v, (bytes, bytearray)):
        return "0x" + (v.hex() if len(v) <= 40 else v[:8].hex() + "..(%d bytes).." % len(v) + v[-4:].hex())
    return str(v)


def pure_check_batch(model, cases, open_q=None):
    """cases: list of (op, imms, ops, below).  Returns list of disagreement strings."""
    bad = []
    open_q = {} if open_q is None else open_q
    ctx = (S("ctx"), (S("mode"), S("app")), (S("fuel"), 5000))
    for op, imms, ops, below in cases:
        stack0 = [plain(v) for v in list(below) + list(ops)]
        try:
            want = avm_ref.exec_pure(op, imms, stack0)
            if len(want) > avm_ref.MAX_STACK:
                want = "panic"
        except avm_ref.Panic:
            want = "panic"
        text, idx = case_program(imms, ops, below, op)
        r = run(model, ctx, text)
        if not r.ok:
            got = r.verdict
        elif r.pc == idx and r.verdict == "fail":
            got = "panic"
        elif r.pc == idx + 1 and r.verdict in ("approve", "reject", "fail"):
            got = r.stack
        else:
            got = "verdict=%s pc=%d (opcode at %d)" % (r.verdict, r.pc, idx)
        if op in avm_ref.BITWISE_OPS and want != "panic" and any(isinstance(v, bytes) and len(v) > 64 for v in stack0[len(below):]):
            # open question (see avm_ref.BITWISE_OPS): the model may enforce PyTeal's documented 64-byte limit
            if got == "panic":
                open_q["bitwise_over_64_bytes: model fails (64-byte limit), reference computes"] = open_q.get("bitwise_over_64_bytes: model fails (64-byte limit), reference computes", 0) + 1
                continue
            open_q["bitwise_over_64_bytes: model computes like the reference"] = open_q.get("bitwise_over_64_bytes: model computes like the reference", 0) + 1
        if got != want:
            bad.append("%s%s on [%s] (top last): reference %s, model %s" % (
                op, "".join(" %d" % i for i in imms), ", ".join(show(v) for v in stack0),
                want if isinstance(want, str) else "[" + ", ".join(show(v) for v in want) + "]",
                got if isinstance(got, str) else "[" + ", ".join(show(v) for v in got) + "]"))
    return bad


def do_pure(model, payload):
    seed, ops_chunk, n_special, n_generic = payload
    rep = Report(None)
    rng = random.Random(seed)
    cases = []
    for op in ops_chunk:
        cases += [(op, i, o, []) for i, o in special_cases(op, rng, n_special)]
        cases += [(op, i, o, b) for i, o, b in generic_cases(op, rng, n_generic)]
    for b in pure_check_batch(model, cases, rep.extra.setdefault("open", {})):
        rep.problem("pure-op", b)
    per_op = rep.extra.setdefault("per_op", {})
    for c in cases:
        per_op[c[0]] = per_op.get(c[0], 0) + 1
    rep.count("pure.cases", len(cases))
    return rep


def pure_tasks(thorough, seed):
    ops = list(avm_ref.ALL_OPS)
    n_special, n_generic = (220, 130) if thorough else (75, 45)
    rounds = 4 if thorough else 1
    tasks = []
    for rnd in range(rounds):
        for k in range(0, len(ops), 6):
            tasks.append(("pure", (seed * 7919 + rnd * 101 + k, ops[k:k + 6], n_special, n_generic)))
    return tasks


def pure_opcode_sets():
    """every pure opcode of the Coq model must be covered by the reference, and vice versa"""
    src = open(os.path.join(common.COQ, "AVM", "Ops.v")).read()
    body = src[src.index("Definition exec_pure"):]
    coq_ops = set(re.findall(r"\bO_([A-Za-z0-9_]+)", body))
    rename = {"add": "+", "minus": "-", "div": "/", "mul": "*", "mod": "%", "lt": "<", "gt": ">", "le": "<=", "ge": ">=",
              "logic_and": "&&", "logic_or": "||", "eq": "==", "neq": "!=", "logic_not": "!", "bitwise_or": "|",
              "bitwise_and": "&", "bitwise_xor": "^", "bitwise_not": "~", "b_add": "b+", "b_minus": "b-", "b_mul": "b*",
              "b_div": "b/", "b_mod": "b%", "b_lt": "b<", "b_gt": "b>", "b_le": "b<=", "b_ge": "b>=", "b_eq": "b==",
              "b_neq": "b!=", "b_or": "b|", "b_and": "b&", "b_xor": "b^", "b_not": "b~", "assert_": "assert"}
    coq_names = {rename.get(o, o) for o in coq_ops}
    ops = set(avm_ref.ALL_OPS)
    return sorted(coq_names - ops), sorted(ops - coq_names)


# =================================================================================================
# E. directed machine-level programs
# =================================================================================================
def P(*lines):
    return "#pragma version 10\n" + "\n".join(lines)


def directed_programs():
    """(name, text, mode-app?, args, expected) with expected = ("approve"|"reject", top) | "fail" | "parse-error",
    optionally followed by expected logs / scratch.  Expectations follow the AVM specification
    (go-algorand data/transactions/logic: opCallSub/opProto/opRetSub/opFrameDig/opFrameBury, eval loop)."""
    T = []
    add = lambda name, text, exp, **kw: T.append((name, text, exp, kw))  # noqa: E731
    # --- end of program / return
    add("end-one-uint", P("int 7"), ("approve", 7))
    add("end-zero", P("int 0"), ("reject", 0))
    add("end-two-values", P("int 1", "int 1"), "fail")
    add("end-bytes", P("byte 0x01"), "fail")
    add("end-empty", P("int 1", "pop"), "fail")
    add("return-ignores-rest", P("int 0", "byte 0x00", "int 5", "return"), ("approve", 5))
    add("return-zero", P("int 9", "int 0", "return"), ("reject", 0))
    add("return-bytes", P("int 1", "byte 0x01", "return"), "fail")
    add("return-empty", P("return"), "fail")
    add("err", P("int 1", "err"), "fail")
    # --- branches
    add("b-forward", P("int 1", "b done", "err", "done:"), ("approve", 1))
    add("bnz-taken", P("int 1", "bnz yes", "int 0", "return", "yes:", "int 2"), ("approve", 2))
    add("bnz-not-taken", P("int 0", "bnz yes", "int 3", "return", "yes:", "int 2"), ("approve", 3))
    add("bz-taken", P("int 0", "bz yes", "int 0", "return", "yes:", "int 2"), ("approve", 2))
    add("bz-pops", P("int 5", "int 0", "bz yes", "err", "yes:"), ("approve", 5))
    add("bnz-bytes", P("byte 0x01", "bnz yes", "yes:", "int 1"), "fail")
    add("bnz-empty", P("bnz yes", "yes:", "int 1"), "fail")
    add("loop", P("int 0", "top:", "int 1", "+", "dup", "int 10", "<", "bnz top"), ("approve", 10))
    add("label-at-end", P("int 1", "b end", "end:"), ("approve", 1))
    # --- scratch
    add("load-default", P("load 7", "int 1", "+"), ("approve", 1))
    add("store-load", P("int 5", "store 255", "byte 0xab", "store 0", "load 255"), ("approve", 5), scratch={255: 5, 0: b"\xab"})
    add("loads-stores", P("int 3", "int 42", "stores", "int 3", "loads"), ("approve", 42), scratch={3: 42})
    add("stores-slot-256", P("int 256", "int 1", "stores", "int 1"), "fail")
    add("loads-slot-256", P("int 256", "loads"), "fail")
    add("stores-bytes-index", P("byte 0x01", "int 1", "stores", "int 1"), "fail")
    add("store-empty", P("store 1", "int 1"), "fail")
    # --- subroutines without proto
    add("callsub-retsub", P("int 2", "callsub f", "int 1", "+", "return", "f:", "int 3", "*", "retsub"), ("approve", 7))
    add("retsub-no-call", P("int 1", "retsub"), "fail")
    add("nested-calls", P("callsub a", "return", "a:", "callsub b", "int 1", "+", "retsub", "b:", "int 10", "retsub"), ("approve", 11))
    add("recursion", P("int 5", "callsub fac", "return",
                       "fac:", "dup", "int 2", "<", "bnz base", "dup", "int 1", "-", "callsub fac", "*", "retsub", "base:", "pop", "int 1", "retsub"),
        ("approve", 120))
    # --- proto / frames
    add("proto-args-ret", P("int 100", "int 10", "int 3", "callsub f", "+", "return",
                            "f:", "proto 2 1", "frame_dig -2", "frame_dig -1", "-", "retsub"), ("approve", 107))
    add("proto-ret-at-frame-pointer", P("int 9", "callsub f", "return",
                                        "f:", "proto 1 1", "int 0", "int 55", "byte 0xff", "frame_dig -1", "int 1", "+", "frame_bury 0", "retsub"),
        ("approve", 10))
    add("proto-cleans-locals", P("int 4", "int 9", "callsub f", "+", "return",
                                 "f:", "proto 1 1", "int 1", "int 2", "int 3", "retsub"), ("approve", 5))
    add("proto-two-returns", P("callsub f", "-", "return", "f:", "proto 0 2", "int 9", "int 4", "int 77", "retsub"), ("approve", 5))
    add("proto-zero-returns", P("int 6", "int 1", "callsub f", "return", "f:", "proto 1 0", "int 3", "retsub"), ("approve", 6))
    add("retsub-too-few-returns", P("int 1", "callsub f", "return", "f:", "proto 1 2", "int 3", "retsub"), "fail")
    add("retsub-popped-args", P("int 1", "int 1", "callsub f", "return", "f:", "proto 1 0", "pop", "pop", "retsub"), "fail")
    add("proto-without-callsub", P("proto 0 1", "int 1"), "fail")
    add("proto-not-first", P("callsub f", "return", "f:", "int 1", "proto 0 1", "retsub"), "fail")
    add("proto-args-missing", P("int 1", "callsub f", "return", "f:", "proto 2 1", "int 1", "retsub"), "fail")
    add("frame_dig-beyond-args", P("int 1", "int 2", "callsub f", "return", "f:", "proto 1 1", "frame_dig -2", "retsub"), "fail")
    add("frame_dig-above-stack", P("int 1", "callsub f", "return", "f:", "proto 1 1", "frame_dig 0", "retsub"), "fail")
    add("frame_dig-no-proto", P("int 1", "callsub f", "return", "f:", "frame_dig -1", "retsub"), "fail")
    add("frame_dig-no-call", P("int 1", "frame_dig 0"), "fail")
    add("frame_dig-local", P("int 1", "callsub f", "return", "f:", "proto 1 1", "int 7", "int 8", "frame_dig 1", "frame_bury 0", "retsub"), ("approve", 8))
    add("frame_bury-arg", P("int 1", "callsub f", "return", "f:", "proto 1 1", "int 5", "frame_bury -1", "frame_dig -1", "retsub"), ("approve", 5))
    add("frame_bury-top-itself", P("int 1", "callsub f", "return", "f:", "proto 1 1", "int 5", "frame_bury 0", "int 1", "retsub"), "fail")
    add("frame_bury-beyond-args", P("int 1", "callsub f", "return", "f:", "proto 1 1", "int 5", "frame_bury -2", "int 1", "retsub"), "fail")
    add("nested-frames", P("int 3", "callsub f", "return",
                           "f:", "proto 1 1", "int 0", "frame_dig -1", "int 2", "*", "callsub g", "frame_bury 0", "frame_dig -1", "frame_dig 0", "+", "frame_bury 0", "retsub",
                           "g:", "proto 1 1", "frame_dig -1", "int 1", "+", "retsub"), ("approve", 10))
    add("proto-base-untouched", P("int 1000", "int 1", "int 2", "callsub f", "pop", "return",
                                  "f:", "proto 2 1", "int 9", "retsub"), ("approve", 1000))
    # --- constant blocks
    add("intcblock", P("intcblock 5 6 7 8 9", "intc_0", "intc_1", "+", "intc_2", "+", "intc_3", "+", "intc 4", "+"), ("approve", 35))
    add("intc-out-of-range", P("intcblock 5", "intc_1"), "fail")
    add("intc-no-block", P("intc_0"), "fail")
    add("bytecblock", P("bytecblock 0x01 0x0203 \"ab\" base64(AQID) 0x", "bytec_0", "bytec_1", "concat", "bytec_2", "concat", "bytec_3", "concat", "bytec 4", "concat", "log", "int 1"),
        ("approve", 1), logs=[b"\x01\x02\x03ab\x01\x02\x03"])
    add("bytec-out-of-range", P("bytecblock 0x01", "bytec_1", "len"), "fail")
    # --- literals
    add("byte-forms", P('byte "a\\x41\\n\\t\\\\\\""', "byte base64 QUI=", "concat", "byte b32(MFRGG===)", "concat", "byte base32 MFRGG", "concat", "byte b64(QUI=)", "concat", "log", "int 1"),
        ("approve", 1), logs=[b"aA\n\t\\\"" + b"AB" + b"abc" + b"abc" + b"AB"])
    add("int-hex-and-names", P("int 0x10", "int OptIn", "+", "int appl", "+", "int NoOp", "+"), ("approve", 23))
    add("int-too-big", P("int 18446744073709551616"), "parse-error")
    add("int-max", P("int 18446744073709551615", "int 0", "+", "int 18446744073709551615", "=="), ("approve", 1))
    add("semicolons", "#pragma version 10\nint 1; int 2; +; int 3; ==", ("approve", 1))
    add("comments", P("int 1 // one", "// nothing", "byte \"//\" // a string with slashes", "len", "int 2", "==", "&&"), ("approve", 1))
    add("addr", P("addr AAAAAAAAAAAAAAAAAAAAAAAAAAAAAAAAAAAAAAAAAAAAAAAAAAAAY5HFKQ", "len", "int 32", "==",
                  "addr AAAAAAAAAAAAAAAAAAAAAAAAAAAAAAAAAAAAAAAAAAAAAAAAAAAAY5HFKQ", "global ZeroAddress", "==", "&&"), ("approve", 1))
    add("method", P('method "add(uint64,uint64)uint64"', "byte 0xfe6bdf69", "=="), ("approve", 1))
    add("unknown-opcode", P("int 1", "frobnicate"), "parse-error")
    add("duplicate-label", P("a:", "int 1", "a:"), "parse-error")
    # --- limits
    add("stack-1000", P("int 1", "dupn 255", "dupn 255", "dupn 255", "dupn 234", "popn 255", "popn 255", "popn 255", "popn 234"), ("approve", 1))
    add("stack-1001", P("int 1", "dupn 255", "dupn 255", "dupn 255", "dupn 235", "popn 255", "popn 255", "popn 255", "popn 235"), "fail")
    add("bytes-4096", P("int 4096", "bzero", "len", "int 4096", "=="), ("approve", 1))
    add("bytes-4097", P("int 4096", "bzero", "byte 0x00", "concat", "len"), "fail")
    # --- context
    add("txna-args", P("txna ApplicationArgs 0", "txna ApplicationArgs 1", "concat", "log", "txn NumAppArgs"), ("approve", 2), args=[b"ab", b"cd"], logs=[b"abcd"])
    add("txna-out-of-range", P("txna ApplicationArgs 2", "len"), "fail", args=[b"ab", b"cd"])
    add("txnas", P("int 1", "txnas ApplicationArgs", "btoi"), ("approve", 9), args=[b"", b"\x09"])
    add("gtxn-self", P("gtxn 0 Fee", "int 1000", "==", "gtxn 0 TypeEnum", "int appl", "==", "&&", "int 0", "gtxns Fee", "int 1000", "==", "&&"), ("approve", 1))
    add("gtxn-out-of-group", P("gtxn 1 Fee"), "fail")
    add("oncompletion", P("txn OnCompletion", "int NoOp", "==", "txn ApplicationID", "int 0", "!=", "&&"), ("approve", 1))
    add("lsig-args", P("arg 0", "arg 1", "concat", "len", "int 1", "args", "len", "+"), ("approve", 6), app=False, args=[b"ab", b"cd"])
    add("lsig-arg-out-of-range", P("arg 2", "len"), "fail", app=False, args=[b"ab", b"cd"])
    add("log-uint", P("int 1", "log", "int 1"), "fail")
    add("logs-in-order", P("byte 0x01", "log", "byte 0x", "log", "byte 0x03", "log", "int 1"), ("approve", 1), logs=[b"\x01", b"", b"\x03"])
    # --- limits the model does not enforce (recorded as known deviations of the model, see the design note)
    add("log-33-calls", P(*(["byte 0x01", "log"] * 33 + ["int 1"])), "fail", model_now=("approve", 1),
        deviation="the AVM allows at most 32 log calls per application call; the model has no limit")
    add("log-32-calls", P(*(["byte 0x01", "log"] * 32 + ["int 1"])), ("approve", 1))
    add("log-1025-bytes", P("int 1000", "bzero", "log", "int 25", "bzero", "log", "int 1"), "fail", model_now=("approve", 1),
        deviation="the AVM allows at most 1024 logged bytes per application call; the model has no limit")
    add("log-1024-bytes", P("int 1000", "bzero", "log", "int 24", "bzero", "log", "int 1"), ("approve", 1))
    add("log-in-signature-mode", P("byte 0x01", "log", "int 1"), "fail", app=False, model_now=("approve", 1),
        deviation="log (like every application-only opcode) is rejected in signature mode by the AVM; the model does not restrict opcodes by mode (PyTeal does, at compile time)")
    add("global-state", P('byte "k"', "int 5", "app_global_put", 'byte "k"', "app_global_get", "int 0", 'byte "missing"', "app_global_get_ex", "swap", "pop", "!", "+",
                          'byte "gone"', "app_global_get", "+"), ("approve", 6))
    return T


def do_directed(model, payload):
    rep = Report(None)
    section_directed(model, rep)
    section_literals(model, rep)
    section_small_goldens(model, rep)
    return rep


def section_directed(model, rep):
    for name, text, exp, kw in directed_programs():
        app = kw.get("app", True)
        r = run(model, make_ctx(app, kw.get("args", []), 20000, text), text)
        rep.count("directed.programs")
        if isinstance(exp, tuple):
            ok = r.ok and r.verdict == exp[0] and r.top == exp[1]
        else:
            ok = (r.verdict == exp)
        if ok and "logs" in kw:
            ok = r.logs == kw["logs"]
        if ok and "scratch" in kw:
            ok = all(r.scratch.get(k) == v for k, v in kw["scratch"].items())
        if not ok and "deviation" in kw:
            now = kw["model_now"]
            same = (r.ok and r.verdict == now[0] and r.top == now[1]) if isinstance(now, tuple) else r.verdict == now
            if same:
                rep.extra.setdefault("deviations", []).append("%s: %s" % (name, kw["deviation"]))
                rep.count("directed.known_model_deviations")
                continue
        if not ok:
            rep.problem("directed", "%s: expected %r%s, model verdict=%s top=%r logs=%r pc=%d" % (
                name, exp, (" logs %r" % kw["logs"]) if "logs" in kw else "", r.verdict, r.top, r.logs, r.pc))


def section_literals(model, rep, n=80):
    """byte-literal spellings (hex, base64, base32, quoted with escapes) of random byte strings against
    Python's codecs (RFC 4648); all 64 / 32 alphabet characters occur."""
    import base64
    rng = random.Random(20240923)
    fixed = [bytes(range(256)), bytes.fromhex("fbffbf"), bytes.fromhex("d35db7e39ebbf3dfbf"), b"", b"\xff", b"\x00\x00", bytes(range(0, 256, 5))]
    for k in range(n):
        b = fixed[k] if k < len(fixed) else bytes(rng.randrange(256) for _ in range(rng.randrange(0, 40)))
        b64 = base64.b64encode(b).decode()
        b32 = base64.b32encode(b).decode()
        esc = "".join(("\\x%02x" % c) if (c < 32 or c > 126 or c in (34, 92)) else chr(c) for c in b)
        forms = ["byte 0x" + b.hex(), "byte base64(%s)" % b64, "byte b64 %s" % b64, "byte base32(%s)" % b32, "byte b32 %s" % b32.rstrip("="),
                 'byte "%s"' % esc, "pushbytes 0x" + b.hex(), "pushbytes base64(%s)" % b64]
        for form in forms:
            if not b and form.endswith(" "):
                continue
            text = P(form, "log", "int 1")
            r = run(model, make_ctx(True, [], 100, text), text)
            rep.count("directed.literals")
            if r.verdict != "approve" or r.logs != [b]:
                rep.problem("directed", "literal `%s` should push 0x%s, model: verdict=%s logs=%r" % (form[:120], b.hex()[:80], r.verdict, [l.hex()[:80] for l in r.logs]))


def section_small_goldens(model, rep):
    """The wrapper goldens of tests/unit/teal/blackbox (tests/unit/blackbox_test.py: subroutines returning
    nothing / Int(0) / Bytes("") / an anytype 0, with and without three arguments) and the user-guide
    snippets (documented behaviour).  Expectations read off tests/blackbox.py (`make_return`, `make_log`)."""
    bb = os.path.join(TESTS, "unit", "teal", "blackbox")
    args3 = [enc_arg(5), b"hello", enc_arg(7)]
    table = {
        # name: (app verdict/top/logs, lsig verdict/top)
        "utest_noop": (("approve", 1337, [enc_arg(1337)]), ("approve", 1337)),
        "utest_int": (("reject", 0, [enc_arg(0)]), ("reject", 0)),
        "utest_bytes": (("reject", 0, [b""]), ("reject", 0)),
        "utest_any": (("approve", 1337, [b"nada"]), ("approve", 1337)),
    }
    for base, (app_exp, sig_exp) in table.items():
        for suffix, args in (("", []), ("_args", args3)):
            for mode, exp in (("app", app_exp), ("lsig", sig_exp)):
                path = os.path.join(bb, "%s_%s%s.teal" % (mode, base, suffix))
                if not os.path.exists(path):
                    rep.problem("small-goldens", "missing %s" % path)
                    continue
                text = open(path).read()
                r = run(model, make_ctx(mode == "app", args, 20000, text), text)
                rep.count("small_goldens.runs")
                ok = r.verdict == exp[0] and r.top == exp[1] and (mode != "app" or r.logs == exp[2])
                if not ok:
                    rep.problem("small-goldens", "%s: expected %r, model verdict=%s top=%r logs=%r" % (os.path.basename(path), exp, r.verdict, r.top, r.logs))
    ug = os.path.join(TESTS, "unit", "teal", "user_guide")
    from algosdk import abi
    cases = [
        ("user_guide_snippet_recursiveIsEven.teal", [], ("reject", 0), None),          # recursiveIsEven(15) = 0
        ("user_guide_snippet_dynamic_scratch_var.teal", [], ("approve", 1), None),     # 7 + 3 == 10
    ]
    arr_t = abi.ABIType.from_string("uint64[]")
    for vals in ([], [1], [1, 2, 3], [MAXU64, 0], list(range(40))):
        cases.append(("user_guide_snippet_ABIReturnSubroutine.teal", [b"", arr_t.encode(vals)], ("approve", 1),
                      [ABI_RETURN_PREFIX + (sum(vals)).to_bytes(8, "big")]))
    cases.append(("user_guide_snippet_ABIReturnSubroutine.teal", [b"", arr_t.encode([MAXU64, 1])], "fail", None))   # uint64 overflow in +
    for f, args, exp, logs in cases:
        path = os.path.join(ug, f)
        if not os.path.exists(path):
            rep.problem("small-goldens", "missing %s" % path)
            continue
        text = open(path).read()
        r = run_enough(model, lambda fuel: make_ctx(True, args, fuel, text), text)
        rep.count("small_goldens.runs")
        ok = (r.verdict == exp[0] and r.top == exp[1]) if isinstance(exp, tuple) else r.verdict == exp
        if ok and logs is not None:
            ok = r.logs == logs
        if not ok:
            rep.problem("small-goldens", "%s args=%r: expected %r logs=%r, model verdict=%s top=%r logs=%r pc=%d" % (f, args, exp, logs, r.verdict, r.top, r.logs, r.pc))


# =================================================================================================
# F. frozen corpus: programs of the dry-run integration tests that have no golden file
#    (harness/corpus/avm, generated once by harness/tools/gen_avm_corpus.py from the pinned tree)
# =================================================================================================
def _i65(n):
    return [n >= 0, abs(n)]


def _num(t):
    return t[1] if t[0] else -t[1]


def _c130(re_, im):
    return [_i65(re_), _i65(im)]


def _cnum(t):
    return (_num(t[0]), _num(t[1]))


def corpus_cases(name, rng, n):
    """[(args as python values, oracle)] ; oracle = dict(ret=decoded-return predicate value, top=, verdict=)"""
    import math
    small = lambda: rng.choice([0, 1, -1, 9999, -9999, rng.randrange(-9999, 10000), rng.randrange(-9999, 10000)])  # noqa: E731
    comp = lambda: rng.choice([0, 1, -1, 999999, -999999, rng.randrange(-999999, 1000000), rng.randrange(-999999, 1000000)])  # noqa: E731
    out = []
    for k in range(n):
        if name in ("int65_sub", "int65_minus_cond", "int65_mult", "int65_add"):
            x, y = small(), small()
            want = {"int65_sub": x - y, "int65_minus_cond": x - y, "int65_mult": x * y, "int65_add": x + y}[name]
            out.append(([_i65(x), _i65(y)], dict(ret=lambda v, w=want: _num(v) == w, verdict="approve", top=1)))
        elif name == "int65_negate":
            x = small()
            out.append(([_i65(x)], dict(ret=lambda v, w=-x: _num(v) == w, verdict="approve", top=1)))
        elif name in ("complex130_add", "complex130_mult"):
            a, b, c, d = comp(), comp(), comp(), comp()
            want = (a + c, b + d) if name == "complex130_add" else (a * c - b * d, a * d + b * c)
            out.append(([_c130(a, b), _c130(c, d)], dict(ret=lambda v, w=want: _cnum(v) == w, verdict="approve", top=1)))
        elif name in ("complex130_real", "complex130_imag", "complex130_norm_squared"):
            a, b = comp(), comp()
            want = {"complex130_real": a, "complex130_imag": b, "complex130_norm_squared": a * a + b * b}[name]
            out.append(([_c130(a, b)], dict(ret=lambda v, w=want: _num(v) == w, verdict="approve", top=1)))
        elif name == "complex130_conjugate":
            a, b = comp(), comp()
            out.append(([_c130(a, b)], dict(ret=lambda v, w=(a, -b): _cnum(v) == w, verdict="approve", top=1)))
        elif name == "conditional_factorial":
            x = k if k <= 21 else rng.randrange(0, 22)
            if x <= 20:
                out.append(([x], dict(ret=lambda v, w=math.factorial(x): v == w, verdict="approve", top=1)))
            else:
                out.append(([x], dict(verdict="fail")))
        elif name in ("euclid_iter", "euclid_rec"):
            x, y = rng.choice([0, 1, 1000, rng.randrange(1001)]), rng.choice([0, 1, 1000, rng.randrange(1001), rng.randrange(1001)])
            g = math.gcd(x, y)
            out.append(([x, y], dict(top=g, verdict="approve" if g else "reject", log=(g.to_bytes(8, "big") if g else None), scratch0=g)))
        elif name == "abi_sum":
            vals = [rng.randrange(10000) for _ in range(k if k < 50 else rng.randrange(50))]
            out.append(([vals], dict(ret=lambda v, w=sum(vals): v == w, verdict="approve", top=1)))
        elif name == "cubed":
            x = k + 1 if k < 10 else rng.randrange(1, 2642245)
            out.append(([x], dict(top=x ** 3, verdict="approve", log=(x ** 3).to_bytes(8, "big"))))
        elif name == "while_continue_accumulation":
            x = k if k < 30 else rng.randrange(30)
            out.append(([x], dict(top=x, verdict="approve" if x else "reject")))
        elif name == "named_tuple_field_access":
            if k == 0:
                args = [False, b"1" * 32, [0, False], list(b"0" * 10), [True] * 4, 0]
            else:
                args = [rng.random() < 0.5, bytes(rng.randrange(256) for _ in range(32)), [rng.getrandbits(64), rng.random() < 0.5],
                        [rng.randrange(256) for _ in range(10)], [rng.random() < 0.5 for _ in range(4)], rng.getrandbits(64)]
            out.append((args, dict(top=1, verdict="approve")))
        else:
            raise KeyError(name)
    return out


def corpus_tasks(thorough):
    import json
    mf = os.path.join(CORPUS, "manifest.json")
    if not os.path.exists(mf):
        return []
    progs = json.load(open(mf))["programs"]
    return [("corpus", (p, 60 if thorough else 10)) for p in progs]


def do_corpus(model, payload):
    from algosdk import abi
    prog, n = payload
    rep = Report(None)
    text = open(os.path.join(CORPUS, prog["file"])).read()
    app = prog["mode"] == "app"
    rng = random.Random(prog["name"])          # the same inputs for every mode and version of a program
    types_ = [abi.ABIType.from_string(t) if t else None for t in prog["arg_types"]]
    ret_t = abi.ABIType.from_string(prog["return_type"]) if prog["return_type"] else None
    for args, orc in corpus_cases(prog["name"], rng, n):
        enc = [(t.encode(a) if t is not None else enc_arg(a)) for t, a in zip(types_, args)]
        r = run_enough(model, lambda fuel: make_ctx(app, enc, fuel, text), text)
        rep.count("corpus.runs")
        tag = "%s%r" % (prog["file"], args)
        if r.verdict != orc["verdict"]:
            rep.problem("corpus", "%s: verdict %s expected, model %s (pc %d)" % (tag[:300], orc["verdict"], r.verdict, r.pc))
            continue
        if orc["verdict"] == "fail":
            continue
        if "top" in orc and r.top != orc["top"]:
            rep.problem("corpus", "%s: return value %r expected, model %r" % (tag[:300], orc["top"], r.top))
        if app and "ret" in orc:
            if len(r.logs) != 1 or r.logs[0][:4] != ABI_RETURN_PREFIX:
                rep.problem("corpus", "%s: one ABI return log expected, model logged %r" % (tag[:300], [l.hex()[:80] for l in r.logs]))
            else:
                try:
                    v = ret_t.decode(r.logs[0][4:])
                    ok = ret_t.encode(v) == r.logs[0][4:] and orc["ret"](v)
                except Exception as e:  # noqa
                    v, ok = "undecodable (%s)" % e, False
                if not ok:
                    rep.problem("corpus", "%s: logged return value %r does not satisfy the test's oracle" % (tag[:300], v))
        if app and "log" in orc and orc["log"] is not None and r.logs[-1:] != [orc["log"]]:
            rep.problem("corpus", "%s: lastLog %s expected, model %r" % (tag[:300], orc["log"].hex(), [l.hex() for l in r.logs]))
        if app and "scratch0" in orc and norm_scratch(r.scratch).get(0, 0) != orc["scratch0"]:
            rep.problem("corpus", "%s: scratch slot 0 = %r expected, model %r" % (tag[:300], orc["scratch0"], r.scratch.get(0)))
    return rep


# =================================================================================================
# G. router goldens tests/teal/router (tests/integration/abi_router_test.py: QUESTIONABLE_DRIVER / YACC_DRIVER,
#    positive and negative scenarios, and the bespoke table of the non-trivial clear program)
# =================================================================================================
ROUTER_DIR = os.path.join(TESTS, "teal", "router")
ROUTERS = [  # (approval, clear, has bare opt-in call, clear is non-trivial)
    ("questionable_approval_v6.teal", "questionable_clear_v6.teal", True, False),
    ("questionableFP_approval_v8.teal", "questionableFP_clear_v8.teal", True, False),
    ("yacc_approval_v6.teal", "yacc_clear_v6.teal", False, False),
    ("yaccFP_approval_v8.teal", "yaccFP_clear_v8.teal", False, False),
    ("nontriv_clear_approval_v6.teal", "nontriv_clear_clear_v6.teal", True, True),
    ("nontriv_clear_approval_v8.teal", "nontriv_clear_clear_v8.teal", True, True),
]
U64x2 = "(uint64,uint64)uint64"
ROUTER_METHODS = {   # signature -> (number of uint64 arguments, allowed (OnCompletion, is_create))
    "add" + U64x2: (2, {(0, False)}), "sub" + U64x2: (2, {(0, False)}), "mul" + U64x2: (2, {(0, False)}),
    "div" + U64x2: (2, {(0, False)}), "mod" + U64x2: (2, {(0, False)}),
    "all_laid_to_args(" + ",".join(["uint64"] * 16) + ")uint64": (16, {(0, False)}),
    "empty_return_subroutine()void": (0, {(0, False), (1, False), (1, True)}),
    "log_1()uint64": (0, {(0, False), (1, False)}),
    "log_creation()string": (0, {(0, True)}),
}


def router_app_args(sig, vals):
    """ARC-4 call: selector, then the arguments; the 15th and later arguments travel as one tuple."""
    enc = [v.to_bytes(8, "big") for v in vals]
    if len(enc) > 15:
        enc = enc[:14] + [b"".join(enc[14:])]
    return [selector(sig)] + enc


def router_expect(sig, vals):
    """("approve", last log) or "fail" for a well-formed call with an allowed (OnCompletion, create)."""
    name = sig.split("(")[0]
    ret = lambda n: ABI_RETURN_PREFIX + n.to_bytes(8, "big")   # noqa: E731
    if name == "add":
        return ("approve", ret(vals[0] + vals[1])) if vals[0] + vals[1] <= MAXU64 else "fail"
    if name == "sub":
        return ("approve", ret(vals[0] - vals[1])) if vals[0] >= vals[1] else "fail"
    if name == "mul":
        return ("approve", ret(vals[0] * vals[1])) if vals[0] * vals[1] <= MAXU64 else "fail"
    if name == "div":
        return ("approve", ret(vals[0] // vals[1])) if vals[1] else "fail"
    if name == "mod":
        return ("approve", ret(vals[0] % vals[1])) if vals[1] else "fail"
    if name == "all_laid_to_args":
        return ("approve", ret(sum(vals))) if sum(vals) <= MAXU64 else "fail"
    if name == "empty_return_subroutine":
        return ("approve", b"appear in both approval and clear state")
    if name == "log_1":
        return ("approve", ret(1))
    if name == "log_creation":
        return ("approve", ABI_RETURN_PREFIX + (16).to_bytes(2, "big") + b"logging creation")
    raise KeyError(sig)


def router_tasks(thorough):
    return [("router", (r, 12 if thorough else 3)) for r in ROUTERS]


def do_router(model, payload):
    (approval, clear, has_bare, nontriv), n = payload
    rep = Report(None)
    rng = random.Random(approval)
    text = open(os.path.join(ROUTER_DIR, approval)).read()
    ctext = open(os.path.join(ROUTER_DIR, clear)).read()
    ins = instructions(text)

    def call(args, oc, create, program=text):
        extra = [("OnCompletion", oc), ("ApplicationID", 0 if create else 77)]
        r = run_enough(model, lambda fuel: make_ctx(True, args, fuel, program, extra_fields=extra), program)
        rep.count("router.runs")
        return r

    def must_fail(r, tag, ops=("err", "assert")):
        at = ins[r.pc] if 0 <= r.pc < len(ins) else "end"
        if r.verdict != "fail" or (ops and at not in ops):
            rep.problem("router", "%s: the node rejected this call with an error (%s); model verdict=%s at `%s`" % (tag, "/".join(ops) if ops else "any", r.verdict, at))

    half = lambda: rng.choice([0, 1, 2, (1 << 32) - 1, rng.getrandbits(32), rng.getrandbits(32), rng.getrandbits(16)])   # noqa: E731
    for sig, (nargs, allowed) in ROUTER_METHODS.items():
        for k in range(n):
            vals = [half() for _ in range(nargs)]
            if k == n - 1 and nargs == 2:
                vals = rng.choice([[MAXU64, 1], [1 << 63, 2], [5, 0], [3, 7]])     # overflow / zero divisor / underflow
            args = router_app_args(sig, vals)
            want = router_expect(sig, vals)
            # positive: every allowed (OnCompletion, create) combination
            for oc, create in sorted(allowed):
                r = call(args, oc, create)
                tag = "%s %s%r oc=%d create=%s" % (approval, sig.split("(")[0], vals, oc, create)
                if want == "fail":
                    must_fail(r, tag, ops=())
                elif r.verdict != "approve" or r.logs[-1:] != [want[1]]:
                    rep.problem("router", "%s: approve with last log %s expected, model verdict=%s logs=%r" % (tag, want[1].hex(), r.verdict, [l.hex() for l in r.logs]))
            if k:
                continue
            # negative I: every other (OnCompletion, create) combination is rejected by err/assert
            for oc in (0, 1, 2, 4, 5):
                for create in (False, True):
                    if (oc, create) not in allowed:
                        must_fail(call(args, oc, create), "%s %s oc=%d create=%s (not registered)" % (approval, sig.split("(")[0], oc, create))
            oc, create = sorted(allowed)[0]
            # negative III: selector with a byte inserted / removed / replaced
            sel = args[0]
            for bad in (sel[:2] + bytes([rng.randrange(256)]) + sel[2:], sel[:1] + sel[2:], sel[:3] + bytes([sel[3] ^ (1 << rng.randrange(8))])):
                must_fail(call([bad] + args[1:], oc, create), "%s %s with selector %s" % (approval, sig.split("(")[0], bad.hex()))
            # negative IV: the final argument removed
            if nargs:
                must_fail(call(args[:-1], oc, create), "%s %s without its final argument" % (approval, sig.split("(")[0]), ops=())
    # bare calls
    if has_bare:
        r = call([], 1, False)
        if r.verdict != "approve" or r.logs != [b"optin call"]:
            rep.problem("router", "%s bare opt-in call: approve with log 'optin call' expected, model verdict=%s logs=%r" % (approval, r.verdict, r.logs))
        must_fail(call([b"extra"], 1, False), "%s bare opt-in call with an argument appended" % approval)
    for oc in (0, 1, 2, 4, 5):
        for create in (False, True):
            if not (has_bare and (oc, create) == (1, False)):
                # "invalid ApplicationArgs index" (a router without bare calls reads the selector first) is among the accepted errors
                must_fail(call([], oc, create), "%s bare call oc=%d create=%s (not registered)" % (approval, oc, create), ops=("err", "assert", "txna"))
    # clear-state programs
    if not nontriv:
        r = call([], 3, False, program=ctext)
        c = steps_executed(model, lambda fuel: make_ctx(True, [], fuel, ctext, extra_fields=[("OnCompletion", 3)]), ctext)
        if r.verdict != "approve" or c != 2:
            rep.problem("router", "%s: clear-state call must pass with cost 2; model verdict=%s cost=%r" % (clear, r.verdict, c))
    else:
        bespoke = {(): True, (b"random bytes",): True, (b"CLEANUP",): True, (b"CLEANUP", b"random bytes"): True,
                   (b"CLEANUP", b"ABORTING"): False, (b"CLEANUP", b"ABORTING", b"random bytes"): False}
        for a, passed in bespoke.items():
            r = call(list(a), 3, False, program=ctext)
            if (r.verdict == "approve") != passed or r.verdict not in ("approve", "reject"):
                rep.problem("router", "%s%r: passed=%s expected, model verdict=%s" % (clear, a, passed, r.verdict))
    return rep


# =================================================================================================
# entry points
# =================================================================================================
SECTIONS = ["parse", "scenario", "roundtrip", "pure", "directed", "corpus", "router"]
DOERS = {"parse": do_parse, "scenario": do_scenario, "roundtrip": do_roundtrip, "pure": do_pure, "directed": do_directed, "corpus": do_corpus, "router": do_router}
_WORKER_MODEL = None


def _worker_init():
    global _WORKER_MODEL
    common._pv_built.add("main")       # the parent has just built / checked the binary
    _WORKER_MODEL = new_model()


def _worker_task(task):
    kind, payload = task
    t = time.time()
    try:
        rep = DOERS[kind](_WORKER_MODEL, payload)
    except Exception as e:  # noqa
        import traceback
        rep = Report(None)
        rep.problem(kind, "the validation itself could not run (%s: %s) %s" % (type(e).__name__, str(e)[:200], traceback.format_exc()[-700:]))
    return kind, rep.counts, rep.problems, rep.extra, time.time() - t


def validate(ck, model, thorough=False, sections=None):
    """Run the validation; every disagreement becomes ck.model_problem(...).  Returns the counts for the
    evidence.  `model` (a running common.Model("main")) proves the binary is built; the work is sharded over
    worker processes with their own model processes because the model's reader is slow on long programs."""
    import multiprocessing as mp
    t0 = time.time()
    rep = Report(ck)
    seed = getattr(ck, "seed", None)
    if seed is None:
        seed = common.seed()
    rng = random.Random(seed * 1000003 + 4242)
    want = lambda k: (not sections) or k in sections   # noqa: E731
    tasks = []
    if want("roundtrip"):
        rt, probs = roundtrip_tasks(thorough, rng)
        tasks += rt
        for p in probs:
            rep.problem("roundtrip", p)
    if want("scenario"):
        tasks += scenario_tasks(thorough)
    if want("parse"):
        pt, executed = parse_tasks(thorough)
        tasks += pt
        rep.counts["parse.files_parsed_by_execution"] = executed
    if want("pure"):
        tasks += pure_tasks(thorough, seed)
        missing, extra = pure_opcode_sets()
        if missing or extra:
            rep.problem("pure-op", "opcode sets differ: in Ops.v but not in avm_ref.py %s; in avm_ref.py but not in Ops.v %s" % (missing, extra))
        rep.counts["pure.opcodes"] = len(avm_ref.ALL_OPS)
    if want("directed"):
        tasks.append(("directed", None))
    if want("corpus"):
        tasks += corpus_tasks(thorough)
    if want("router"):
        tasks += router_tasks(thorough)
    nproc = max(1, min(common.NPROC, 14, len(tasks)))
    timings, costs, per_op, open_q, deviations = {}, {}, {}, {}, []
    with mp.get_context("fork").Pool(nproc, initializer=_worker_init) as pool:
        for kind, counts, problems, extra, dt in pool.imap_unordered(_worker_task, tasks, chunksize=1):
            timings[kind] = round(timings.get(kind, 0) + dt, 2)
            for k, v in counts.items():
                rep.count(k, v)
            for p in problems:
                rep.problems.append(p)
                if len(rep.problems) <= 40 and ck is not None:
                    ck.model_problem(p[:900])
            costs.update(extra.get("costs", {}))
            for k, v in extra.get("open", {}).items():
                open_q[k] = open_q.get(k, 0) + v
            for k in extra.get("deviations", []):
                if k not in deviations:
                    deviations.append(k)
            for k, v in extra.get("per_op", {}).items():
                per_op[k] = per_op.get(k, 0) + v
    if per_op:
        rep.counts["pure.min_cases_per_opcode"] = min(per_op.values())
    out = {"tier": "thorough" if thorough else "quick", "counts": rep.counts, "cpu_s_by_section": timings,
           "wall_s": round(time.time() - t0, 1), "workers": nproc,
           "disagreements": len(rep.problems), "disagreement_samples": rep.problems[:12]}
    if open_q:
        out["open_questions"] = open_q
    if deviations:
        out["known_model_deviations"] = deviations
    if costs:
        keep = {k: v for k, v in costs.items() if not thorough or re.search(r"(exp\(\)|swap|square(_byref)?\((0|50|99),\)|fibonacci|string_mult\('xyzw', (0|1|14|15|44|45|99)\))", k)}
        out["executed_instructions_measured"] = dict(sorted(keep.items()))
    if want("parse"):
        hist = opcode_histogram()
        out["golden_opcode_histogram"] = dict(sorted(hist.items(), key=lambda kv: -kv[1]))
        rep.counts["parse.distinct_opcodes_in_goldens"] = len(hist)
    out["not_validated"] = ["opcode costs other than 1 and the budget itself", "app/asset/account parameter look-ups", "inner transaction execution",
                            "box size and reference limits", "log count/size limits", "version gating and mode restrictions of opcodes",
                            "cryptographic opcodes (hash functions are tagged stubs)", "switch/match/pushints/pushbytess (reported as unsupported)"]
    return out


class _StandaloneCheck:
    def __init__(self):
        self.broken = []
        self.seed = common.seed()

    def model_problem(self, what):
        self.broken.append(what)


def main(argv):
    import argparse
    import json
    ap = argparse.ArgumentParser()
    ap.add_argument("--thorough", action="store_true")
    ap.add_argument("--section", default=None, help="comma-separated subset of " + ",".join(SECTIONS))
    ap.add_argument("--json", action="store_true")
    a = ap.parse_args(argv)
    ck = _StandaloneCheck()
    model = new_model()
    t = time.time()
    res = validate(ck, model, thorough=a.thorough, sections=a.section.split(",") if a.section else None)
    model.close()
    if a.json:
        print(json.dumps(res, indent=1, default=repr))
    else:
        print("AVM model validation (%s): %.1fs" % (res["tier"], time.time() - t))
        for k, v in sorted(res["counts"].items()):
            print("  %-40s %s" % (k, v))
        print("  cpu seconds by section", res["cpu_s_by_section"], "workers", res["workers"])
        if res.get("executed_instructions_measured"):
            print("  executed instructions", res["executed_instructions_measured"])
    for b in ck.broken[:40]:
        print("MODEL-VALIDATION-FAILED: " + b)
    if ck.broken:
        print("%d disagreement(s)" % res["disagreements"])
        return 2
    print("AVM model validation: no disagreement")
    return 0


if __name__ == "__main__":
    common.ensure_env()
    sys.exit(main(sys.argv[1:]))
