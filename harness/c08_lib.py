"""C08 helpers: router configurations as plain data, the real Router built from them through the public API,
the independent oracle (`oracle_allowed`, from the property text), the call matrix, AVM execution, the
structural walk of the real ASTs, wire forms for the extracted model (ocaml/pv_c08), shrinking."""
import hashlib
import os
import re
import subprocess

from common import S, sx, parse_sx, OCAML

# OnCompletion: python keyword name, protocol number, pyteal enum name
OCS = [("no_op", 0, "NoOp"), ("opt_in", 1, "OptIn"), ("close_out", 2, "CloseOut"), ("clear_state", 3, "ClearState"),
       ("update_application", 4, "UpdateApplication"), ("delete_application", 5, "DeleteApplication")]
OC_NAMES = [o[0] for o in OCS]
OC5 = [o for o in OC_NAMES if o != "clear_state"]
OC_CODE = {o[0]: o[1] for o in OCS}
CODE_OC = {o[1]: o[0] for o in OCS}
CCS = ["never", "call", "create", "all"]

# method handler shapes: (abi signature suffix, example arguments that decode)
SHAPES = {
    "v0": ("()void", []),
    "r0": ("()uint64", []),
    "a1": ("(uint64)void", [(5).to_bytes(8, "big")]),
    "a2r": ("(uint64,string)uint64", [(9).to_bytes(8, "big"), b"\x00\x02hi"]),
}
BARE_KINDS = ["expr", "exprret", "sub", "abisub"]
# actions given as a plain Expr that ends in an If/ElseIf guard ladder WITHOUT a final Else (no guard fires in the
# generated calls unless stated): wrap_handler must append Approve() because the ladder can fall through
LADDER_KINDS = ["ladder1", "ladder2", "ladder3", "ladder2p", "ladder2a", "ladder_only"]
ACTION_KINDS = BARE_KINDS + LADDER_KINDS
RETURN_PREFIX = bytes.fromhex("151f7c75")


def selector(sig):
    """ARC-4 selector, computed here (not through pyteal/algosdk): first 4 bytes of SHA-512/256."""
    return hashlib.new("sha512_256", sig.encode()).digest()[:4]


def method_sig(m):
    return m["name"] + SHAPES[m["shape"]][0]


def handler_tag(hid):
    if hid == 200:
        return "CS"
    if hid >= 100:
        return "B%d" % (hid - 100)
    return "H%d" % hid


def tag_handler(tag):
    if tag == "CS":
        return 200
    return (100 if tag[0] == "B" else 0) + int(tag[1:])


def bare_hid(oc):
    return 100 + OC_CODE[oc]


# ---------------------------------------------------------------------------------------------
# independent oracle: the property text
# ---------------------------------------------------------------------------------------------
def cc_ok(cc, create):
    return {"never": False, "call": not create, "create": create, "all": True}[cc]


def oracle_allowed(cfg, args, oc_code, appid):
    """Handler id the registration allows for this call, or None. A method: first argument equals its selector
    and its MethodConfig allows (OnCompletion, creation status). A bare call: no arguments and the bare action of
    that OnCompletion allows the status."""
    create = appid == 0
    oc = CODE_OC[oc_code]
    if len(args) == 0:
        act = cfg["bare"].get(oc)
        if act is not None and cc_ok(act[1], create):
            return bare_hid(oc)
        return None
    hits = [(k, m) for k, m in enumerate(cfg["methods"]) if selector(method_sig(m)) == args[0]]
    for k, m in hits:
        if cc_ok(m["mc"].get(oc, "never"), create):
            return m["hid"]
    return None


def oracle_clear(cfg):
    return 200 if cfg["clear"] is not None else None


# ---------------------------------------------------------------------------------------------
# the real objects, through the public API
# ---------------------------------------------------------------------------------------------
def real_cc(pt, cc):
    return {"never": pt.CallConfig.NEVER, "call": pt.CallConfig.CALL, "create": pt.CallConfig.CREATE, "all": pt.CallConfig.ALL}[cc]


def real_mc(pt, mc):
    return pt.MethodConfig(**{oc: real_cc(pt, cc) for oc, cc in mc.items()})


def plain_handler(pt, kind, tag, name):
    """A none-typed action for a bare call / clear state, in the four forms wrap_handler accepts."""
    if kind == "expr":
        return pt.Log(pt.Bytes(tag))
    if kind == "exprret":
        return pt.Seq(pt.Log(pt.Bytes(tag)), pt.Approve())
    if kind in LADDER_KINDS:
        fee = pt.Txn.fee()                     # 1000 in every generated call
        g = lambda n: fee == pt.Int(n)
        log = pt.Log(pt.Bytes(tag))
        if kind == "ladder1":
            return pt.Seq(log, pt.If(g(7)).Then(pt.Reject()))
        if kind == "ladder2":
            return pt.Seq(log, pt.If(g(7)).Then(pt.Reject()).ElseIf(g(8)).Then(pt.Reject()))
        if kind == "ladder3":
            return pt.Seq(log, pt.If(g(7)).Then(pt.Reject()).ElseIf(g(8)).Then(pt.Err()).ElseIf(g(9)).Then(pt.Approve()))
        if kind == "ladder2p":                 # a plain statement in an arm
            return pt.Seq(log, pt.If(g(7)).Then(pt.Reject()).ElseIf(g(8)).Then(pt.Pop(pt.Int(1))))
        if kind == "ladder2a":                 # second guard fires and approves
            return pt.Seq(log, pt.If(g(7)).Then(pt.Reject()).ElseIf(g(1000)).Then(pt.Approve()).ElseIf(g(9)).Then(pt.Err()))
        if kind == "ladder_only":              # the ladder is the whole action; the tag is logged inside the guards' conditions' Seq
            return pt.If(pt.Seq(log, g(7))).Then(pt.Reject()).ElseIf(g(8)).Then(pt.Reject())

    def body():
        return pt.Log(pt.Bytes(tag))
    body.__name__ = name
    if kind == "sub":
        return pt.Subroutine(pt.TealType.none)(body)
    if kind == "abisub":
        return pt.ABIReturnSubroutine(body)
    raise ValueError(kind)


def method_fn(pt, m):
    tag = handler_tag(m["hid"])
    abi = pt.abi
    shape = m["shape"]
    if shape == "v0":
        def fn():
            return pt.Log(pt.Bytes(tag))
    elif shape == "r0":
        def fn(*, output: abi.Uint64):
            return pt.Seq(pt.Log(pt.Bytes(tag)), output.set(pt.Int(7)))
    elif shape == "a1":
        def fn(a: abi.Uint64):
            return pt.Seq(pt.Log(pt.Bytes(tag)), pt.Pop(a.get()))
    elif shape == "a2r":
        def fn(a: abi.Uint64, b: abi.String, *, output: abi.Uint64):
            return pt.Seq(pt.Log(pt.Bytes(tag)), output.set(a.get() + pt.Len(b.get())))
    else:
        raise ValueError(shape)
    fn.__name__ = m.get("fname", m["name"])        # the python function's own name (differs from the registered one with overriding_name)
    return fn


def real_bare(pt, bare):
    kw = {}
    for oc, act in bare.items():
        kind, cc = act[0], act[1]
        kw[oc] = pt.OnCompleteAction(action=plain_handler(pt, kind, handler_tag(bare_hid(oc)), "bare_" + oc), call_config=real_cc(pt, cc))
    return pt.BareCallActions(**kw)


def build_router(pt, cfg, only=None):
    """Router from a configuration: bare actions, clear_state, methods (decorator or add_method_handler).
    only: names of the methods to register now (the others can be added later with add_method)."""
    clear = None if cfg["clear"] is None else plain_handler(pt, cfg["clear"], "CS", "clear_action")
    bare = real_bare(pt, cfg["bare"]) if (cfg["bare"] or cfg.get("explicit_bare")) else None
    r = pt.Router("c08", bare, clear_state=clear)
    for m in cfg["methods"]:
        if only is None or m["name"] in only:
            add_method(pt, r, m)
    return r


def add_method(pt, r, m):
    """register one method on an existing Router, in the flavour the configuration asks for"""
    if True:
        fn = method_fn(pt, m)
        via = m.get("via", "decorator")
        if via == "decorator":
            kw = {oc: real_cc(pt, cc) for oc, cc in m["mc"].items()}
            r.method(**kw)(fn)
        elif via == "add_override":            # registered under m["name"], the function itself is called m["fname"]
            r.add_method_handler(pt.ABIReturnSubroutine(fn), overriding_name=m["name"], method_config=real_mc(pt, m["mc"]))
        elif via == "decorator_name":          # @router.method(name=X, ...) on a function with another name
            r.method(name=m["name"], **{oc: real_cc(pt, cc) for oc, cc in m["mc"].items()})(fn)
        elif via == "decorator_kw":            # keywords exactly as the user wrote them, explicit NEVERs included
            r.method(**{oc: real_cc(pt, cc) for oc, cc in m["kw"].items()})(fn)
        elif via == "default_decorator":       # documented default: MethodConfig(no_op=CallConfig.CALL)
            assert m["mc"] == {"no_op": "call"}
            r.method(fn)
        elif via == "default_add":
            assert m["mc"] == {"no_op": "call"}
            r.add_method_handler(pt.ABIReturnSubroutine(fn))
        else:
            r.add_method_handler(pt.ABIReturnSubroutine(fn), method_config=real_mc(pt, m["mc"]))


def optimize_of(pt, opt):
    """opt = None | (scratch_slots, frame_pointers) | (scratch_slots, frame_pointers, assemble_constants)"""
    if opt is None or (opt[0] is None and opt[1] is None):
        return None
    return pt.OptimizeOptions(scratch_slots=opt[0], frame_pointers=opt[1])


def asm_of(opt):
    return bool(opt is not None and len(opt) > 2 and opt[2])


def compile_router(pt, router, version, opt):
    """Router.compile_program with the option triple: version, OptimizeOptions, assemble_constants"""
    return router.compile_program(version=version, assemble_constants=asm_of(opt), optimize=optimize_of(pt, opt))


def directed_oc_cfgs():
    """Every OnCompletion a registration can mention, as a bare action and as a method entry, alone and together
    with its neighbours: what a wrong OnCompletion constant (or a swapped pair) in any code path shows on."""
    out = []
    for i, oc in enumerate(OC5):
        cc = CCS[1 + i % 3]
        out.append({"bare": {oc: ["expr", "all"]}, "clear": None, "methods": []})
        out.append({"bare": {}, "clear": "expr", "methods": [{"name": "m0", "hid": 0, "shape": "v0", "mc": {oc: "all"}, "via": "add"}]})
        out.append({"bare": {oc: ["sub", cc]}, "clear": None,
                    "methods": [{"name": "m0", "hid": 0, "shape": "v0", "mc": {oc: CCS[1 + (i + 1) % 3]}, "via": "decorator"}]})
        others = [o for o in OC5 if o != oc]
        out.append({"bare": {o: ["expr", "all"] for o in others}, "clear": "expr",
                    "methods": [{"name": "m0", "hid": 0, "shape": "a1", "mc": {o: "all" for o in others}, "via": "add"}]})
    # guard ladders without Else as bare / clear-state actions (every kind, next to a method with a subroutine behind it)
    for i, kind in enumerate(LADDER_KINDS):
        out.append({"bare": {OC5[i % 5]: [kind, "all"], OC5[(i + 2) % 5]: [LADDER_KINDS[(i + 1) % 6], "call"]}, "clear": kind,
                    "methods": [{"name": "m0", "hid": 0, "shape": "r0", "mc": {"no_op": "call"}, "via": "add"}]})
    # overriding names: registered as m0 / impl0 / m2 while the functions are called impl0 / impl1 / impl2
    out.append({"bare": {}, "clear": None, "methods": [
        {"name": "m0", "fname": "impl0", "hid": 0, "shape": "v0", "mc": {"no_op": "call"}, "via": "add_override"},
        {"name": "impl0", "fname": "impl1", "hid": 1, "shape": "v0", "mc": {"no_op": "all", "opt_in": "call"}, "via": "add_override"},
        {"name": "m2", "fname": "impl2", "hid": 2, "shape": "a1", "mc": {"delete_application": "all"}, "via": "decorator_name"}]})
    out.append({"bare": {"no_op": ["expr", "create"]}, "clear": "expr", "methods": [
        {"name": "m0", "fname": "impl0", "hid": 0, "shape": "a2r", "mc": {oc: "all" for oc in OC5}, "via": "add_override"}]})
    out.append({"bare": {oc: ["expr", CCS[1 + i % 3]] for i, oc in enumerate(OC5)}, "clear": "abisub",
                "methods": [{"name": "m0", "hid": 0, "shape": "v0", "mc": {oc: CCS[1 + (i + 1) % 3] for i, oc in enumerate(OC5)}, "via": "add"},
                            {"name": "m1", "hid": 1, "shape": "r0", "mc": {oc: "all" for oc in OC5}, "via": "add"}]})
    return out


# ---------------------------------------------------------------------------------------------
# wire forms for the model
# ---------------------------------------------------------------------------------------------
def w_cc(cc):
    return S(cc)


def w_mc(mc):
    return (S("mc"),) + tuple(w_cc(mc.get(oc, "never")) for oc in OC_NAMES)


def w_oca(hid, cc):
    return (S("oca"), S("none") if hid is None else hid, w_cc(cc))


def w_ba(bare):
    out = [S("ba")]
    for oc in OC_NAMES:
        act = bare.get(oc)
        out.append(w_oca(None, "never") if act is None else w_oca(bare_hid(oc), act[1]))
    return tuple(out)


def w_cfg(cfg):
    ms = tuple((S("m"), selector(method_sig(m)), w_mc(m["mc"]), m["hid"]) for m in cfg["methods"])
    return (S("cfg"), w_ba(cfg["bare"]), S("none") if cfg["clear"] is None else 200, ms)


def w_call(args, oc, appid):
    return (S("call"), tuple(args), oc, 1 if appid == 0 else 0)


def p_outcome(x):
    """model outcome -> ('runs', h) | ('rejects',) | ('fails',)"""
    if isinstance(x, list):
        return ("runs", x[1])
    return (x.name,)


def p_opt(x):
    return x[1] if isinstance(x, list) else None


class Proc:
    """pv_c08 process without the build step of common.Model (the parent has built it)."""

    def __init__(self):
        self.p = subprocess.Popen([os.path.join(OCAML, "pv_c08")], stdin=subprocess.PIPE, stdout=subprocess.PIPE,
                                  text=True, encoding="latin-1", bufsize=1)

    def ask(self, req):
        if not isinstance(req, str):
            req = sx(req)
        assert "\n" not in req
        self.p.stdin.write(req + "\n")
        self.p.stdin.flush()
        line = self.p.stdout.readline()
        if not line:
            raise RuntimeError("pv_c08 died on request: " + req[:300])
        return parse_sx(line.rstrip("\n"))

    def close(self):
        try:
            self.p.stdin.close()
            self.p.wait(timeout=5)
        except Exception:
            self.p.kill()


# ---------------------------------------------------------------------------------------------
# execution of real TEAL on the AVM model
# ---------------------------------------------------------------------------------------------
def make_ctx(args, oc, appid, msel, fuel=6000):
    fields = (S("fields"), ("OnCompletion", oc), ("ApplicationID", appid), ("NumAppArgs", len(args)), ("TypeEnum", 6),
              ("GroupIndex", 0), ("Fee", 1000), ("Sender", bytes(32)))
    return (S("ctx"), (S("mode"), S("app")), (S("gi"), 0), (S("app-id"), appid if appid else 1234),
            (S("group"), (fields, (S("arrays"), ("ApplicationArgs", tuple(args))))),
            (S("globals"), ("MinTxnFee", 1000), ("GroupSize", 1), ("ZeroAddress", bytes(32))),
            (S("msel"),) + tuple(msel), (S("fuel"), fuel))


TAG_RE = re.compile(rb"^(H\d+|B\d+|CS)$")


def observe(res):
    """(ran verdict (stack) (trace) (pc)) -> ('runs', h) | ('approves', tags) | ('rejects',) | ('fails',) | ('anomaly', text).
    runs h: approved with exactly one handler log, that of h; approves: approved with no or several handler logs;
    anomaly: the run is inconclusive (unsupported opcode, fuel, unreadable program)."""
    if not isinstance(res, list) or not res or res[0] != S("ran"):
        return ("anomaly", repr(res)[:200])
    v = res[1]
    logs = [e[1] for e in res[3][1:] if isinstance(e, list) and e and e[0] == S("log")]
    tags = [l for l in logs if isinstance(l, (bytes, bytearray)) and TAG_RE.match(l)]
    if v == S("approve"):
        if len(tags) == 1:
            return ("runs", tag_handler(tags[0].decode()))
        return ("approves", [t.decode() for t in tags])      # approved, but not "exactly one handler ran"
    if v == S("reject"):
        return ("rejects",)
    if v == S("fail"):
        return ("fails",)
    return ("anomaly", repr(v))


def observe_compact(row):
    """(verdict xLOG ...) of the batch command -> same classification as observe"""
    v = row[0]
    tags = [l for l in row[1:] if isinstance(l, (bytes, bytearray)) and TAG_RE.match(l)]
    if v == S("approve"):
        if len(tags) == 1:
            return ("runs", tag_handler(tags[0].decode()))
        return ("approves", [t.decode() for t in tags])
    if v == S("reject"):
        return ("rejects",)
    if v == S("fail"):
        return ("fails",)
    return ("anomaly", repr(v))


def run_calls(proc, teal, msel, calls):
    """Execute one TEAL program on many application calls [(args, oc, appid)]: the program is parsed once."""
    res = proc.ask((S("runs"), (S("msel"),) + tuple(msel), teal) + tuple((S("c"), tuple(a), oc, appid) for a, oc, appid in calls))
    if not isinstance(res, list) or not res or res[0] != S("r") or len(res) != len(calls) + 1:
        return [("anomaly", repr(res)[:200])] * len(calls)
    return [observe_compact(r) for r in res[1:]]


def run_call(proc, teal, msel, args, oc, appid):
    return run_calls(proc, teal, msel, [(args, oc, appid)])[0]


# ---------------------------------------------------------------------------------------------
# call matrix
# ---------------------------------------------------------------------------------------------
EXTRAS = [b"", b"\x00\x00\x00\x00\x00\x00\x00\x2a"]


def materialize(cfg, desc):
    """Application arguments of a symbolic call. desc = {"first": "none" | "sel:<method name>" | "raw:<hex>", "extras": n};
    a selector call carries decodable arguments for the addressed method's shape."""
    first = desc["first"]
    if first == "none":
        return []
    if first.startswith("sel:"):
        ms = [m for m in cfg["methods"] if m["name"] == first[4:]]
        if not ms:
            return None
        head = [selector(method_sig(ms[0]))] + list(SHAPES[ms[0]["shape"]][1])
    elif first.startswith("own:"):
        # the selector of the function's OWN signature (not the registered, overriding name), decodable arguments
        ms = [m for m in cfg["methods"] if m.get("fname") == first[4:]]
        if not ms:
            return None
        head = [selector(ms[0]["fname"] + SHAPES[ms[0]["shape"]][0])] + list(SHAPES[ms[0]["shape"]][1])
    else:
        head = [bytes.fromhex(first[4:])]
    return head + [EXTRAS[i % 2] for i in range(desc["extras"])]


def arg_shapes(cfg, extras=(0, 1, 2)):
    """Symbolic application-argument lists: each registered selector with decodable arguments, an unknown selector,
    a 3-byte prefix and a 5-byte extension of a registered selector (or of the unknown one), and no arguments."""
    out = [{"first": "none", "extras": 0}]
    firsts = ["sel:" + m["name"] for m in cfg["methods"]]
    firsts += ["own:" + m["fname"] for m in cfg["methods"] if m.get("fname") and m["fname"] != m["name"]]
    unknown = selector("nobody_registered_this()void")
    firsts.append("raw:" + unknown.hex())
    base = selector(method_sig(cfg["methods"][0])) if cfg["methods"] else unknown
    firsts.append("raw:" + base[:3].hex())
    firsts.append("raw:" + (base + b"\x00").hex())
    for first in firsts:
        for e in extras:
            out.append({"first": first, "extras": e})
    return [("%s+%d" % (d["first"], d["extras"]), materialize(cfg, d), d) for d in out]


def call_matrix(cfg, extras=(0, 1, 2)):
    calls = []
    for label, args, desc in arg_shapes(cfg, extras):
        for oc in range(6):
            for appid in (0, 77):
                calls.append((label, args, oc, appid, desc))
    return calls


# ---------------------------------------------------------------------------------------------
# structural walk of the real AST
# ---------------------------------------------------------------------------------------------
SIG_RE = re.compile(r"\(MethodSignature '([^']*)'\)")
HANDLER_RE = re.compile(r'"(H\d+|B\d+|CS)"|SubroutineCall (m\d+|impl\d+|bare_[a-z_]+|clear_action)(?:_caster)? ')


def norm_cond(text):
    return SIG_RE.sub(lambda mo: "(MethodSignature x%s)" % selector(mo.group(1)).hex(), text)


def skeleton(pt, expr, names):
    """Cond / Assert / Reject skeleton of a router-built AST, same shape as the model's printed `prog`.
    names: subroutine name -> handler id."""
    if isinstance(expr, pt.Cond):
        return [S("cond")] + [[norm_cond(str(c)), skeleton(pt, b, names)] for c, b in expr.args]
    text = str(expr)
    if text == "(ExitProgram (Int 0))":
        return [S("reject")]
    if isinstance(expr, pt.Seq) and len(expr.args) == 2 and isinstance(expr.args[0], pt.Assert):
        conds = expr.args[0].cond
        if len(conds) != 1:
            return [S("unrecognised"), "assert with %d conditions" % len(conds)]
        return [S("assert"), norm_cond(str(conds[0])), skeleton(pt, expr.args[1], names)]
    found = set()
    for mo in HANDLER_RE.finditer(text):
        found.add(tag_handler(mo.group(1)) if mo.group(1) else names.get(mo.group(2)))
    if len(found) != 1 or None in found:
        return [S("unrecognised"), text[:200]]
    # wrap_handler: the handler, then Approve()
    if not (text.endswith("(ExitProgram (Int 1)))") or text == "(ExitProgram (Int 1))"):
        return [S("handler-without-approve"), found.pop()]
    return [S("handler"), found.pop()]


def handler_names(cfg):
    names = {"clear_action": 200}
    for oc in cfg["bare"]:
        names["bare_" + oc] = bare_hid(oc)
    for m in cfg["methods"]:
        # the subroutine in the AST carries the function's own name (add_method_handler) or the decorator's name=
        names[m["fname"] if m.get("via") == "add_override" else m["name"]] = m["hid"]
    return names


# ---------------------------------------------------------------------------------------------
# configurations
# ---------------------------------------------------------------------------------------------
def gen_mc(rng, style=None):
    """A MethodConfig (dict oc -> cc, NEVER omitted) that is not all-NEVER."""
    style = style or rng.choice(["one", "two", "dense", "all", "sparse", "default"])
    while True:
        if style == "default":
            mc = {"no_op": "call"}
        elif style == "one":
            mc = {rng.choice(OC5): rng.choice(CCS[1:])}
        elif style == "two":
            mc = {oc: rng.choice(CCS[1:]) for oc in rng.sample(OC5, 2)}
        elif style == "all":
            mc = {oc: "all" for oc in OC5}
            if rng.random() < 0.5:
                mc[rng.choice(OC5)] = rng.choice(CCS)
        elif style == "dense":
            mc = {oc: rng.choice(CCS[1:]) for oc in OC5}
        else:
            mc = {oc: rng.choice(CCS) for oc in OC5}
        mc = {k: v for k, v in mc.items() if v != "never"}
        if mc:
            return mc


def gen_cfg(rng, nmeth=None, nbare=None):
    nmeth = rng.choice([0, 1, 1, 2, 2, 3, 4]) if nmeth is None else nmeth
    nbare = rng.choice([0, 0, 1, 2, 3, 5]) if nbare is None else nbare
    bare = {}
    for oc in rng.sample(OC5, min(nbare, 5)):
        bare[oc] = [rng.choice(BARE_KINDS + BARE_KINDS + LADDER_KINDS), rng.choice(CCS[1:])]
    methods = []
    for k in range(nmeth):
        mc = gen_mc(rng)
        via = rng.choice(["decorator", "add"])
        if mc == {"no_op": "call"} and rng.random() < 0.7:
            via = rng.choice(["default_decorator", "default_add"])
        m = {"name": "m%d" % k, "hid": k, "shape": rng.choice(["v0", "v0", "v0", "r0", "a1", "a2r"]), "mc": mc, "via": via}
        if via == "add" and rng.random() < 0.45:
            # registered under a name that is not the function's: add_method_handler(sub, overriding_name=X); sometimes X is
            # the own name of an earlier function that is registered under yet another name
            m["via"], m["fname"] = "add_override", "impl%d" % k
            stolen = [x["fname"] for x in methods if x.get("via") == "add_override" and not any(y["name"] == x["fname"] for y in methods)]
            if stolen and rng.random() < 0.5:
                m["name"] = stolen[0]
        elif via == "decorator" and rng.random() < 0.2:
            m["via"], m["fname"] = "decorator_name", "impl%d" % k
        if via == "decorator" and m["via"] == "decorator" and rng.random() < 0.4:
            m["via"] = "decorator_kw"
            m["kw"] = dict(mc, **{oc: "never" for oc in OC5 if oc not in mc and rng.random() < 0.6})
        methods.append(m)
    return {"bare": bare, "clear": rng.choice([None, None] + BARE_KINDS + LADDER_KINDS), "methods": methods}


def small_cfgs():
    """Exhaustive: 0..1 methods whose (no_op, delete_application) range over all CallConfig pairs, bare actions
    on the same two OnCompletions over all pairs - the interplay of a bare action and a method on one OnCompletion."""
    out = []
    k = 0
    for m_no, m_del in [(a, b) for a in CCS for b in CCS]:
        for b_no, b_del in [(a, b) for a in CCS for b in CCS]:
            mc = {oc: cc for oc, cc in (("no_op", m_no), ("delete_application", m_del)) if cc != "never"}
            bare = {oc: ["expr", cc] for oc, cc in (("no_op", b_no), ("delete_application", b_del)) if cc != "never"}
            methods = [{"name": "m0", "hid": 0, "shape": "v0", "mc": mc, "via": "decorator" if k % 2 else "add"}] if mc else []
            out.append({"bare": bare, "clear": [None, "expr"][k % 2], "methods": methods})
            k += 1
    return out


def shrink_cfg_steps(cfg):
    """Smaller variants of a configuration (one step each)."""
    import copy
    for i in range(len(cfg["methods"])):
        c = copy.deepcopy(cfg)
        del c["methods"][i]
        yield c
    for oc in list(cfg["bare"]):
        c = copy.deepcopy(cfg)
        del c["bare"][oc]
        yield c
    if cfg["clear"] is not None:
        c = copy.deepcopy(cfg)
        c["clear"] = None
        yield c
    for i, m in enumerate(cfg["methods"]):
        for oc in list(m["mc"]):
            if len(m["mc"]) > 1:
                c = copy.deepcopy(cfg)
                del c["methods"][i]["mc"][oc]
                if "kw" in c["methods"][i]:
                    c["methods"][i]["kw"].pop(oc, None)
                yield c
        for oc, cc in list(m.get("kw", {}).items()):
            if cc == "never" and len(m["kw"]) > 1:
                c = copy.deepcopy(cfg)
                del c["methods"][i]["kw"][oc]
                yield c
        if m.get("via") in ("add_override", "decorator_name") and not any(x["name"] == m["fname"] for x in cfg["methods"]):
            c = copy.deepcopy(cfg)                # register under the function's own name instead
            c["methods"][i]["via"] = "add" if m["via"] == "add_override" else "decorator"
            del c["methods"][i]["fname"]
            yield c
        if m["shape"] != "v0":
            c = copy.deepcopy(cfg)
            c["methods"][i]["shape"] = "v0"
            yield c
    for oc, act in cfg["bare"].items():
        if act[0] != "expr":
            c = copy.deepcopy(cfg)
            c["bare"][oc][0] = "expr"
            yield c
