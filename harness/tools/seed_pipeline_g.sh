#!/bin/bash
# usage: seed_pipeline_g.sh gN [EXTRA_CHECK...]  — round-4 (by file group) outputs in /tmp/mut_out/gN: up to 3 changes, each naming the property it breaks
g=$1; shift
t=/verif/harness/tools; o=/tmp/mut_out/$g; wt=${WT:-/tmp/mut_$g}
for k in 1 2 3; do
  [ -f $o/patch$k.diff ] && [ -f $o/meta$k.json ] || continue
  prop=$(python3 -c "import json,re; m=json.load(open('$o/meta$k.json')); p=str(m.get('property','')); r=re.findall(r'C[0-9][0-9]',p); print(r[0] if r else 'C01')")
  slug=$(python3 -c "import json,re; m=json.load(open('$o/meta$k.json')); f=(m.get('files_changed') or ['x'])[0].split('/')[-1].replace('.py','').strip('_'); print(re.sub(r'[^a-z0-9]+','-',f.lower()))")
  n="$prop-$g-$slug-$k"
  # normalise the meta's property field to the bare id
  python3 - <<PY
import json
p='$o/meta$k.json'; m=json.load(open(p)); m['property_text']=m.get('property'); m['property']='$prop'; json.dump(m,open(p,'w'),indent=1)
PY
  $t/seed_confirm.sh $wt $o/patch$k.diff $o/demo$k.py $o/meta$k.json $n
  [ -d /verif/seeded/$n ] && python3 $t/seed_run.py $n $prop "$@"
done
