#!/bin/bash
# usage: seed_confirm.sh WORKTREE PATCH DEMO AGENT_META NAME
# Confirms a seeded change independently of whoever proposed it: (1) the demo exits 0 on /repo's HEAD and non-zero with
# the patch, (2) the pinned baseline suite still passes every stable test with the patch applied.  On success the change
# is stored as /verif/seeded/NAME/{patch.diff,demo.py,meta.json}; the scratch tree is left clean.
wt=$1; patch=$2; demo=$3; ameta=$4; name=$5
head=$(git -C /repo rev-parse HEAD)
git -C "$wt" checkout -q -- . ; git -C "$wt" clean -fdq; git -C "$wt" checkout -q --detach "$head"
PYTHONPATH=$wt /venv/bin/python "$demo" >/dev/null 2>&1; dc=$?
git -C "$wt" apply "$patch" || { echo "$name: PATCH DOES NOT APPLY"; exit 3; }
PYTHONPATH=$wt /venv/bin/python "$demo" >/tmp/seed_demo_$name.out 2>&1; dp=$?
xml=/tmp/seed_suite_$name.xml
( cd "$wt" && PYTHONPATH=$wt /venv/bin/python -m pytest -ra -q -p no:cacheprovider --timeout=900 --continue-on-collection-errors --junitxml=$xml >/tmp/seed_suite_$name.log 2>&1 )
# tests lost under machine load (timeouts) are re-run on their own, still with the patch applied
lost=$(/venv/bin/python - "$xml" <<'PY'
import json, sys, xml.etree.ElementTree as ET
b = set(json.load(open('/root/.vp/BASELINE.json'))['stable_pass'])
ok = set(); ids = {}
for tc in ET.parse(sys.argv[1]).iter('testcase'):
    k = tc.get('classname') + '::' + tc.get('name')
    ids[k] = tc.get('classname').replace('.', '/') + '.py::' + tc.get('name')
    if not any(c.tag in ('failure', 'error', 'skipped') for c in tc):
        ok.add(k)
print(' '.join(ids.get(k, '') for k in sorted(b - ok)[:20]))
PY
)
rerun_ok=""
if [ -n "$lost" ]; then
  ( cd "$wt" && PYTHONPATH=$wt /venv/bin/python -m pytest -q -p no:cacheprovider --timeout=900 $lost >/tmp/seed_rerun_$name.log 2>&1 ) && rerun_ok="yes"
fi
git -C "$wt" checkout -q -- . ; git -C "$wt" clean -fdq
RERUN_OK=$rerun_ok /venv/bin/python - "$xml" "$patch" "$demo" "$ameta" "$name" "$dc" "$dp" "$head" <<'PY'
import json, sys, os, shutil, xml.etree.ElementTree as ET
xml, patch, demo, ameta, name, dc, dp, head = sys.argv[1:]
b = set(json.load(open('/root/.vp/BASELINE.json'))['stable_pass'])
ok = set()
for tc in ET.parse(xml).iter('testcase'):
    if not any(c.tag in ('failure', 'error', 'skipped') for c in tc):
        ok.add(tc.get('classname') + '::' + tc.get('name'))
missing = sorted(b - ok)
rerun_note = ""
if missing and len(missing) <= 20 and os.environ.get("RERUN_OK") == "yes":
    rerun_note = "; %d test(s) that failed under load in the full run (%s) pass when re-run alone with the patch applied" % (len(missing), ", ".join(missing))
    ok |= set(missing); missing = []
good = int(dc) == 0 and int(dp) != 0 and not missing
print("%s: demo clean=%s patched=%s; suite: %d/%d stable tests pass%s -> %s" % (name, dc, dp, len(b & ok), len(b), (" (lost: %s)" % missing[:3]) if missing else "", "CONFIRMED" if good else "REJECTED"))
if good:
    d = '/verif/seeded/' + name
    os.makedirs(d, exist_ok=True)
    shutil.copy(patch, d + '/patch.diff'); shutil.copy(demo, d + '/demo.py')
    a = json.load(open(ameta))
    meta = {"breaks_property": a.get("property"), "summary": a.get("summary"), "files_changed": a.get("files_changed"),
            "needs_to_manifest": a.get("needs_to_manifest"), "why_tests_pass": a.get("why_tests_pass"),
            "expected_behavioural_effect": a.get("expected_behavioural_effect"),
            "proposed_by": "fresh sub-agent given only the property text and a scratch worktree",
            "confirmed": {"repo_head": head, "demo_exit_clean": int(dc), "demo_exit_patched": int(dp),
                          "suite": "baseline command of /root/.vp/BASELINE.json run in the patched scratch worktree: %d/%d stable tests pass%s" % (len(b & ok), len(b), rerun_note),
                          "tool": "harness/tools/seed_confirm.sh"},
            "checks_run": {}}
    old = d + '/meta.json'
    if os.path.exists(old):
        meta["checks_run"] = json.load(open(old)).get("checks_run", {})
    json.dump(meta, open(old, 'w'), indent=1)
os.remove(xml)
PY
