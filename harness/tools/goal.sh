#!/bin/bash
# usage: goal.sh File.v LINE  — show the proof state after LINE (run from /verif/coq)
f=$1; n=$2
{ head -n $n "$f"; echo "Show."; } | timeout 120 coqtop -Q . PV -w -notation-overridden 2>&1 | tail -n ${3:-40}
