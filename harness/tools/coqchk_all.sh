#!/bin/bash
# Re-check every Props/*.vo (and everything they depend on) with the independent checker and record the axiom summary.
cd /verif/coq
mods=$(ls Props/*.v | sed 's|/|.|; s|\.v$||; s|^|PV.|')
( date; echo "coqchk -silent -o -Q . PV $mods"; timeout 14000 coqchk -silent -o -Q . PV $mods 2>&1 | tail -40 ) > /verif/design_notes/coqchk.txt 2>&1
echo "exit $?" >> /verif/design_notes/coqchk.txt
