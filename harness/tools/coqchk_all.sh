#!/bin/bash
# Re-check every Props/*.vo (and everything they depend on) with the independent checker and record the axiom summary.
# Works on a private copy of coq/ (the checks delete and rebuild the .vo files of their own targets on every run, so a
# concurrent check would pull files from under coqchk); the copy is completed with a full `make` first and removed afterwards.
set -u
tmp=$(mktemp -d /tmp/coqchk_copy.XXXXXX)
cp -a /verif/coq/. $tmp/
cd $tmp
( coq_makefile -f _CoqProject -o Makefile >/dev/null 2>&1; timeout 7200 make -j6 >/tmp/coqchk_make.log 2>&1 ); mk=$?
mods=$(ls Props/*.v | sed 's|/|.|; s|\.v$||; s|^|PV.|')
( date; echo "full make in the copy: exit $mk"; echo "coqchk -silent -o -Q . PV $mods"; timeout 14000 coqchk -silent -o -Q . PV $mods 2>&1 | tail -40; echo "exit ${PIPESTATUS[0]}" ) > /verif/design_notes/coqchk.txt 2>&1
cd /; rm -rf $tmp
