#!/usr/bin/env python3
"""Generate coq/CallX/<F>.v from coq/Proofs/<F>.v: the C01 proof chain re-checked for the operation
semantics with a call oracle (coq/CallX/Denote.v).  Imports of the semantic modules are redirected to
their CallX counterparts; the few proofs that look inside [do_op]/[exec_ops]/[lstep_op] are patched
(PATCHES below: exact text replacements, each must apply exactly once).
usage: callx_gen.py <coq dir>"""
import re, sys, os

COPY = ["LowerLemmas", "LowerCorrect", "NormalizeSem", "NormalizeCorrect", "NormalizeLowered",
        "FlattenCorrect", "SortCorrect", "EndToEndGlue", "EndToEnd",
        "SlotCompose", "SlotComposeCover", "SlotComposeEnd", "SlotComposeFinal"]
REDIRECT = {"Src.Denote": "CallX.Denote", "Comp.GraphSem": "CallX.GraphSem", "Comp.LinearSem": "CallX.LinearSem",
            "Comp.SimCheck": "CallX.SimCheck"}
for f in COPY:
    REDIRECT["Proofs." + f] = "CallX." + f

PATCHES = {}

def patch(name, old, new):
    PATCHES.setdefault(name, []).append((old, new))

exec(open(os.path.join(os.path.dirname(os.path.abspath(__file__)), "callx_patches.py")).read())

def gen(coq, name):
    src = open(os.path.join(coq, "Proofs", name + ".v")).read()
    def fix_import(m):
        toks = m.group(0)
        return re.sub(r"[A-Za-z]+\.[A-Za-z0-9_]+", lambda t: REDIRECT.get(t.group(0), t.group(0)), toks)
    src = re.sub(r"From PV Require Import[^.]*(?:\.[A-Za-z][^.\s]*[^.]*)*?\.\s*\n", fix_import, src)
    for old, new in PATCHES.get(name, []):
        n = src.count(old)
        if n != 1:
            sys.exit("patch for %s applies %d times:\n%s" % (name, n, old))
        src = src.replace(old, new)
    head = "(* GENERATED from Proofs/%s.v by harness/tools/callx_gen.py (semantics with a call oracle, CallX/Denote.v); do not edit. *)\n" % name
    open(os.path.join(coq, "CallX", name + ".v"), "w").write(head + src)

if __name__ == "__main__":
    coq = sys.argv[1]
    for f in COPY:
        gen(coq, f)
