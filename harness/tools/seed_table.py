#!/usr/bin/env python3
"""Generate /verif/seeded/README.md from the meta.json files: which checks catch which seeded change."""
import glob
import json
import os

VERIF = os.path.dirname(os.path.dirname(os.path.dirname(os.path.abspath(__file__))))
rows = []
for p in sorted(glob.glob(os.path.join(VERIF, "seeded", "*", "meta.json"))):
    m = json.load(open(p))
    name = os.path.basename(os.path.dirname(p))
    res = []
    for c, r in sorted(m.get("checks_run", {}).items()):
        if c.startswith("_"):
            continue
        if r.get("caught"):
            res.append("%s: **caught** (%s, %d VIOLATION line%s)" % (c, "failing input in the replay" if r.get("concrete_failing_input") else "no-failing-input-found",
                                                                      r.get("violations", 0), "" if r.get("violations") == 1 else "s"))
        else:
            res.append("%s: missed (exit %s)" % (c, r.get("exit")))
    rows.append((name, m.get("breaks_property"), (m.get("summary") or "").replace("|", "/").replace("\n", " "),
                 (m.get("needs_to_manifest") or "").replace("|", "/").replace("\n", " ")[:300], "<br>".join(res) or "not run yet", m.get("note", "")))
out = ["# Seeded changes", "",
       "Each directory holds `patch.diff` (apply with `git -C <scratch tree> apply`), `demo.py` (exits 0 on the unchanged tree, non-zero on the changed one) and `meta.json`.",
       "None of these is ever applied to /repo itself: `harness/tools/seed_run.py NAME CHECK...` creates a scratch worktree under /tmp, runs the checks with `PYTEAL_REPO` pointing there and removes it.",
       "Every change was confirmed independently of its author by `harness/tools/seed_confirm.sh` (demo outcome on both trees; the pinned baseline suite passes all 3028 stable tests with the change applied).", "",
       "| seeded change | property | what it does | needs, to manifest | checks run (quick tier) |", "|---|---|---|---|---|"]
for r in rows:
    out.append("| `%s` | %s | %s | %s | %s%s |" % (r[0], r[1], r[2], r[3], r[4], ("<br>" + r[5]) if r[5] else ""))
open(os.path.join(VERIF, "seeded", "README.md"), "w").write("\n".join(out) + "\n")
print("%d seeded changes" % len(rows))
