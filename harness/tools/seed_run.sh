#!/bin/bash
# usage: seed_run.sh WORKTREE PATCH DEMO CHECK...   — confirm a seeded change and run checks against it.
# The worktree is first moved to /repo's HEAD, the demo is run on the clean and on the patched tree,
# then each check runs with PYTEAL_REPO=WORKTREE; the tree is cleaned afterwards.
wt=$1; patch=$2; demo=$3; shift 3
head=$(git -C /repo rev-parse HEAD)
git -C "$wt" checkout -q -- . ; git -C "$wt" checkout -q --detach "$head" 2>/dev/null
PYTHONPATH=$wt /venv/bin/python "$demo" >/dev/null 2>&1; echo "demo clean exit=$?"
if ! git -C "$wt" apply "$patch"; then echo "PATCH DOES NOT APPLY on $head"; exit 3; fi
PYTHONPATH=$wt /venv/bin/python "$demo" >/dev/null 2>&1; echo "demo patched exit=$?"
for c in "$@"; do
  echo "--- check $c (PYTEAL_REPO=$wt)"
  ( cd /verif && PYTEAL_REPO=$wt ./check $c --tier quick 2>&1 | grep -E "^VIOLATION|^KNOWN|quick:|MODEL-VALIDATION|HARNESS" | cut -c1-260 | head -8; echo "exit=${PIPESTATUS[0]}" )
done
git -C "$wt" checkout -q -- .
