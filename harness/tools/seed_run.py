#!/usr/bin/env python3
"""seed_run.py NAME CHECK... [--tier quick|thorough] [--keep]

Run checks against a stored seeded change (/verif/seeded/NAME/patch.diff) WITHOUT touching /repo:
a scratch worktree of /repo's HEAD is created under /tmp, the patch applied there, every CHECK run with
PYTEAL_REPO=<worktree>, the result recorded in /verif/seeded/NAME/meta.json ("checks_run"), and the worktree removed.
A check "catches" the change when it exits 1 with a VIOLATION line; `concrete` says whether some VIOLATION line does
not end in no-failing-input-found (i.e. a failing input was found and written to the replay file)."""
import json
import os
import subprocess
import sys
import time

VERIF = os.path.dirname(os.path.dirname(os.path.dirname(os.path.abspath(__file__))))


def sh(cmd, **kw):
    return subprocess.run(cmd, shell=True, stdout=subprocess.PIPE, stderr=subprocess.STDOUT, text=True, **kw)


def main(argv):
    tier = "quick"
    if "--tier" in argv:
        i = argv.index("--tier")
        tier = argv[i + 1]
        del argv[i:i + 2]
    name, checks = argv[0], argv[1:]
    d = os.path.join(VERIF, "seeded", name)
    meta_p = os.path.join(d, "meta.json")
    meta = json.load(open(meta_p))
    wt = "/tmp/seedwt_%s_%d" % (name, os.getpid())
    head = sh("git -C /repo rev-parse HEAD").stdout.strip()
    r = sh("git -C /repo worktree add -q --detach %s %s" % (wt, head))
    if r.returncode != 0:
        print(r.stdout)
        return 2
    try:
        r = sh("git -C %s apply %s/patch.diff" % (wt, d))
        if r.returncode != 0:
            print("%s: PATCH DOES NOT APPLY on %s: %s" % (name, head[:7], r.stdout[:300]))
            meta.setdefault("checks_run", {})["_apply"] = {"repo_head": head[:7], "applies": False}
            json.dump(meta, open(meta_p, "w"), indent=1)
            return 3
        dc = sh("PYTHONPATH=/repo /venv/bin/python %s/demo.py" % d).returncode
        dp = sh("PYTHONPATH=%s /venv/bin/python %s/demo.py" % (wt, d)).returncode
        print("%s: demo clean=%d patched=%d (head %s)" % (name, dc, dp, head[:7]))
        for c in checks:
            t0 = time.time()
            r = sh("cd %s && PYTEAL_REPO=%s ./check %s --tier %s" % (VERIF, wt, c, tier))
            lines = r.stdout.splitlines()
            viol = [l for l in lines if l.startswith("VIOLATION")]
            concrete = any(not l.rstrip().endswith("no-failing-input-found") for l in viol)
            first = None
            if viol:
                rp = viol[0].split("replay=")[1].split()[0]
                try:
                    first = json.load(open(rp)).get("message") or json.load(open(rp)).get("what")
                except Exception:
                    first = None
            res = {"repo_head": head[:7], "tier": tier, "exit": r.returncode, "violations": len(viol), "concrete_failing_input": concrete,
                   "caught": r.returncode == 1 and bool(viol), "seconds": round(time.time() - t0),
                   "first_violation": (first or "")[:400], "summary_line": next((l for l in reversed(lines) if " %s:" % tier in l), "")[:200]}
            meta.setdefault("checks_run", {})[c] = res
            print("  %s: exit=%d violations=%d concrete=%s  %s" % (c, r.returncode, len(viol), concrete, (first or "")[:160]))
            if r.returncode not in (0, 1) or (r.returncode == 1 and not viol):
                print("\n".join(lines[-15:]))
        json.dump(meta, open(meta_p, "w"), indent=1)
    finally:
        sh("git -C /repo worktree remove --force %s" % wt)
    return 0


if __name__ == "__main__":
    sys.exit(main(sys.argv[1:]))
