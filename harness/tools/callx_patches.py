# patches: patch(file, old, new)   (old must occur exactly once in Proofs/<file>.v)

# ---------------- LowerLemmas ----------------
patch("LowerLemmas",
"""    match do_op env o imms stk st with DNorm _ _ | DFail | DUnsup _ => True | _ => False end.
  Proof.
    unfold do_op.
    destruct (slot_access o imms) as [[[|] u]|].""",
"""    match do_op env o imms stk st with DNorm _ _ | DExit _ _ | DFail | DUnsup _ => True | _ => False end.
  Proof.
    unfold do_op.
    destruct (call_target o imms) as [cf|]; [destruct (e_call env cf stk st); exact Logic.I|].
    destruct (slot_access o imms) as [[[|] u]|].""")

patch("LowerLemmas",
"""                 Some (match do_op env o imms stk st with
                       | DNorm s' st' => cont_conf n s' st'
                       | DUnsup o' => GUnsup o'
                       | _ => GFail
                       end)).
    { rewrite (step_simple _ _ _ _ _ _ E). cbn [exec_ops i_op i_args]. rewrite P1, P2.""",
"""                 Some (match do_op env o imms stk st with
                       | DNorm s' st' => cont_conf n s' st'
                       | DExit v' st' => GExit v' st'
                       | DUnsup o' => GUnsup o'
                       | _ => GFail
                       end)).
    { rewrite (step_simple _ _ _ _ _ _ E). cbn [exec_ops i_op i_args]. rewrite P1, P2.""")

patch("LowerLemmas",
"""    { destruct H as [H|H]; destruct o; try discriminate H; auto. }
    - rewrite slot_access_none by reflexivity.
      destruct (args_to_imms env O_return_ imms); [|eauto]. unfold exec_op. cbn. eauto.
    - rewrite slot_access_none by reflexivity.
      destruct (args_to_imms env O_retsub imms); [|eauto]. unfold exec_op. cbn. eauto.""",
"""    { destruct H as [H|H]; destruct o; try discriminate H; auto. }
    - cbn [call_target]. rewrite slot_access_none by reflexivity.
      destruct (args_to_imms env O_return_ imms); [|eauto]. unfold exec_op. cbn. eauto.
    - cbn [call_target]. rewrite slot_access_none by reflexivity.
      destruct (args_to_imms env O_retsub imms); [|eauto]. unfold exec_op. cbn. eauto.""")

patch("LowerLemmas",
"""    match den_ops env ops stk st with
    | DNorm s' st' => BOk s' st'
    | DUnsup o => BUnsup o
    | _ => BFail
    end.""",
"""    match den_ops env ops stk st with
    | DNorm s' st' => BOk s' st'
    | DExit v' st' => BExit v' st'
    | DUnsup o => BUnsup o
    | _ => BFail
    end.""")

patch("LowerLemmas",
"""    match den_ops env ops stk st with DNorm _ _ | DFail | DUnsup _ => True | _ => False end.""",
"""    match den_ops env ops stk st with DNorm _ _ | DExit _ _ | DFail | DUnsup _ => True | _ => False end.""")

patch("LowerLemmas",
"""                 Some (match den_ops env ops stk st with
                       | DNorm s' st' => cont_conf n s' st'
                       | DUnsup o' => GUnsup o'
                       | _ => GFail
                       end)).""",
"""                 Some (match den_ops env ops stk st with
                       | DNorm s' st' => cont_conf n s' st'
                       | DExit v' st' => GExit v' st'
                       | DUnsup o' => GUnsup o'
                       | _ => GFail
                       end)).""")

# ---------------- LowerCorrect: the ECall case is now a real claim ----------------
patch("LowerCorrect",
"""    - (* ECall: no claim (calls are handled by the call-aware evaluator) *)
      exact Logic.I.""",
"""    - (* ECall: the arguments, then the block holding the call instruction (the oracle's step) *)
      destruct (add_block g (BSimple [I O_callsub [ASub sub]] k)) as [opb g1] eqn:E1.
      destruct (lower_chain (lower o c) args (Some opb) g1) as [[s0 x] g2] eqn:E2.
      destruct (chain_start _ _ _ _ _ _ _ E2) as [s1 ->]. cbn [or_else] in E. inversion E; subst; clear E.
      destruct (add_block_spec _ _ _ _ W E1) as (F1 & B1 & _).
      pose proof (lower_chain_frame _ _ (all_frames o c args) _ _ _ _ (frame_wf _ _ F1) E2) as F2.
      assert (G1 : gincl (g_blk g1) G).
      { eapply gincl_trans; [|exact HG]. apply frame_gincl; [exact (frame_wf _ _ F1)|exact F2]. }
      pose proof (chain_ok (lower o c) (denote env f) c args (all_frames o c args) (IHl c Hcons args)
                           (Some en) g1 (Some s) x g' (frame_wf _ _ F1) E2 G HG stk st) as X.
      apply tgt_then with (k1 := Some en); [exact X|].
      intros s2 st2. cbn [cont_conf].
      apply op_block_any. apply G1. exact B1.""")

# ---------------- FlattenCorrect ----------------
patch("FlattenCorrect",
"""  { destruct o; try discriminate H; auto. }
  - rewrite slot_access_none by reflexivity.
    destruct (args_to_imms env O_b imms); [|reflexivity]. unfold exec_op. cbn. reflexivity.
  - rewrite slot_access_none by reflexivity.
    destruct (args_to_imms env O_bz imms); [|reflexivity]. unfold exec_op. cbn. reflexivity.
  - rewrite slot_access_none by reflexivity.""",
"""  { destruct o; try discriminate H; auto. }
  - cbn [call_target]. rewrite slot_access_none by reflexivity.
    destruct (args_to_imms env O_b imms); [|reflexivity]. unfold exec_op. cbn. reflexivity.
  - cbn [call_target]. rewrite slot_access_none by reflexivity.
    destruct (args_to_imms env O_bz imms); [|reflexivity]. unfold exec_op. cbn. reflexivity.
  - cbn [call_target]. rewrite slot_access_none by reflexivity.""")
patch("FlattenCorrect",
"""  unfold do_op. rewrite slot_access_none by reflexivity.
  destruct (args_to_imms env O_err imms); [|exact Logic.I]. unfold exec_op. cbn. exact Logic.I.""",
"""  unfold do_op. cbn [call_target]. rewrite slot_access_none by reflexivity.
  destruct (args_to_imms env O_err imms); [|exact Logic.I]. unfold exec_op. cbn. exact Logic.I.""")
patch("FlattenCorrect",
"""Definition ex_env : denv := mkEnv ex_ctx (fun n => n) [] [] false (fun _ => mkI O_int [AInt 0]).""",
"""Definition ex_env : denv := mkEnv ex_ctx (fun n => n) [] [] false (fun _ => mkI O_int [AInt 0]) (fun _ _ _ => CNone).""")

# ---------------- SlotCompose ----------------
patch("SlotCompose",
"""Theorem do_op_rw env look o imms stk st :
  agree_on env look (arg_slots imms) ->
  in_range look (direct_slots (mkI o imms)) ->
  do_op env o (map (rw_arg look) imms) stk st = do_op env o imms stk st.
Proof.
  intros Ha Hr. unfold do_op at 1 2. rewrite slot_access_rw_none.""",
"""(* the call instruction carries a routine reference, which the rewrite leaves alone *)
Lemma call_target_rw look o imms : call_target o (map (rw_arg look) imms) = call_target o imms.
Proof.
  unfold call_target. destruct o; try reflexivity.
  destruct imms as [|a [|a2 t]]; try reflexivity; destruct a; reflexivity.
Qed.

Theorem do_op_rw env look o imms stk st :
  agree_on env look (arg_slots imms) ->
  in_range look (direct_slots (mkI o imms)) ->
  do_op env o (map (rw_arg look) imms) stk st = do_op env o imms stk st.
Proof.
  intros Ha Hr. unfold do_op at 1 2. rewrite call_target_rw.
  destruct (call_target o imms) as [cf|]; [reflexivity|]. rewrite slot_access_rw_none.""")
patch("SlotCompose",
"""  mkEnv (e_ctx env) f (e_msel env) (e_subs env) (e_in_sub env) (e_param env).""",
"""  mkEnv (e_ctx env) f (e_msel env) (e_subs env) (e_in_sub env) (e_param env) (e_call env).""")
patch("SlotCompose",
"""  intros H. unfold do_op.
  assert (S : slot_access o imms = None).""",
"""  intros H. unfold do_op. cbn [with_asg e_call].
  destruct (call_target o imms) as [cf|]; [reflexivity|].
  assert (S : slot_access o imms = None).""")
