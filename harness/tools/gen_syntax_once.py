# One-time bootstrap of coq/AVM/Syntax.v's opcode inductive from the pinned ops.py.
# The result is committed and thereafter maintained BY HAND as the independent langspec;
# it is NOT regenerated on check runs (Gen/OpTable.v is, and is compared against it).
import sys
sys.path.insert(0, "/repo")
from pyteal.ir.ops import Op, Mode
ops = [o for o in Op if o.name != "comment"]
extra = [  # TEAL ops PyTeal does not emit but the AVM has (name, attr, mode, minv)
    ("arg_0","arg_0","S",2),("arg_1","arg_1","S",2),("arg_2","arg_2","S",2),("arg_3","arg_3","S",2),
    ("pushbytess","pushbytess","SA",8),("pushints","pushints","SA",8),
    ("switch","switch","SA",8),("match","match_","SA",8),
]
out = []
out.append("Inductive opc : Type :=")
for o in ops: out.append("| O_%s" % o.name)
for n,a,m,v in extra: out.append("| O_%s" % a)
out.append(".")
out.append("")
out.append("Definition all_opcs : list opc := [")
names = ["O_%s" % o.name for o in ops] + ["O_%s" % a for _,a,_,_ in extra]
out.append("  " + ";\n  ".join(names))
out.append("].")
out.append("")
out.append("Definition opc_name (o : opc) : string :=\n  match o with")
for o in ops: out.append('  | O_%s => "%s"' % (o.name, str(o)))
for n,a,m,v in extra: out.append('  | O_%s => "%s"' % (a, n))
out.append("  end.")
out.append("")
out.append("(* minimum program version, per the AVM langspec (hand-maintained) *)")
out.append("Definition opc_minv (o : opc) : N :=\n  match o with")
for o in ops: out.append('  | O_%s => %d' % (o.name, o.min_version))
for n,a,m,v in extra: out.append('  | O_%s => %d' % (a, v))
out.append("  end.")
out.append("")
out.append("(* modes: (signature, application) *)")
out.append("Definition opc_modes (o : opc) : bool * bool :=\n  match o with")
for o in ops:
    s = bool(o.mode & Mode.Signature); a = bool(o.mode & Mode.Application)
    out.append('  | O_%s => (%s, %s)' % (o.name, str(s).lower(), str(a).lower()))
for n,a,m,v in extra: out.append('  | O_%s => (%s, %s)' % (a, str("S" in m).lower(), str("A" in m).lower()))
out.append("  end.")
print("\n".join(out))
