#!/bin/bash
# usage: seed_pipeline.sh cNN NAME1 NAME2 CHECK...   (agent outputs in /tmp/mut_out/cNN, worktree /tmp/mut_cNN)
c=$1; n1=$2; n2=$3; shift 3
t=/verif/harness/tools; o=/tmp/mut_out/$c; wt=${WT:-/tmp/mut_$c}
k=1
for n in $n1 $n2; do
  if [ "$n" != "-" ] && [ -f $o/patch$k.diff ]; then
    $t/seed_confirm.sh $wt $o/patch$k.diff $o/demo$k.py $o/meta$k.json $n
    [ -d /verif/seeded/$n ] && python3 $t/seed_run.py $n "$@"
  fi
  k=$((k+1))
done
