#!/bin/bash
# run every quick check on the tree under test with several PRNG seeds; a VIOLATION / non-zero exit on the unchanged tree is a false alarm to fix
out=${1:-/tmp/seed_sweep.log}; shift
seeds=${@:-1 2 3}
: > $out
for sd in $seeds; do
  for c in C01 C02 C03 C04 C05 C06 C07 C08 C09 C10 C11 C12 C13 C14 C15 C16 C17 C18 C19 C20; do
    VERIF_SEED=$sd /verif/check $c --tier quick > /tmp/sweep_${c}_$sd.log 2>&1; rc=$?
    echo "seed=$sd $c exit=$rc viol=$(grep -c '^VIOLATION' /tmp/sweep_${c}_$sd.log) $(tail -1 /tmp/sweep_${c}_$sd.log | cut -c1-110)" >> $out
  done
done
