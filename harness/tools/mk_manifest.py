#!/usr/bin/env python3
"""Regenerates /verif/MANIFEST.json from the table below (kept here so the file is always valid)."""
import json, os
VERIF = os.path.dirname(os.path.dirname(os.path.dirname(os.path.abspath(__file__))))
ALL = ["C%02d" % i for i in range(1, 21)]

CLAIMED = {
    "C16": dict(
        text="Proof (Coq, closed under the global context): for every non-empty factor lists below 2^64 the op list WideRatio emits "
             "yields exactly floor(prod n / prod d) or fails, never a wrapped value (induction over the factor list with the (hi,lo) "
             "running-product invariant). Tie: op-list text equality model vs real lowering for every factor-count pair and version, "
             "plus the real compiled TEAL executed on the extracted AVM against big-integer arithmetic.",
        note="Trusted: Coq kernel; hand-written AVM op semantics (coq/AVM); the model Comp/WideRatio.v is hand-written and tied by "
             "text equality on each run; theorem is for constant factors (composite factors: correspondence only); extraction "
             "(ExtrOcamlBasic, ExtrOcamlNativeString) and the OCaml read-line driver.",
        technique="Coq proof by induction + text-equality correspondence + extracted-AVM differential run",
        design_ref="DESIGN.md §4 C16"),
    "C17": dict(
        text="Proof (Coq, closed under the global context): for every finite block graph (cycles included) the model of TealBlock.validateSlots "
             "terminates and reports exactly the loads that have a store-free scan path from the routine start, hence every load with a store-free "
             "control-flow path (C17_validate_complete; memoisation on (block, slot set) shown lossless). Tie: exact ordered-error-list equality "
             "model vs real validateSlots on hand-built and compiler-built graphs, assignScratchSlotsToSubroutines raise/cause; end-to-end compileTeal "
             "rejection checked against an independent definite-assignment analysis of generated programs, versions 6..10, optimiser on/off.",
        note="Trusted: Coq kernel; Comp/ValidateSlots.v is a hand model tied by correspondence; the consequence for accepted programs (_partial) is stated on "
             "abstract block-graph execution, not the AVM. Two known findings (C20 crashes that pre-empt the load check).",
        technique="Coq proof of DFS-with-shared-memo completeness/exactness + extracted-model correspondence + recipe-level definite-assignment oracle",
        design_ref="DESIGN.md §4 C17, design_notes/C17.md"),
}

NOT_YET = "check not built yet in this round (machinery under construction; see DESIGN.md §7 build order)"

def main():
    checks = []
    for pid in ALL:
        if pid not in CLAIMED:
            continue
        c = CLAIMED[pid]
        checks.append({
            "property_id": pid,
            "quick_cmd": "./check %s --tier quick" % pid,
            "thorough_cmd": "./check %s --tier thorough" % pid,
            "evidence_file": "/verif/evidence/%s.json" % pid,
            "replay_cmd_template": "./check %s --replay {path}" % pid,
            "engine": "coq-pvmodel",
            "level_claimed": {"category": c.get("category", "proof"), "text": c["text"], "design_ref": c["design_ref"]},
            "level_note": c["note"],
            "technique": c["technique"],
        })
    man = {
        "version": 1,
        "setup_cmd": "cd /verif && ./setup.sh",
        "hooks": {
            "guard": "PYTEAL_VERIF",
            "enable": "no hooks are needed: checks import /repo's working tree directly (PYTHONPATH=$PYTEAL_REPO, default /repo)",
            "baseline_off_cmd": "cd /repo && /venv/bin/python -m pytest -ra -q -p no:cacheprovider --timeout=900 --continue-on-collection-errors",
            "source_commits": [],
            "add_only": True,
        },
        "engines": [{
            "name": "coq-pvmodel",
            "path": "/verif/coq (Coq 8.16 development, logical root PV) + /verif/ocaml/pvmodel (extracted model) + /verif/harness",
            "serves_properties": sorted(CLAIMED),
            "kind_free_text": "machine-checked proofs about executable Gallina models; models tied to /repo by regenerated tables and by correspondence runs (model vs implementation) on every check",
        }],
        "checks": checks,
        "not_applicable": [{"property_id": p, "reason": NOT_YET} for p in ALL if p not in CLAIMED],
        "notes": "Every check: ./check <id> --tier quick|thorough ; exit 0 / exit 1 + VIOLATION line / exit 2 = machinery broken. See DESIGN.md.",
    }
    json.dump(man, open(os.path.join(VERIF, "MANIFEST.json"), "w"), indent=1)

if __name__ == "__main__":
    main()
