#!/usr/bin/env python3
"""Regenerates /verif/MANIFEST.json from the table below (kept here so the file is always valid)."""
import json, os
VERIF = os.path.dirname(os.path.dirname(os.path.dirname(os.path.abspath(__file__))))
ALL = ["C%02d" % i for i in range(1, 21)]

CLAIMED = {
    "C16": dict(
        text="Proof (Coq, closed under the global context): (1) constant factors: the op list WideRatio emits yields exactly floor(prod n / prod d) or fails, never a wrapped value "
             "(C16_wide_ratio_exact_or_fails; induction over the factor list with the (hi,lo) running-product invariant); (2) ARBITRARY factor expressions, under the source semantics and on the lowered "
             "block graph (composition with C01_lower_correct): if the factors evaluate to uint64 values the result is exactly wide_ratio_spec of those values on the original stack, in the state the "
             "factors left, else failure (C16_wide_ratio_general, C16_wide_ratio_general_graph); for uint64-valued factors EVERY normal outcome at every fuel, stack and state is the exact quotient of the "
             "values the factors took (C16_wide_ratio_never_wraps, _graph_never_wraps); any exit/return/break outcome is a factor's own (C16_wide_ratio_abrupt_origin/_num/_den). Tie: op-list text equality "
             "for every factor-count pair and version, plus compiled programs with argument, compound and run-time factors (arithmetic, Txn.fee, If, Len, nested WideRatio, scratch loads) at versions 5..10 "
             "executed on the extracted AVM against big-integer arithmetic.",
        note="Trusted: Coq kernel; hand-written AVM op semantics (coq/AVM); Comp/WideRatio.v is hand-written and tied by text equality on each run; the general theorems are about Src/Denote.v + "
             "Comp/Lower.v (tied to PyTeal by the C01 correspondence and by the compound-factor AVM runs); never_wraps assumes each factor is uint64-valued (WideRatio.__init__ performs no require_type); "
             "extraction (ExtrOcamlBasic, ExtrOcamlNativeString) and the OCaml read-line driver.",
        technique="Coq proof (induction + simulation onto the constant-factor theorem + composition with lower_correct) + text-equality correspondence + extracted-AVM differential run with compound factors",
        design_ref="DESIGN.md §4 C16, design_notes/C16.md"),
    "C17": dict(
        text="Proof (Coq, closed under the global context): for every finite block graph (cycles included) the model of TealBlock.validateSlots "
             "terminates and reports exactly the loads that have a store-free scan path from the routine start, hence every load with a store-free "
             "control-flow path (C17_validate_complete; memoisation on (block, slot set) shown lossless). Tie: exact ordered-error-list equality "
             "model vs real validateSlots on hand-built and compiler-built graphs, assignScratchSlotsToSubroutines raise/cause; end-to-end compileTeal "
             "rejection checked against an independent definite-assignment analysis of generated programs, versions 6..10, optimiser on/off.",
        note="Trusted: Coq kernel; Comp/ValidateSlots.v is a hand model tied by correspondence; the consequence for accepted programs (_partial) is stated on "
             "abstract block-graph execution, not the AVM. Two known findings (C20 crashes that pre-empt the load check).",
        technique="Coq proof of DFS-with-shared-memo completeness/exactness + extracted-model correspondence + recipe-level definite-assignment oracle",
        design_ref="DESIGN.md §4 C17, design_notes/C17.md"),
    "C01": dict(
        text="Proof (Coq, closed under the global context, 125 theorems over 1018 obligations). End to end for one routine (C01_routine_end_to_end, Props/C01_end_to_end.v): for every option record, main routine or "
             "subroutine body, and recipe on which compile_one succeeds, every environment, fuel, stack and state - if the source semantics (Src/Denote.v) gives an outcome, the FLATTENED INSTRUCTION LIST "
             "(lower -> addIncoming -> NormalizeBlocks -> sortBlocks -> flattenBlocks) started at pc 0 reaches exactly the corresponding halting configuration and no other; the 'sort/flatten succeed' hypotheses are discharged for every routine compile_one accepts "
             "(C01_routine_end_to_end_total, via Props/C20_late.v); the only side condition "
             "(root not loop-headed) is proved necessary by a counterexample and discharged for every subroutine body and every well-typed main routine (C01_subroutine_end_to_end, "
             "C01_main_end_to_end_well_typed). Stage theorems: C01_lower_correct (all recipes, options, continuations, stacks, states), C01_normalize_correct, C01_sort_blocks_complete, "
             "C01_flatten_correct(_final), single-exit of lowered graphs. With the optimiser: C01_routine_end_to_end_optimized_partial (inherits C03's side conditions). Slot assignment composed "
             "(Props/C01_slots.v): rewriting abstract slots to the numbers assign_slots chose is a step-for-step semantic identity (C01_slot_rewrite_preserves), assign_slots is injective and in range, "
             "and C01_routine_end_to_end_assigned / C01_program_routines_end_to_end state the end-to-end theorem for the placeholder-free code of every routine of a program (optimiser off); distinct "
             "variables never alias (C01_assigned_variables_independent). Stage E (Props/C01_text.v): the emitted TEXT of any printable component list parses back to exactly that list (C01_text_roundtrip, all 190 opcode names read back), the machine on the parsed program "
             "simulates the list semantics step for step (C01_machine_simulates_list, C01_machine_bridge), and C01_program_text_end_to_end: for a main-only program without constant assembly and with the "
             "optimiser off, Machine.run on the parse of the text compile_model prints returns the verdict the source semantics denotes (side conditions printable/targets_ok/stack_bounded are decidable or "
             "shown necessary). NOT composed by theorem: multi-routine linking (callsub/retsub, spill), constant blocks (C12), assembly text and the assembler's reading of it - these are covered on every run by exact text/error-class equality between the Coq "
             "compile model and compileTeal (exhaustive small shapes, random programs, constant-dense programs; versions 2..10, both modes, option matrix) and by executing the REAL TEAL on the extracted "
             "AVM against the source semantics.",
        note="Trusted: Coq kernel; AVM semantics and TEAL grammar (coq/AVM, hand-written, validated against node goldens in corpus/avm); Src/Denote.v as the meaning of each constructor; Comp/*.v hand "
             "models tied by text equality each run; Gen/Tables.v regenerated by harness/translate.py; harness/build.py (recipe -> public constructors); extraction (ExtrOcamlBasic, ExtrOcamlNativeString) "
             "and driver.ml. Subroutine calls are outside this property's fragment (C02); ABI-returning subroutines with a deferred expression are outside the end-to-end theorem.",
        technique="Coq proofs: lowering correctness (fuel induction, CPS block graph), graph-pass simulations, linearisation, composed end to end + compile-model text equality + extracted-AVM vs denotation differential run",
        design_ref="DESIGN.md §3, §4 C01, §9.3, design_notes/C01_end_to_end.md, C01_normalize.md, C01_flatten.md"),
    "C13": dict(
        text="Proof (Coq, closed under the global context): for EVERY byte string b the line `byte <escapeStr b>` is read by the assembler's tokenizer as exactly "
             "one literal that decodes to b, also when followed by a comment or a `;` statement, and inside a whole program text; base16/32/64 validators accept "
             "only strings the assembler decodes to the RFC 4648 value; Int prints/reads back every n < 2^64; Addr pushes the 32-byte key of every accepted address. "
             "Refuted on the faithful model and recorded as known findings: the address checksum is never checked; MethodSignature text is not escaped. "
             "Tie: exact comparison of escapeStr/validators/Bytes/Int/Addr/MethodSignature with the model (exhaustive over all 1-2 character strings, stratified code points, "
             "grammar-directed base-N texts) and the real compileTeal line read back by the extracted assembler grammar vs Python's own decoding.",
        note="Trusted: Coq kernel; the model of the TEAL assembler's tokenizer and literal grammar (coq/AVM/Parse.v, written from memory of go-algorand; deviations listed in design_notes/C13.md); "
             "RFC 4648 spec (validated against Python each run); Python's UTF-8 encoder; SHA-512/256 as an oracle. MethodSignature proved only for texts without quote/backslash.",
        technique="Coq proofs (induction on byte lists with tokenizer-state invariant) + exhaustive/seeded correspondence + read-back of real TEAL lines by the extracted grammar",
        design_ref="DESIGN.md §4 C13, design_notes/C13.md"),
    "C15": dict(
        text="PARTIAL. Proof (Coq, closed under the global context): base64-VLQ decode(encode l) = l for every list of integers, for the hand model AND for the kernel regenerated from "
             "sourcemap.py by a fail-closed ast translator on every run; Revision-3 mappings from_json(to_json m) = m for every non-empty well-formed entry table; appending blanks + `//` + any text "
             "to a TEAL line that ends outside a string/base64 argument leaves the assembler's tokens unchanged (line and whole program). Validated on the implementation only (not proved), on generated "
             "multi-file source projects in fresh interpreters: TEAL identical with/without source mapping, one entry per TEAL line in order, existing file/line, marker constants attributed to their own line, "
             "real JSON decoded by the Coq decoder, annotated = plain under the Coq tokenizer.",
        note="Frame capture (inspect/executing/file system), tabulate and the two-compilation identity cannot be expressed as a Gallina model and are exercised on the implementation only. "
             "Lit/VLQ.v, Lit/R3.v and the tokenizer are hand models tied by exact comparison each run; Lit/PyInt.v and the translator are trusted. Three open known findings.",
        technique="Coq proofs + kernel regenerated from source + real-vs-model correspondence + fresh-interpreter validation with per-line marker constants",
        design_ref="DESIGN.md §4 C15, design_notes/C15.md"),
    "C11": dict(
        text="PARTIAL. Proof (Coq, closed under the global context) of the state-machine / id-renaming core: slot numbering, subroutine label indices and compile order are invariant "
             "under every strictly monotone renumbering of automatic ids; counters never decrease and a probe rewinds the slot counter; hence a program built after any history (marker clear) "
             "gets a fresh process's identifiers shifted by constants (C11_history_only_shifts, C11_compile_history_independent_partial); the frame-pointer marker is restored after every "
             "completed operation under try/finally semantics (refuted for the pinned code, proved for the repaired code now in /repo). Byte identity of TEAL across processes, hash seeds and "
             "histories is checked on the implementation only: scripted sessions in separate interpreters under several PYTHONHASHSEED values with fresh-process references, observing counters/marker "
             "after each step against the extracted state machine.",
        note="The model has no hash seed / set iteration order / object addresses (sets are sorted lists: exactly the assumption the sessions test); TEAL text emission is not modelled for this property. "
             "One defect repaired by a fix: commit (frame-pointer marker), two open known findings (store_into caching; router caster subroutine ids).",
        technique="Coq proofs over Hist/{Events,Assign,Session}.v + extracted-model correspondence of counters/marker/slot numbers/label indices + separate-interpreter sessions with shrinking replays",
        design_ref="DESIGN.md §4 C11, design_notes/C11.md"),
    "C04": dict(
        text="Proof (Coq, closed under the global context): an independent langspec (AVM v1..v11: first version, modes, immediates, fields) and an executable legality checker legal_check over the text as the "
             "assembler reads it; C04_legal_check_sound: accepted text => pragma = version and on EVERY execution of Machine.step from any context the pc stays on an instruction, every branch/call target and "
             "return address is a defined label inside the program, every executed op exists at the version and mode with in-range immediates (C04_legal_run_inside, C04_labels_unique, C04_label_injective for "
             "any routine names). Finite theorems over the tables regenerated from /repo each run: PyTeal never dates an op or txn/global field earlier or in more modes than the langspec. The extracted checker "
             "then runs on ~20k (quick) real compileTeal/Router outputs across versions 2..10 x modes x options; C04_compile_legal_refuted records that the property is false of the faithful model "
             "(8 open known findings, each a class predicate with a concrete program).",
        note="Trusted: Coq kernel; AVM/Langspec.v (hand-written from the AVM specification, validated on the node goldens of corpus/avm); Parse.v as the assembler's reading of text; translators translate.py / "
             "c04_translate.py (fail-closed reflection); the clause 'every real output is accepted' is decided per output by the verified checker, not by a theorem over all programs (refuted in general).",
        technique="Coq proof of a legality checker's soundness w.r.t. the small-step AVM + translator-regenerated tables + verified checker run on real outputs",
        design_ref="DESIGN.md §4 C04, design_notes/C04.md"),
    "C07": dict(
        text="Proof (Coq, closed under the global context, 16 theorems): for every tuple/array shape, value and in-range index the modelled element-access plan returns the component "
             "(C07_index_tuple_correct, C07_array_elem_correct, length/get/decode/uint_decode, Substring/Extract/Suffix op-selector equivalence); out-of-bounds indexing fails for every static non-bool "
             "element of at least 1 byte (C07_array_oob_fails_static_elems) and for bool arrays beyond the padding; the remaining element kinds are refuted by class theorems (3 open known findings). "
             "Tie: str(expr) of the real accessors == the model's printed plan on every tuple over a 10-type alphabet up to width 4 (5 thorough), selectors on a boundary grid x versions, and ~6.7k real "
             "compiled programs executed on the extracted AVM against algosdk-expected bytes incl. damaged encodings and 12 out-of-range indices.",
        note="Theorems are about coq/ABI/Index.v; index expressions are modelled by their value; encodings <= 4096 bytes; lowering to TEAL and the scratch/frame storage back-ends are covered by the executed "
             "correspondence only. Trusted: Coq kernel, ABI/Spec.v (validated against algosdk each run), AVM model, extraction + driver.",
        technique="Coq 8.16 proofs (axiom-free) + structural / selector / executed correspondence + AVM oracle against algosdk",
        design_ref="DESIGN.md §4 C07, design_notes/C07.md"),
    "C18": dict(
        text="Proof (Coq, closed under the global context, 20 theorems): C18_annotation_behaviour_invariant - for the congruence closure of adding/removing Comment wrappers, stand-alone comments, Assert "
             "comments, Pragma and Nonce anywhere in any recipe with any text, the two programs have exactly the same outcomes for every stack and state; lifted to lowered graphs through lower_correct; "
             "Nonce adds only the push-pop pair; comment lines are invisible to the tokeniser; generated labels are single safe tokens for every name. Stream invariance is proved for normalize+sort+flatten "
             "under an executable side condition (partial) and REFUTED in general with witnesses (4 open known findings). Tie: compile_model o expand == compileTeal text on ~2.4k programs; every "
             "single-annotation variant of 32 hand-written + random bases compared on comment-stripped, label-renamed streams and executed on the extracted AVM.",
        note="Behaviour theorems are about denote/lower (call-free fragment) and Comp/Annotate.v; subroutine programs and U+2028/2029 are covered by the real-output oracle only; stream invariance beyond "
             "normalize/sort/flatten (optimiser, slot assignment, spill) is not proved. Trusted: Coq kernel, AVM model, hand models tied by text equality, extraction + driver.",
        technique="Coq proofs (fuel monotonicity, simulation over the annotation relation, tokeniser lemmas) + real-output stream/behaviour oracle on extracted tokeniser and AVM",
        design_ref="DESIGN.md §4 C18, design_notes/C18.md"),
    "C14": dict(
        text="Proof (Coq, closed under the global context): for every signature with at most 15 non-transaction arguments, every argument list MethodCall accepts and every ARC-4 meaning of it, the inner group it "
             "records is the transaction arguments in order immediately followed by one appl transaction that is an ARC-4 client encoding of the call (selector, encodings in order, every reference index "
             "resolving for the callee to the value passed, however extra_fields extends the foreign arrays) - induction over the argument list with the three foreign-array counters "
             "(C14_itxn_method_call_correct_le15); ABI instances are accepted only through C19's assignable (same layout, same bytes) and rejected otherwise; exact index rules; the relation admits the C09 "
             "reference client; beyond 15 arguments REFUTED (17 ApplicationArgs; known finding no-tuple-packing). Tie: the real expression compiled at versions 6..10 and executed on the extracted AVM, recorded "
             "group / exception class compared exactly with the model; independent ARC-4 client oracle and round trip through a real Router callee on every accepted call.",
        note="Trusted: Coq kernel; AVM model of itxn_* (recording) and the ABI byte ops; ABI/Spec.v, Router/Args.v pack/resolve_* (specs, validated against algosdk); Router/Itxn.v and ABI/Assignable.v are hand "
             "models tied by exact comparison on the explored cases; arg.encode() of an ABI instance is executed, not proved (C06); SHA-512/256 is an oracle; signature strings algosdk cannot parse are outside "
             "the model; extraction + driver.ml.",
        technique="Coq induction over argument lists + extracted-AVM differential run + independent ARC-4 client oracle + Router round trip",
        design_ref="DESIGN.md §4 C14, design_notes/C14.md"),
    "C20": dict(
        text="Proof (Coq, closed under the global context), partial + refutation: accepts_well_typed_partial - every well-typed program of the straight-line fragment (operator trees, n-ary expressions, nested Seq, "
             "Exit/Return), of ANY length and nesting depth, compiles to COk in the compile model at every version 2..10, mode and option setting; C20_tree - addIncoming/validateTree/NormalizeBlocks keep the "
             "tree-validity invariant for all lowered routines (so validateTree's AssertionError is unreachable); LATE PASSES (Props/C20_late.v, 29 theorems): for every routine compile_one accepts - any control flow - sortBlocks and flattenBlocks succeed (C20_sort_total, C20_flatten_total; "
             "sort fails iff the end block is unreachable), the optimiser and assembly are total, and compile_model never ends in a Crash* outcome for programs without deferred expressions, with any "
             "number of subroutines, recursion, optimiser on or off (C20_compile_model_no_crash_partial); C20_main_only_accepts_partial: a checked main-only program compiles to TEAL. "
             "walk_depth_is_program_length + walk_depth_unbounded REFUTE totality at a bounded interpreter "
             "stack (for every bound there is a well-typed program whose addIncoming recursion is deeper: open known finding long-program-recursion). Tie: outcome class (TEAL / one of the five PyTeal errors / "
             "crash) and exact text of the real compileTeal / Compilation.compile / Router.compile_program compared with the model on small shapes x versions x modes x options, random programs and ill-typed "
             "mutations, subroutine programs, API variants, routers and size families in worker interpreters; the measured recursion depth of the real addIncoming must equal the model's depth + 1.",
        note="Branching, slot, subroutine, MultiValue and WideRatio programs are covered by outcome-class correspondence on generated programs, not by the acceptance theorem. Python's recursion limit is "
             "measured, not modelled. Trusted: Coq kernel; Src/WellTyped.v (spec of well-typed recipes); hand compile model tied by text/class equality; extraction + driver.",
        technique="Coq proofs over the executable compile model + extracted-model outcome-class correspondence + worker-isolated crash hunt with deep-stack diagnosis",
        design_ref="DESIGN.md §4 C20, design_notes/C20.md"),
    "C06": dict(
        text="Proof (Coq, closed under the global context, 16 theorems, no bound on nesting or list length). For every type PyTeal can build: str / is_dynamic / byte_length_static equal the ARC-4 spec's "
             "(C06_type_str_agrees, C06_is_dynamic_agrees, C06_static_len_agrees - over the actual ignoreNext loop). _encode_bool_sequence, uint_encode, uint set (rejected or failing exactly on overflow), "
             "_encode_tuple (head/tail with running uint16 offsets, rejected or failing exactly when an offset exceeds 65535), Array.set and String.set compute the spec encoding. End to end "
             "(C06_set_encodes_per_arc4, and _on_avm with the 4096-byte cap): a value assembled with set(...) from constants, run-time expressions, copies and member instances is exactly arc4_encode of the "
             "denoted value; otherwise it is rejected at construction or fails at run time. The model's primitives are proved equal to the AVM model's exec_pure. Tie: exhaustive descriptor comparison "
             "(<= 4/5 nodes over the full alphabet, random deeper shapes) against model, spec and algosdk; real programs at versions 5..10 in scratch-slot and frame-variable back-ends executed on the "
             "extracted AVM, bytes compared three ways (algosdk, Coq spec, Coq model).",
        note="Trusted: Coq kernel; ABI/Spec.v (checked against algosdk every run); coq/AVM; ABI/Encode.v is a hand model tied by exact comparison of the three-valued outcome (bytes / rejected / fails); slot and "
             "frame allocation and opcode selection are covered only by executing the real TEAL; Address.set(str) decoding is the assembler's (C13); algosdk is the reference codec; extraction + driver.ml.",
        technique="Coq nested induction on type shapes / member lists + exhaustive-shape descriptor correspondence + real TEAL executed on the extracted AVM with a three-way byte oracle",
        design_ref="DESIGN.md §4 C06, design_notes/C06.md"),
    "C19": dict(
        text="Proof (Coq, closed under the global context): for arbitrarily nested specs, whatever the model of type_spec_is_assignable_to admits has the same ARC-4 layout normal form "
             "(C19_assignable_same_layout); equal layout implies the same value set, is_dynamic, static length and byte-identical encoding of every value (C19_same_layout_same_encoding); differently laid out "
             "types are rejected; transaction specs go only to themselves or txn, reference specs only to themselves. Tie: exact comparison of model and real relation, ==, __str__ and class table on EVERY ordered "
             "pair of a 340-spec (quick) / 1,485-spec (thorough) universe plus mutated random pairs; independent layout + algosdk encode/decode oracle on every admitted pair; Subroutine and MethodCall gates.",
        note="Trusted: Coq kernel; ABI/Spec.v (the ARC-4 spec, validated against algosdk.abi each run); hand models ABI/Descr.v and ABI/Assignable.v tied by correspondence; uint widths other than 8/16/32/64 and "
             "user-defined TypeSpec subclasses are outside the correspondence; arc4_decode only proved sound; extraction and driver.ml.",
        technique="Coq nested induction on type shapes + exhaustive-pair correspondence + algosdk semantic oracle",
        design_ref="DESIGN.md §4 C19, design_notes/C19.md"),
    "C12": dict(
        text="Proof (Coq, closed under the global context, 25 property theorems over 270 obligations). Site level: if createConstantBlocks succeeds on an input whose constant pseudo-ops assemble, the output is "
             "block lines ++ body, every non-constant component is unchanged in place and every constant site loads exactly the value the pseudo-op denotes per the assembler grammar "
             "(C12_constants_sites_preserved, C12_constants_step_simulation, C12_load_value_is_step). WHOLE PROGRAM (Props/C12_program.v): C12_constants_program_equiv - after the block lines have run, the "
             "pseudo-op program and the assembled-constants program are in LOCK STEP on the reference machine (same stack, state and call stack up to the pc shift) for every context, forever, hence the same "
             "verdict and final state at every fuel; frame lemma C12_step_frame (only the constant opcodes read or change the constant registers); C12_constants_text_equiv / "
             "C12_constants_compiled_text_equiv: the same for the two TEXTS the compile model prints with and without constant assembly. Side conditions: indexes <= 255 (the refuted case, open known "
             "finding index-gt-255), no addr-template site (open known finding tmpl-addr-context), no user-written block opcodes (shown necessary). Tie: constants.py vs Comp/Constants.v on exhaustive "
             "small lists over 9 ops, colliding argument texts across pseudo-op kinds, random lists and whole programs; site-value oracle on the REAL output through the extracted assembler grammar.",
        note="Trusted: Coq kernel; AVM/Parse.v (literal grammar) and Machine.v block ops as specs; RFC 4648 digit values validated against CPython each run; SHA-512/256 as oracle; textual template instantiation; "
             "the whole-run bisimulation (pc shift by the block lines) is not proved - differential execution only; extraction + driver.",
        technique="Coq proof (induction over op lists, sortedness invariant) + text-equality correspondence + extracted-parser site oracle + extracted-AVM differential run",
        design_ref="DESIGN.md §4 C12, design_notes/C12.md"),
    "C02": dict(
        text="Proof (Coq, closed under the global context, 55 property theorems over 783 obligations), partial at the top level. Pieces, for all inputs: the spill/restore code around a re-entrant call has "
             "the frame property (C02_spill_frame_same_type, C02_wrapped_call_protects: results delivered, every local slot restored, nothing else touched); the scratch prologue binds parameter i to "
             "argument i; callsub/proto/frame_dig/frame_bury/retsub steps on the reference machine. Composition (Props/C02_compose.v): the LINKED code - main followed by the subroutines, callsub/retsub with a "
             "call stack - computes the call-aware source semantics for ANY call graph (C02_link_star, C02_linked_calls_realized; the C01 chain re-checked against a call oracle in coq/CallX), program-level "
             "C02_call_correct_nonrecursive_partial and C02_call_correct_recursive_partial (with the emitted spill code), and against Src/DenoteCall.v for by-value parameters, scratch convention, "
             "non-failing runs (C02_by_value_sim, C02_call_correct_nonrecursive_by_value_partial). Machine level (Props/C02_machine.v): Machine.step simulates the linked semantics step for step, call stack included "
             "(C02_machine_simulates_linked, C02_machine_bridge_linked); the printed text of a program WITH subroutines parses to the linked program (C02_linked_text_runs) and "
             "C02_program_text_calls_*_partial carry the composed statements down to Machine.run on the parsed text; frame-pointer convention on the machine: frame rule for every instruction "
             "(C02_machine_step_frame) and the call protocol C02_fp_call_protocol (results buried at the frame pointer come back as results ++ caller stack, caller cells untouched), linked semantics "
             "extended with proto/frame_dig/frame_bury and bridged (C02_machine_bridge_fp). Open: source-level meaning of the frame instructions (the compose theorems stay at the scratch "
             "convention), by-reference parameters and failing runs against denote_c, deriving label uniqueness / printable / targets_ok from the pipeline. Tie: exact text equality model vs compileTeal on directed call shapes and seeded random call graphs (self/mutual recursion, by-reference, "
             "none/uint64/bytes results, versions 4..10 x frame_pointers x scratch_slots), every real output executed on the extracted AVM against the call-aware semantics, plus free-form real programs "
             "(ABI-returning routines with by-reference parameters, DynamicScratchVar ...) checked against their own expected verdict. Two open known findings (control transfer inside an operand; optimiser "
             "orphan store); one defect repaired in /repo (258948a).",
        note="Trusted: Coq kernel; AVM semantics incl. the retsub-under-proto rule (validated on node goldens); Src/DenoteCall.v as the meaning of a call; Comp/Compile.v hand model tied by text equality; "
             "harness/build.py (reads argument slots back from the evaluated declaration); extraction + driver. The composed theorems assume the optimiser off (excludes the orphan-store finding) and "
             "`disciplined` routines (excludes ctrl-in-operand) where they speak about denote_c. ABI-typed parameters/outputs are exercised by C06/C07/C09 and harness/c03_free.py, not by the theorems.",
        technique="Coq: op-sequence theorems, oracle-parametrised re-check of the C01 chain, linked-code simulation with a call stack, fuel-indexed simulation against the call-aware semantics + compile-model text equality + extracted-AVM differential run",
        design_ref="DESIGN.md §4 C02, design_notes/C02_proofs.md, design_notes/C02_compose.md"),
    "C10": dict(
        text="Proof (Coq, closed under the global context) about an executable model of collectScratchSlots / assignScratchSlotsToSubroutines / assignSlot / the ScratchSlot constructor / alloc_abstract_var, for every "
             "program and every iteration order of Python's slot set: the assignment is injective on slot objects, total on referenced slots, keeps requested ids and stays below NUM_SLOTS (<= 256, regenerated each run); "
             "it is rejected iff two objects request one id or more than NUM_SLOTS distinct slots are used; the int placeholder and every load/store of a slot get the same number; on the AVM scratch semantics any "
             "interleaving of store/load/stores/loads under such a numbering behaves as independent cells; alloc_abstract_var never exceeds MAX_FRAME_LOCAL_VARS (<= 128) frame locals. Tie: exact comparison of the real "
             "functions with the extracted model on exhaustive-small, boundary (255..258 slots) and random populations (0..300 slots), plus marker programs compiled by compileTeal (v6..10 x optimise x frame pointers) "
             "executed on the extracted AVM.",
        note="Trusted: Coq kernel; hand-written AVM semantics; Comp/Slots.v is a hand model tied by correspondence on explored cases; slot identity = creation index supplied by the harness; validateSlots is a parameter (C17); "
             "lowering of ScratchVar / DynamicScratchVar / ABI values to ops is covered by the marker programs only; extraction and driver.ml.",
        technique="Coq proofs by induction/invariant (pigeonhole for the counter bound) + exact model/implementation correspondence + extracted-AVM run of marker programs",
        design_ref="DESIGN.md §4 C10, design_notes/C10.md"),
    "C03": dict(
        text="PARTIAL. Differential execution of REAL compiler outputs: each generated program (store/load-dense routines with requested slot ids, random main routines, random call graphs) is compiled under "
             "scratch_slots in {None,True,False} x frame_pointers in {None,False,True} x several versions; all successful outputs run on the extracted AVM on identical contexts and are compared pairwise on verdict, "
             "ordered log/state/inner-transaction trace and final user-numbered slots; every variant is also compared with the Coq compile model (text equality), and the resolution of option defaults uses constants "
             "regenerated from the code. Machine-checked theorems about the optimiser model are in Props/C03.v (soundness of store/load cancellation under the no-orphan-store condition and its refutation without it; "
             "see the evidence for the list discharged in this run). Known finding: the optimiser deletes stores that have no cancelling load (class predicate computed by the Coq model).",
        note="Trusted: Coq kernel; AVM semantics (hand-written); the comparison is between real outputs, so no source semantics is trusted; Comp/Passes.v optimiser model tied by text equality; extraction + driver. "
             "'Stack at every routine exit' is observed only through its consequences (results of enclosing expressions, values returned by retsub), not snapshotted.",
        technique="pairwise differential run of real outputs on the extracted AVM + compile-model text equality + Coq theorems on the optimiser model",
        design_ref="DESIGN.md §4 C03"),
    "C05": dict(
        text="Proof (Coq, closed under the global context): a verified checker. For EVERY program, routine table, typed context and unbounded execution of Machine.step (call stack, proto/frame_dig/frame_bury "
             "included): if the annotation is inductive (annot_inductive) then every reachable machine state has the annotated stack height and cell types relative to its routine's entry; hence heights agree on all "
             "paths, no instruction pops below what its routine owns, callsub/retsub/proto/frame operations never fail for lack of cells, control never runs off the end; accepted and strict (no `any` consumed) implies no type "
             "failure (C05_stack_check_sound, C05_no_anytype_no_type_error). The fixpoint is computed untrusted and then verified. The extracted checker runs on the REAL compileTeal output of generated programs "
             "(main routines, subroutines with recursion/spill code, frame pointers, MultiValue, loops with Break/Continue, optimiser on/off) against the signatures PyTeal's declarations imply; every text is also executed on "
             "the extracted AVM with failing steps classified. Known findings: optimiser orphan store; control transfer inside an operand.",
        note="Trusted: Coq kernel; hand-written AVM semantics; the opcode signature table AVM/StackSig.v is hand-written but pinned to the machine model by soundness, necessity and pool-realisability theorems; scratch slots are untyped "
             "(load pushes any), so programs feeding typed ScratchVar loads to typed operands get the no-type-error clause from the dynamic AVM cross-check only; extraction + driver.",
        technique="verified abstract interpreter in Coq (compute-then-verify, simulation proof) + extraction + run on real compiler output + AVM runs with failure classification",
        design_ref="DESIGN.md §4 C05, design_notes/C05.md"),
    "C08": dict(
        text="Proof (Coq, closed under the global context): for every Router configuration accepted by registration (any number of methods with arbitrary MethodConfig, any bare-action table, distinct selectors) and every call "
             "with OnCompletion != ClearState, the router-built approval skeleton runs handler h iff the registration allows exactly h, otherwise rejects or fails (router_dispatch_correct, router_dispatch_exact); the clear-state "
             "program runs exactly the given action or rejects; registration refuses duplicates, never-executed and clear-state configs. Tie on every run: exhaustive condition-level comparison (all 4096 MethodConfigs, all 1024 bare tables: "
             "text, skeleton and AVM truth tables of the real approval_cond/approval_construction), AST-skeleton equality of the real program, and exact behavioural equality of the real approval/clear TEAL executed on the extracted AVM over "
             "the full call matrix (selector in registered + unknown/short/long/none, OnCompletion 0..5, app id zero/non-zero, extra args), versions 6..10, judged also by an independent Python oracle.",
        note="Trusted: Coq kernel; hand-written AVM semantics; handlers are abstract effects (argument decoding/return logging is C09, lowering of Cond/Assert is C01, both exercised here through execution); selectors are data (SHA-512/256 not modelled); "
             "ClearState on an approval program is excluded by the protocol (an Example shows the guard is necessary); extraction + driver.",
        technique="Coq model with induction over method lists and finite case splits + exhaustive/seeded correspondence + extracted-AVM execution of real router TEAL + independent oracle",
        design_ref="DESIGN.md §4 C08, design_notes/C08.md"),
    "C09": dict(
        text="PARTIAL. Proof (Coq, closed under the global context) about an executable model of the router's argument binding, glue storage (scratch and frame-pointer flavours), return logging and contract, against an ARC-4 client "
             "specification: for every signature (any length, kinds in any position) each plain parameter holds exactly the ARC-4 encoding of its argument, reference parameters resolve to the passed foreign entries, the n-th transaction "
             "parameter is the right preceding group transaction with its type enforced, the cut-off (15 individual / 16 = 14 + tuple) on both sides uses the constant regenerated from the code, a non-void result is logged exactly once as "
             "151f7c75 ++ encoding and last (C09_arg_binding_correct is conditional on tuple element access, which belongs to C07 and is validated every run). Tie: plan/placement equality and execution of the REAL approval TEAL on the extracted AVM "
             "inside groups built by an independent ARC-4 client (cross-checked with algosdk's AtomicTransactionComposer), both glue flavours, versions 6..10; contract vs dispatched selectors. Known finding: the contract ignores add_method_handler's overriding_name.",
        note="Trusted: Coq kernel; hand-written AVM semantics; ABI/Spec.v (validated against algosdk each run); Router/Args.v hand model tied by correspondence; the frame-pointer glue is proved on the storage model, the emitted code is covered by execution; "
             "contract agreement is partial (refuted for overriding names); extraction + driver.",
        technique="Coq induction over parameter lists + regenerated constants + extraction + differential execution with an independent ARC-4 client",
        design_ref="DESIGN.md §4 C09, design_notes/C09.md"),
}

NOT_YET = "check not built yet in this round (machinery under construction; see DESIGN.md §7 build order)"

def main():
    checks = []
    for pid in ALL:
        if pid not in CLAIMED:
            continue
        c = CLAIMED[pid]
        checks.append({
            "property_id": pid,
            "quick_cmd": "./check %s --tier quick" % pid,
            "thorough_cmd": "./check %s --tier thorough" % pid,
            "evidence_file": "/verif/evidence/%s.json" % pid,
            "replay_cmd_template": "./check %s --replay {path}" % pid,
            "engine": "coq-pvmodel",
            "level_claimed": {"category": c.get("category", "proof"), "text": c["text"], "design_ref": c["design_ref"]},
            "level_note": c["note"],
            "technique": c["technique"],
        })
    man = {
        "version": 1,
        "setup_cmd": "cd /verif && ./setup.sh",
        "hooks": {
            "guard": "PYTEAL_VERIF",
            "enable": "no hooks are needed: checks import /repo's working tree directly (PYTHONPATH=$PYTEAL_REPO, default /repo)",
            "baseline_off_cmd": "cd /repo && /venv/bin/python -m pytest -ra -q -p no:cacheprovider --timeout=900 --continue-on-collection-errors",
            "source_commits": [],
            "add_only": True,
        },
        "engines": [{
            "name": "coq-pvmodel",
            "path": "/verif/coq (Coq 8.16 development, logical root PV) + /verif/ocaml/pvmodel (extracted model) + /verif/harness",
            "serves_properties": sorted(CLAIMED),
            "kind_free_text": "machine-checked proofs about executable Gallina models; models tied to /repo by regenerated tables and by correspondence runs (model vs implementation) on every check",
        }],
        "checks": checks,
        "not_applicable": [{"property_id": p, "reason": NOT_YET} for p in ALL if p not in CLAIMED],
        "notes": "Every check: ./check <id> --tier quick|thorough ; exit 0 (KNOWN-FINDING lines possible) / exit 1 + VIOLATION line (a broken proof, correspondence or harness is a VIOLATION ending in no-failing-input-found). See DESIGN.md section 9.",
    }
    json.dump(man, open(os.path.join(VERIF, "MANIFEST.json"), "w"), indent=1)

if __name__ == "__main__":
    main()
