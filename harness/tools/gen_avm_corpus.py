"""Freeze the TEAL of the repository's dry-run integration tests that have no golden file.

tests/integration/graviton_abi_test.py (Int65 / Complex130 arithmetic, conditional_factorial) and the
`blackbox_pyteal_example*` functions of tests/integration/graviton_test.py were executed upstream on a real
node through tests/blackbox.py (PyTealDryRunExecutor: wrapper program + compileTeal at versions 6 and 8),
but their TEAL is not stored in the repository.  This script compiles them ONCE from the pinned tree with
the repository's own wrapper (graviton, which is only needed to talk to a node, is replaced by empty stubs)
and stores the text under harness/corpus/avm/.  harness/avm_validate.py then treats these files as data:
it never compiles anything, so a later change of the compiler cannot turn into a model-validation failure.

    PYTHONPATH=/repo /venv/bin/python harness/tools/gen_avm_corpus.py
"""
import json
import os
import subprocess
import sys
import types

HERE = os.path.dirname(os.path.abspath(__file__))
OUT = os.path.join(os.path.dirname(HERE), "corpus", "avm")
REPO = os.environ.get("PYTEAL_REPO", "/repo")


class _Meta(type):
    def __getattr__(cls, name):
        if name.startswith("__"):
            raise AttributeError(name)
        v = _Meta(name, (), {})
        setattr(cls, name, v)
        return v

    def __call__(cls, *a, **k):
        return object.__new__(cls)

    def __getitem__(cls, k):
        return cls


class _Stub(types.ModuleType):
    def __getattr__(self, name):
        if name.startswith("__"):
            raise AttributeError(name)
        v = sys.modules.get(self.__name__ + "." + name) or _Meta(name, (), {})
        setattr(self, name, v)
        return v


for _m in ["graviton", "graviton.blackbox", "graviton.abi_strategy", "graviton.inspector", "graviton.models", "graviton.sim", "graviton.invariant"]:
    sys.modules[_m] = _Stub(_m)
sys.path.insert(0, REPO)

import pyteal as pt  # noqa: E402
from pyteal import abi  # noqa: E402
import tests.blackbox as bb  # noqa: E402
import tests.integration.graviton_abi_test as gat  # noqa: E402
from tests.blackbox import Blackbox  # noqa: E402
from typing import Literal as L  # noqa: E402


# ---- the subroutines that graviton_test.py defines inside its example functions (copied verbatim) ----
@Blackbox(input_types=[pt.TealType.uint64, pt.TealType.uint64])
@pt.Subroutine(pt.TealType.uint64)
def euclid_iter(x, y):      # blackbox_pyteal_example2
    a = pt.ScratchVar(pt.TealType.uint64)
    b = pt.ScratchVar(pt.TealType.uint64)
    tmp = pt.ScratchVar(pt.TealType.uint64)
    start = pt.If(x < y, pt.Seq(a.store(y), b.store(x)), pt.Seq(a.store(x), b.store(y)))
    cond = b.load() > pt.Int(0)
    step = pt.Seq(tmp.store(b.load()), b.store(pt.Mod(a.load(), b.load())), a.store(tmp.load()))
    return pt.Seq(pt.For(start, cond, step).Do(pt.Seq()), a.load())


@Blackbox(input_types=[pt.TealType.uint64, pt.TealType.uint64])
@pt.Subroutine(pt.TealType.uint64)
def euclid_rec(x, y):       # blackbox_pyteal_example3
    return (
        pt.If(x < y)
        .Then(euclid_rec(y, x))
        .Else(pt.If(y == pt.Int(0)).Then(x).Else(euclid_rec(y, pt.Mod(x, y))))
    )


@Blackbox(input_types=[None])
@pt.ABIReturnSubroutine
def abi_sum(toSum: abi.DynamicArray[abi.Uint64], *, output: abi.Uint64) -> pt.Expr:   # example4
    i = pt.ScratchVar(pt.TealType.uint64)
    valueAtIndex = abi.Uint64()
    return pt.Seq(
        output.set(0),
        pt.For(i.store(pt.Int(0)), i.load() < toSum.length(), i.store(i.load() + pt.Int(1))).Do(
            pt.Seq(toSum[i.load()].store_into(valueAtIndex), output.set(output.get() + valueAtIndex.get()))
        ),
    )


@Blackbox([None])
@pt.Subroutine(pt.TealType.uint64)
def cubed(n: abi.Uint64):   # example5
    return n.get() ** pt.Int(3)


@Blackbox(input_types=[pt.TealType.uint64])
@pt.Subroutine(pt.TealType.uint64)
def while_continue_accumulation(n):     # blackbox_pyteal_while_continue_test
    i = pt.ScratchVar(pt.TealType.uint64)
    return pt.Seq(
        i.store(pt.Int(0)),
        pt.While(i.load() < n).Do(pt.Seq(i.store(i.load() + pt.Int(1)), pt.Continue())),
        pt.Return(i.load()),
    )


class NamedTupleExample(abi.NamedTuple):
    a: abi.Field[abi.Bool]
    b: abi.Field[abi.Address]
    c: abi.Field[abi.Tuple2[abi.Uint64, abi.Bool]]
    d: abi.Field[abi.StaticArray[abi.Byte, L[10]]]
    e: abi.Field[abi.StaticArray[abi.Bool, L[4]]]
    f: abi.Field[abi.Uint64]


@Blackbox(input_types=[None] * 6)
@pt.Subroutine(pt.TealType.uint64)
def named_tuple_field_access(      # blackbox_pyteal_named_tupleness_test
    a_0: abi.Bool,
    a_1: abi.Address,
    a_2: abi.Tuple2[abi.Uint64, abi.Bool],
    a_3: abi.StaticArray[abi.Byte, L[10]],
    a_4: abi.StaticArray[abi.Bool, L[4]],
    a_5: abi.Uint64,
):
    return pt.Seq(
        (v_tuple := NamedTupleExample()).set(a_0, a_1, a_2, a_3, a_4, a_5),
        (v_a := abi.Bool()).set(v_tuple.a),
        (v_b := abi.Address()).set(v_tuple.b),
        (v_c := abi.make(abi.Tuple2[abi.Uint64, abi.Bool])).set(v_tuple.c),
        (v_d := abi.make(abi.StaticArray[abi.Byte, L[10]])).set(v_tuple.d),
        (v_e := abi.make(abi.StaticArray[abi.Bool, L[4]])).set(v_tuple.e),
        (v_f := abi.Uint64()).set(v_tuple.f),
        pt.Return(
            pt.And(
                a_0.get() == v_a.get(),
                a_1.get() == v_b.get(),
                a_2.encode() == v_c.encode(),
                a_3.encode() == v_d.encode(),
                a_4.encode() == v_e.encode(),
                a_5.get() == v_f.get(),
            )
        ),
    )


PROGRAMS = [
    # (subroutine, modes)
    (gat.int65_minus_cond, ["app"]), (gat.int65_sub, ["app"]), (gat.int65_mult, ["app"]), (gat.int65_negate, ["app"]), (gat.int65_add, ["app"]),
    (gat.complex130_add, ["app"]), (gat.complex130_mult, ["app"]), (gat.complex130_real, ["app"]), (gat.complex130_imag, ["app"]),
    (gat.complex130_conjugate, ["app"]), (gat.complex130_norm_squared, ["app"]), (gat.conditional_factorial, ["app"]),
    (euclid_iter, ["app"]), (euclid_rec, ["app"]), (abi_sum, ["app", "lsig"]), (cubed, ["app", "lsig"]),
    (while_continue_accumulation, ["lsig"]), (named_tuple_field_access, ["lsig"]),
]


def main():
    os.makedirs(OUT, exist_ok=True)
    commit = subprocess.run(["git", "-C", REPO, "rev-parse", "HEAD"], capture_output=True, text=True).stdout.strip()
    manifest = {"generated_from": REPO, "commit": commit, "wrapper": "tests/blackbox.py PyTealDryRunExecutor.compile(version)", "programs": []}
    for subr, modes in PROGRAMS:
        for mode in modes:
            ex = bb.PyTealDryRunExecutor(subr, pt.Mode.Application if mode == "app" else pt.Mode.Signature)
            arg_types = ex.abi_argument_types() or []
            ret = ex.abi_return_type()
            for version in (6, 8):
                name = "%s_%s_v%d.teal" % (mode, subr.name(), version)
                teal = ex.compile(version)
                with open(os.path.join(OUT, name), "w") as f:
                    f.write(teal)
                manifest["programs"].append({"file": name, "mode": mode, "name": subr.name(), "version": version,
                                             "arg_types": [str(t) if t is not None else None for t in arg_types],
                                             "return_type": str(ret) if ret is not None else None})
    with open(os.path.join(OUT, "manifest.json"), "w") as f:
        json.dump(manifest, f, indent=1, sort_keys=True)
    print("wrote %d programs to %s" % (len(manifest["programs"]), OUT))


if __name__ == "__main__":
    main()
