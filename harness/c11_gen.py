"""C11 — recipe generators, translation of steps into model ops, class predicates of the known findings.

A *recipe* is plain JSON.  The session runner (c11_session.py) builds real PyTeal objects from it through
public constructors; `model_ops` below turns the same steps into requests for the Coq state machine
(coq/Hist/Session.v).  The only knowledge shared between the two sides is the recipe."""
import json

FP_VERSION = 8


# --------------------------------------------------------------------------------------------------
# option handling (what the compiler decides from version + OptimizeOptions)
# --------------------------------------------------------------------------------------------------
def uses_fp(version, opt):
    fp = (opt or {}).get("frame_pointers")
    if fp is None:
        return version >= FP_VERSION
    return bool(fp)


def fp_request_invalid(version, opt):
    """OptimizeOptions(frame_pointers=True) below version 8 raises before anything is evaluated."""
    return (opt or {}).get("frame_pointers") is True and version < FP_VERSION


def cfg_key(cfg):
    return json.dumps(cfg, sort_keys=True)


# --------------------------------------------------------------------------------------------------
# static analysis of recipes
# --------------------------------------------------------------------------------------------------
def walk(x):
    """All list nodes of a recipe tree."""
    if isinstance(x, list):
        yield x
        for y in x:
            yield from walk(y)
    elif isinstance(x, dict):
        for y in x.values():
            yield from walk(y)


def body_calls(body):
    """Handles of the subroutines referenced by the expression a body builds (deduplicated, in order)."""
    out = []
    for node in walk(body["stmts"]) if True else []:
        if node and node[0] in ("call", "callnone") and isinstance(node[1], int):
            if node[1] not in out:
                out.append(node[1])
    if body.get("ret") is not None:
        for node in walk(body["ret"]):
            if node and node[0] == "call" and node[1] not in out:
                out.append(node[1])
    for d in body["decls"]:
        if d["d"] == "storeinto" and d["h"] not in out:
            out.append(d["h"])
        if d["d"] == "storeinto":
            for node in walk(d["args"]):
                if node and node[0] == "call" and node[1] not in out:
                    out.append(node[1])
    return out


def body_has(body, kinds):
    return any(d["d"] in kinds for d in body["decls"])


def body_uses(body, heads):
    for node in list(walk(body["stmts"])) + list(walk(body.get("ret") or [])):
        if node and isinstance(node[0], str) and node[0] in heads:
            return True
    return False


def decl_model(body):
    """The allocation/evaluation events of a body, in order, as model decls."""
    out = []
    for d in body["decls"]:
        k = d["d"]
        if k in ("var", "dyn"):
            out.append("var")
        elif k == "res":
            out.append("(res %d)" % d["n"])
        elif k == "maybe":
            out += ["var", "var"]
        elif k == "abi":
            out.append("abi")
        elif k == "storeinto":
            out.append("(store-into %d)" % d["h"])
        elif k == "probe":
            out.append("(probe %d)" % d["h"])
        elif k in ("defsub", "nested"):
            out.append("defsub")     # "nested": the step is sent as opaque anyway
        elif k in ("raise", "typeerr"):
            out.append("raise")
        else:
            raise AssertionError(k)
    if body.get("stmt_raises"):
        out.append("raise")
    return out


def sub_has_nested(rec):
    return body_has(rec["body"], ("nested",))


def b(x):
    return "true" if x else "false"


def defsub_op(h, rec):
    args = " ".join(rec["args"])
    return "(defsub %d (%s) %s (%s) %s (%s))" % (
        h, args, b(rec["ret"] == "out"), " ".join(decl_model(rec["body"])), b(rec["body"].get("badreturn")),
        " ".join(str(c) for c in body_calls(rec["body"])))


# --------------------------------------------------------------------------------------------------
# steps -> model ops.  Returns (ops, expectation) per step; expectation = dict with what the recipe says
# about the outcome that the model cannot know (late failures).
# --------------------------------------------------------------------------------------------------
def model_op(step, ctx):
    """ctx: {'opaque_progs': set, 'opaque_routers': set, 'routers': {r: {...}}} accumulated along the session."""
    k = step["k"]
    if k == "defsub":
        ctx["subs"][step["h"]] = step["sub"]
        if sub_has_nested(step["sub"]):
            ctx["opaque_subs"].add(step["h"])
        return defsub_op(step["h"], step["sub"])
    if k == "build":
        ctx["progs"][step["p"]] = step
        if body_has(step["body"], ("nested",)) or any(c in ctx["opaque_subs"] for c in reach(step["body"], ctx)):
            ctx["opaque_progs"].add(step["p"])
            return None
        return "(build %s)" % " ".join(decl_model(step["body"]))
    if k == "compile":
        if step["p"] in ctx["opaque_progs"]:
            return None
        prog = ctx["progs"].get(step["p"])
        if prog is None:
            return "(compile () false true ())"
        fp = uses_fp(step["version"], step.get("opt"))
        main_fails = bool(step.get("main_fails")) or fp_request_invalid(step["version"], step.get("opt"))
        return "(compile (%s) %s %s (%s))" % (" ".join(str(c) for c in body_calls(prog["body"])), b(fp), b(main_fails),
                                              " ".join(str(h) for h in step.get("bad", [])))
    if k == "probe":
        if step["h"] in ctx["opaque_subs"]:
            return None
        return "(probe %d)" % step["h"]
    if k == "router_new":
        ctx["routers"][step["r"]] = {"bare": step.get("bare", "approve"), "methods": [], "compiles": 0}
        return "(build)"
    if k == "router_method":
        ctx["subs"][step["h"]] = step["sub"]
        ctx["routers"][step["r"]]["methods"].append((step["h"], step["sub"]))
        if sub_has_nested(step["sub"]):
            ctx["opaque_subs"].add(step["h"])
            ctx["opaque_routers"].add(step["r"])
        return defsub_op(step["h"], step["sub"])
    if k == "router_compile":
        r = ctx["routers"][step["r"]]
        r["compiles"] += 1
        if step["r"] in ctx["opaque_routers"] or any(c in ctx["opaque_subs"] for h, s in r["methods"] for c in reach(s["body"], ctx)):
            return None
        fp = uses_fp(step["version"], step.get("opt"))
        if fp_request_invalid(step["version"], step.get("opt")):
            return "(compile () false true ())"
        ms = " ".join("(%d %d %s)" % (h, len(s["args"]), b(s["ret"] == "out")) for h, s in r["methods"])
        bare = "%d" % r["bare"][1] if isinstance(r["bare"], list) else ""
        bad = [h for h, s in r["methods"] if step["version"] < 7 and body_uses(s["body"], ("v7",))]
        return "(router (%s) (%s) %s (%s))" % (ms, bare, b(fp), " ".join(str(h) for h in bad))
    if k == "deep_seq":
        return "(compile () false true ())"
    if k == "noop":
        return "(build)"
    raise AssertionError(k)


def reach(body, ctx):
    """Handles reachable from a body through the static call graph."""
    seen = []
    todo = list(body_calls(body))
    while todo:
        h = todo.pop()
        if h in seen:
            continue
        seen.append(h)
        s = ctx["subs"].get(h)
        if s is not None:
            todo += body_calls(s["body"])
    return seen


def new_ctx():
    return {"subs": {}, "progs": {}, "routers": {}, "opaque_subs": set(), "opaque_progs": set(), "opaque_routers": set()}


# --------------------------------------------------------------------------------------------------
# class predicates of the known findings (on recipes)
# --------------------------------------------------------------------------------------------------
def router_interleaved(methods, other_subs=()):
    """C11 store-into-evaluates-and-caches, router form.  The scratch declaration of a value-returning method is evaluated and
    cached by ReturnedValue.store_into while the router AST is being BUILT, at a slot-counter position that the router's
    cleaning context later rewinds over.  A later scratch-convention compile_program of the same router object allocates again
    from the rewound position: build-time ABI instances of a following method, or declarations evaluated only now (void
    methods, helper subroutines, bare-call subroutines) then take ids at or below the cached ones."""
    for i, (h, s) in enumerate(methods):
        if s["ret"] == "out":
            for h2, s2 in methods[i + 1:]:
                if len(s2["args"]) > 0 or s2["ret"] == "out":
                    return True
            if any(s2["ret"] != "out" for _, s2 in methods) or len(other_subs) > 0:
                return True
    return False


def has_storeinto_in_sub(subrecs):
    """A subroutine BODY containing store_into of an ABI-returning call: the callee's scratch declaration is
    evaluated at a point that depends on which convention evaluates the caller first."""
    return any(body_has(s["body"], ("storeinto",)) for s in subrecs)


# --------------------------------------------------------------------------------------------------
# generators
# --------------------------------------------------------------------------------------------------
class Gen:
    def __init__(self, rng, handle_base=1):
        self.rng = rng
        self.next_handle = handle_base
        self.next_prog = 1
        self.next_router = 1
        self.tmpl_n = 0

    def handle(self):
        h = self.next_handle
        self.next_handle += 1
        return h

    # ---- expressions -------------------------------------------------------------------------
    def expr(self, sc, depth=0):
        """uint64 expression over the scope sc."""
        r = self.rng
        leaf = depth >= 3 or r.random() < 0.35
        choices = ["int", "int"]
        if sc["vars"]:
            choices += ["load", "load", "load"]
        if sc["avars"]:
            choices += ["aget", "aget"]
        if sc["val_args"]:
            choices += ["arg", "arg"]
        if sc["ref_args"]:
            choices += ["refload"]
        if sc["abi_args"]:
            choices += ["abiarg"]
        if sc["tmpl"]:
            choices += ["tmpl"]
        if sc["dyn"]:
            choices += ["dynload"]
        if sc["maybe"]:
            choices += ["maybeval"]
        choices += ["txn", "global"]
        if not leaf:
            choices += ["bin"] * 6 + ["not", "ife"]
            if sc["callable_u"] and sc["call_budget"][0] > 0:
                choices += ["call"] * 3
            if sc["bytes_ok"]:
                choices += ["btoi", "len"]
        k = r.choice(choices)
        if k == "int":
            return ["int", r.choice([0, 1, 2, 3, 7, 10, 255, 1000, 2**32, 2**64 - 1])]
        if k == "load":
            return ["load", r.choice(sc["vars"])]
        if k == "aget":
            return ["aget", r.choice(sc["avars"])]
        if k == "arg":
            return ["arg", r.choice(sc["val_args"])]
        if k == "refload":
            return ["refload", r.choice(sc["ref_args"])]
        if k == "abiarg":
            return ["abiarg", r.choice(sc["abi_args"])]
        if k == "tmpl":
            return ["tmpl", r.choice(sc["tmpl"])]
        if k == "dynload":
            return ["dynload", r.choice(sc["dyn"])]
        if k == "maybeval":
            return ["maybeval", r.choice(sc["maybe"])]
        if k == "txn":
            return ["txn", r.choice(["fee", "first_valid", "amount", "group_index"])]
        if k == "global":
            return ["global", r.choice(["min_txn_fee", "round", "latest_timestamp", "group_size"])]
        if k == "bin":
            return ["bin", r.choice(["+", "-", "*", "/", "%", "<", ">", "==", "!=", "&&", "||", "&", "|", "<=", ">="]),
                    self.expr(sc, depth + 1), self.expr(sc, depth + 1)]
        if k == "not":
            return ["not", self.expr(sc, depth + 1)]
        if k == "ife":
            return ["ife", self.expr(sc, depth + 1), self.expr(sc, depth + 1), self.expr(sc, depth + 1)]
        if k == "call":
            sc["call_budget"][0] -= 1
            h, rec = r.choice(sc["callable_u"])
            return ["call", h, self.args_for(rec, sc, depth + 1)]
        if k == "btoi":
            return ["btoi", ["itob", self.expr(sc, depth + 1)]]
        if k == "len":
            return ["len", self.bexpr(sc, depth + 1)]
        raise AssertionError(k)

    def bexpr(self, sc, depth=0):
        r = self.rng
        choices = ["bytes", "bytes", "itob"]
        if sc["svars"]:
            choices += ["sget", "sget"]
        if sc["bvars"]:
            choices += ["loadb", "loadb"]
        if sc["tmpl"]:
            choices += ["tmplb"]
        if depth < 2:
            choices += ["concat", "concat"]
        k = r.choice(choices)
        if k == "bytes":
            return ["bytes", r.choice(["", "a", "hello", "C11", "\x00\x01", "x" * 20])]
        if k == "itob":
            return ["itob", self.expr(sc, depth + 2)]
        if k == "sget":
            return ["sget", r.choice(sc["svars"])]
        if k == "loadb":
            return ["loadb", r.choice(sc["bvars"])]
        if k == "tmplb":
            return ["tmplb", r.choice(sc["tmpl"]) + "_B"]
        if k == "concat":
            return ["concat", self.bexpr(sc, depth + 1), self.bexpr(sc, depth + 1)]
        raise AssertionError(k)

    def args_for(self, rec, sc, depth):
        """Arguments for a call of the subroutine recipe rec from scope sc (None if impossible)."""
        out = []
        for a in rec["args"]:
            if a == "val":
                out.append(["v", self.expr(sc, depth + 1)])
            elif a == "ref":
                out.append(["r", self.rng.choice(sc["plain_vars"])])
            else:
                if sc["avars64"] and (not sc["abi_args"] or self.rng.random() < 0.6):
                    out.append(["a", self.rng.choice(sc["avars64"])])
                else:
                    out.append(["aarg", self.rng.choice(sc["abi_args"])])
        return out

    def can_call(self, rec, sc):
        for a in rec["args"]:
            if a == "ref" and not sc["plain_vars"]:
                return False
            if a == "abi" and not (sc["avars64"] or sc["abi_args"]):
                return False
        return True

    # ---- statements --------------------------------------------------------------------------
    def stmts(self, sc, n, depth=0, in_loop=False):
        return [self.stmt(sc, depth, in_loop) for _ in range(n)]

    def stmt(self, sc, depth, in_loop):
        r = self.rng
        choices = ["pop", "assert", "assertc"]
        if not sc.get("old_versions"):
            choices += ["assertm"]
        if sc["vars"]:
            choices += ["store"] * 4
        if sc["bvars"]:
            choices += ["storeb"]
        if sc["avars"]:
            choices += ["aset"] * 2
        if sc["svars"]:
            choices += ["sset"]
        if sc["ref_args"]:
            choices += ["refstore"]
        if sc["mode"] == "app" and not sc.get("nolog"):
            choices += ["log"]
        if sc["dyn"] and sc["plain_vars"]:
            choices += ["dynstore"]
        if sc["callable_n"] and sc["call_budget"][0] > 0:
            choices += ["callnone"] * 3
        if depth < 2:
            choices += ["if", "if", "cond", "comment"]
            if sc["loops"]:
                choices += ["while"]
                if sc["plain_vars"]:
                    choices += ["for"]
        if in_loop and depth >= 1:
            choices += ["break_if"]
        k = r.choice(choices)
        if k == "pop":
            return ["pop", self.expr(sc)]
        if k == "assert":
            return ["assert", self.expr(sc)]
        if k == "assertc":
            return ["assertc", self.expr(sc), "c11 why %d" % r.randrange(100)]
        if k == "assertm":
            return ["assertm", [self.expr(sc, 2) for _ in range(r.randint(2, 3))], r.choice([None, "c11 all of them"])]
        if k == "store":
            return ["store", r.choice(sc["vars"]), self.expr(sc)]
        if k == "storeb":
            return ["storeb", r.choice(sc["bvars"]), self.bexpr(sc)]
        if k == "aset":
            return ["aset", r.choice(sc["avars64"] or sc["avars"]), self.expr(sc) if sc["avars64"] else ["int", 1]]
        if k == "sset":
            return ["sset", r.choice(sc["svars"]), self.bexpr(sc)]
        if k == "refstore":
            return ["refstore", r.choice(sc["ref_args"]), self.expr(sc)]
        if k == "log":
            return ["log", self.bexpr(sc)]
        if k == "dynstore":
            return ["dynstore", r.choice(sc["dyn"]), self.expr(sc)]
        if k == "callnone":
            sc["call_budget"][0] -= 1
            h, rec = r.choice(sc["callable_n"])
            return ["callnone", h, self.args_for(rec, sc, 1)]
        if k == "if":
            return ["if", self.expr(sc), self.stmts(sc, r.randint(1, 2), depth + 1, in_loop),
                    self.stmts(sc, r.randint(1, 2), depth + 1, in_loop) if r.random() < 0.5 else []]
        if k == "cond":
            return ["cond", [[self.expr(sc), self.stmts(sc, 1, depth + 1, in_loop)] for _ in range(r.randint(1, 3))]]
        if k == "comment":
            return ["comment", "c11 " + str(r.randrange(100)), self.stmts(sc, 1, depth + 1, in_loop)]
        if k == "while":
            return ["while", self.expr(sc), self.stmts(sc, r.randint(1, 2), depth + 1, True)]
        if k == "for":
            return ["for", r.choice(sc["plain_vars"]), r.randint(1, 5), self.stmts(sc, r.randint(1, 2), depth + 1, True)]
        if k == "break_if":
            return ["if", self.expr(sc), [[r.choice(["break", "continue"])]], []]
        raise AssertionError(k)

    # ---- bodies ------------------------------------------------------------------------------
    def body(self, role, args, callable_subs, mode, feat):
        """role: uint64|none|out|void|app|sig.  callable_subs: [(h, rec)] that may be called.
        feat: dict of feature switches (abi, dyn, res, maybe, tmpl, loops, storeinto, probe, raise_at, ...)."""
        r = self.rng
        decls = []
        sc = {"vars": [], "plain_vars": [], "bvars": [], "avars": [], "avars64": [], "svars": [], "dyn": [], "maybe": [],
              "val_args": [i for i, a in enumerate(args) if a == "val"],
              "ref_args": [i for i, a in enumerate(args) if a == "ref"],
              "abi_args": [i for i, a in enumerate(args) if a == "abi"],
              "tmpl": [], "mode": mode, "loops": feat.get("loops", True), "bytes_ok": True,
              "callable_u": [], "callable_n": [], "call_budget": [feat.get("calls", 3)], "nolog": feat.get("nolog", False)}
        order = []
        order += ["var"] * r.randint(feat.get("min_vars", 0), feat.get("max_vars", 3))
        if feat.get("bvar"):
            order += ["bvar"] * r.randint(0, 1)
        if feat.get("abi"):
            order += ["abi"] * r.randint(1, 3)
        if feat.get("dyn"):
            order += ["dyn"]
        if feat.get("res"):
            order += ["res"] * r.randint(1, 2)
        if feat.get("maybe") and mode == "app":
            order += ["maybe"]
        if feat.get("deadsub"):
            order += ["defsub"]
        r.shuffle(order)
        used_res = set(feat.get("taken_res", []))
        for k in order:
            if k == "var":
                decls.append({"d": "var", "t": "u"})
                sc["vars"].append(len(sc["vars"]))
                sc["plain_vars"].append(sc["vars"][-1])
            elif k == "bvar":
                decls.append({"d": "var", "t": "b"})
                sc["bvars"].append(len(sc["bvars"]))
            elif k == "abi":
                t = r.choice(["uint64", "uint64", "uint64", "uint32", "uint8", "string"])
                decls.append({"d": "abi", "t": t})
                if t == "string":
                    sc["svars"].append(len(sc["svars"]))
                else:
                    sc["avars"].append(len(sc["avars"]))
                    if t == "uint64":
                        sc["avars64"].append(sc["avars"][-1])
            elif k == "dyn":
                decls.append({"d": "dyn"})
                sc["dyn"].append(len(sc["dyn"]))
            elif k == "res":
                n = r.choice([x for x in (0, 1, 5, 17, 100, 200, 255) if x not in used_res])
                used_res.add(n)
                decls.append({"d": "res", "n": n})
                sc["vars"].append(len(sc["vars"]))      # reserved ScratchVar lives in env.vars too
            elif k == "maybe":
                decls.append({"d": "maybe", "key": "k%d" % r.randrange(5)})
                sc["maybe"].append(len(sc["maybe"]))
            elif k == "defsub":
                decls.append({"d": "defsub"})
        if feat.get("tmpl"):
            self.tmpl_n += 1
            sc["tmpl"] = ["TMPL_C11_%d" % (self.tmpl_n % 7)]
        # who can be called from here
        for h, rec in callable_subs:
            if not self.can_call(rec, sc):
                continue
            if rec["kind"] == "sub" and rec["ret"] == "uint64":
                sc["callable_u"].append((h, rec))
            elif rec["ret"] in ("none", "void"):
                sc["callable_n"].append((h, rec))
        # declarations with side effects on other subroutines
        pre = []
        if feat.get("probe"):
            cands = [h for h, rec in callable_subs if rec["kind"] == "sub"]
            if cands:
                decls.append({"d": "probe", "h": r.choice(cands)})
        if feat.get("storeinto"):
            outs = [(h, rec) for h, rec in callable_subs if rec["ret"] == "out" and self.can_call(rec, sc)]
            if outs and sc["avars64"]:
                h, rec = r.choice(outs)
                decls.append({"d": "storeinto", "h": h, "args": self.args_for(rec, dict(sc, call_budget=[0], callable_u=[]), 2),
                              "into": r.choice(sc["avars64"])})
                pre.append(["pre", 0])
                if r.random() < 0.5:
                    decls.append({"d": "var", "t": "u"})     # an allocation AFTER the nested evaluation
                    sc["vars"].append(len(sc["vars"]))
                    sc["plain_vars"].append(sc["vars"][-1])
                if r.random() < 0.5:
                    decls.append({"d": "abi", "t": "uint64"})   # ... and an ABI value (frame variable or slot, by the marker)
                    sc["avars"].append(len(sc["avars"]))
                    sc["avars64"].append(sc["avars"][-1])
        # initialisation of everything, then random statements
        init = []
        for i in sc["vars"]:
            init.append(["store", i, ["int", r.randrange(10)]])
        for i in sc["bvars"]:
            init.append(["storeb", i, ["bytes", "init"]])
        for i in sc["avars"]:
            init.append(["aset", i, ["int", r.randrange(10)]])
        for i in sc["svars"]:
            init.append(["sset", i, ["bytes", "s"]])
        for i in sc["dyn"]:
            if sc["plain_vars"]:
                init.append(["dynset", i, sc["plain_vars"][0]])
        if not sc["plain_vars"]:
            sc["dyn"] = []
        if feat.get("skip_init") and init:
            init = init[1:]          # a load before any store: rejected by slot validation (late failure)
            sc["vars"] = sc["vars"] or [0]
        body_stmts = init + pre + self.stmts(sc, r.randint(feat.get("min_stmts", 1), feat.get("max_stmts", 4)), 0, False)
        if feat.get("force_load") and sc["vars"]:
            body_stmts.append(["pop", ["load", sc["vars"][0]]])
        body = {"decls": decls, "stmts": body_stmts}
        if role in ("uint64", "out"):
            body["ret"] = self.expr(sc)
        if feat.get("raise_at") is not None:
            pos = min(feat["raise_at"], len(decls))
            decls.insert(pos, {"d": feat.get("raise_kind", "raise")})
        if feat.get("badreturn"):
            body["badreturn"] = True
        if feat.get("stmt_typeerr"):
            body["stmts"].append(["pop", ["typeerr"]])
            body["stmt_raises"] = True
        return body

    def sub(self, kind, ret, args, callable_subs, feat, name=None):
        h = self.handle()
        rec = {"kind": kind, "ret": ret, "args": args, "name": name or ("c11s%d" % h)}
        rec["body"] = self.body(ret, args, callable_subs, "app", feat)
        return h, rec

    # ---- whole programs ----------------------------------------------------------------------
    def program(self, flavour):
        """A self-contained program: its own subroutines, a main body, the configurations to compile it with.
        Returns {'pid', 'steps_def': [...], 'configs': [...], 'kind': 'prog', 'flavour', ...}."""
        r = self.rng
        pid = self.next_prog
        self.next_prog += 1
        mode = "app"
        feat_main = {"max_vars": 3, "loops": True}
        feat_sub = {"max_vars": 2, "loops": True}
        nsubs = 0
        configs = [{"version": 6}, {"version": 8}]
        abi_subs = False
        if flavour == "flat":
            mode = r.choice(["app", "sig"])
            feat_main.update(bvar=True, tmpl=r.random() < 0.5, max_stmts=6)
            configs = [{"version": r.choice([5, 6, 7])}, {"version": r.choice([8, 9, 10])}, {"version": 10, "opt": {"scratch_slots": False}}]
        elif flavour == "flat_old":
            mode = "sig"
            feat_main.update(loops=False, tmpl=r.random() < 0.5, max_stmts=6)
            configs = [{"version": 3}, {"version": 4}, {"version": 2, "opt": {"assemble_constants": False}}]
        elif flavour == "subs":
            nsubs = r.randint(1, 4)
            feat_main.update(dyn=r.random() < 0.4, res=r.random() < 0.4)
            configs = [{"version": r.choice([5, 6, 7])}, {"version": 8}, {"version": r.choice([9, 10])},
                       {"version": 8, "opt": {"frame_pointers": False}}]
        elif flavour == "recursive":
            nsubs = r.randint(2, 3)
            feat_sub.update(recursive=True)
            configs = [{"version": 5}, {"version": 7}, {"version": 8}, {"version": 10, "opt": {"scratch_slots": True}}]
        elif flavour == "abi_main":
            feat_main.update(abi=True, min_vars=1)
            nsubs = r.randint(0, 2)
            configs = [{"version": 8}, {"version": r.choice([9, 10])}, {"version": 6}, {"version": 8, "opt": {"frame_pointers": False}}]
        elif flavour == "abi_subs":
            feat_main.update(abi=True, storeinto=True, min_vars=1)
            feat_sub.update(abi=True)
            nsubs = r.randint(2, 4)
            abi_subs = True
            configs = [{"version": 6}, {"version": 8}, {"version": 10}, {"version": 9, "opt": {"frame_pointers": False}}]
        elif flavour == "storeinto_nested":
            feat_main.update(abi=True, min_vars=1)
            feat_sub.update(abi=True, storeinto=True)
            nsubs = 3
            abi_subs = True
            configs = [{"version": 6}, {"version": 8}, {"version": 7}]
        elif flavour == "tmpl":
            feat_main.update(tmpl=True, bvar=True)
            feat_sub.update(tmpl=True)
            nsubs = r.randint(0, 2)
            configs = [{"version": 6, "opt": {"assemble_constants": True}}, {"version": 8, "opt": {"assemble_constants": True}}, {"version": 10}]
        elif flavour == "probe":
            feat_main.update(probe=True)
            nsubs = r.randint(1, 3)
            configs = [{"version": 6}, {"version": 8}]
        elif flavour == "maybe":
            feat_main.update(maybe=True, res=True)
            feat_sub.update(maybe=True)
            nsubs = r.randint(0, 2)
            configs = [{"version": 6}, {"version": 9}]
        elif flavour == "nested":
            nsubs = 2
            feat_sub.update(nested=True)
            configs = [{"version": 6}, {"version": 8}]
        else:
            raise AssertionError(flavour)
        subs = []
        # subroutine signatures first (bodies may call each other, also backwards = recursion)
        sigs = []
        for i in range(nsubs):
            if abi_subs and i == 0:
                sigs.append(("abi", "out", ["abi"] * r.randint(1, 2)))
            elif abi_subs and r.random() < 0.4:
                sigs.append(("abi", r.choice(["out", "void"]), ["abi"] * r.randint(0, 2)))
            else:
                ret = r.choice(["uint64", "uint64", "none"])
                nargs = r.randint(0, 3)
                if feat_sub.get("recursive"):
                    args = [r.choice(["val", "val", "abi"]) if feat_sub.get("abi") else "val" for _ in range(nargs)]
                else:
                    args = [r.choice(["val", "val", "ref", "abi"] if feat_main.get("abi") or feat_sub.get("abi") else ["val", "val", "ref"]) for _ in range(nargs)]
                sigs.append(("sub", ret, args))
        handles = [self.handle() for _ in sigs]
        protos = [(h, {"kind": k, "ret": ret, "args": args, "name": "c11s%d" % h}) for h, (k, ret, args) in zip(handles, sigs)]
        for idx, (h, rec) in enumerate(protos):
            if feat_sub.get("recursive"):
                callees = protos                       # anything, itself included
            else:
                callees = protos[idx + 1:]             # acyclic
            f = dict(feat_sub)
            if flavour == "storeinto_nested" and idx != 1:
                f.pop("storeinto", None)
            if flavour == "storeinto_nested" and idx == 1:
                callees = [protos[0]] + protos[2:]
                f["min_vars"] = 1
            rec["body"] = self.body(rec["ret"], rec["args"], callees, "app", f)
            if feat_sub.get("nested") and idx == 0:
                nh, nrec = None, {"kind": "sub", "ret": "uint64", "args": ["val"], "name": "c11n%d" % h}
                nrec["body"] = self.body("uint64", ["val"], [], "app", {"max_vars": 1, "loops": False})
                rec["body"]["decls"].append({"d": "nested", "sub": nrec})
                rec["body"]["stmts"].append(["pop", ["callnested", 0, [["v", ["int", 4]]]]])
            subs.append((h, rec))
        main = self.body(mode, [], subs, mode, feat_main)
        # make sure every subroutine is referenced at least through main or another subroutine
        referenced = set(body_calls(main))
        for h, rec in subs:
            referenced |= set(body_calls(rec["body"]))
        for h, rec in subs:
            if h not in referenced:
                sc_args = []
                ok = True
                for a in rec["args"]:
                    if a == "val":
                        sc_args.append(["v", ["int", 2]])
                    elif a == "ref":
                        pv = [i for i, d in enumerate([d for d in main["decls"] if d["d"] in ("var", "res") and d.get("t", "u") == "u"]) if True]
                        if not pv:
                            main["decls"].append({"d": "var", "t": "u"})
                            nv = len([d for d in main["decls"] if d["d"] in ("var", "res") and d.get("t", "u") == "u"]) - 1
                            main["stmts"].insert(0, ["store", nv, ["int", 0]])
                            pv = [nv]
                        sc_args.append(["r", pv[-1]])
                    else:
                        av = [i for i, d in enumerate([d for d in main["decls"] if d["d"] == "abi" and d.get("t") != "string"]) if d.get("t") == "uint64"]
                        if not av:
                            main["decls"].append({"d": "abi", "t": "uint64"})
                            nv = len([d for d in main["decls"] if d["d"] == "abi" and d.get("t") != "string"]) - 1
                            main["stmts"].insert(0, ["aset", nv, ["int", 0]])
                            av = [nv]
                        sc_args.append(["a", av[-1]])
                if rec["kind"] == "sub" and rec["ret"] == "uint64":
                    main["stmts"].append(["pop", ["call", h, sc_args]])
                elif rec["ret"] in ("none", "void"):
                    main["stmts"].append(["callnone", h, sc_args])
                else:
                    # ABI-returning: needs store_into into a uint64 ABI value
                    av = [i for i, d in enumerate([d for d in main["decls"] if d["d"] == "abi" and d.get("t") != "string"]) if d.get("t") == "uint64"]
                    if not av:
                        main["decls"].append({"d": "abi", "t": "uint64"})
                        nv = len([d for d in main["decls"] if d["d"] == "abi" and d.get("t") != "string"]) - 1
                        main["stmts"].insert(0, ["aset", nv, ["int", 0]])
                        av = [nv]
                    npre = len([d for d in main["decls"] if d["d"] == "storeinto"])
                    main["decls"].append({"d": "storeinto", "h": h, "args": sc_args, "into": av[-1]})
                    main["stmts"].append(["pre", npre])
        steps = [{"k": "defsub", "h": h, "sub": rec} for h, rec in subs]
        if flavour == "probe" and subs and r.random() < 0.5:
            steps.append({"k": "probe", "h": subs[0][0]})
        steps.append({"k": "build", "p": pid, "mode": mode, "body": main})
        if mode == "sig":
            configs = [c for c in configs]
        return {"kind": "prog", "pid": pid, "flavour": flavour, "steps_def": steps, "configs": configs,
                "subs": subs, "main": main, "mode": mode}

    def router(self, flavour):
        r = self.rng
        rid = self.next_router
        self.next_router += 1
        steps = []
        bare = "approve"
        helper = None
        if flavour == "router_bare_sub":
            h = self.handle()
            rec = {"kind": "sub", "ret": "none", "args": [], "name": "c11b%d" % h}
            rec["body"] = self.body("none", [], [], "app", {"max_vars": 2, "loops": False})
            steps.append({"k": "defsub", "h": h, "sub": rec})
            bare = ["sub", h]
            helper = (h, rec)
        elif flavour == "router_none":
            bare = "none"
        steps.append({"k": "router_new", "r": rid, "name": "c11r%d" % rid, "bare": bare})
        nm = r.randint(1, 4) if flavour not in ("router_single", "router_failfirst") else 1
        methods = []
        shared = []
        if flavour == "router_helper":
            h = self.handle()
            rec = {"kind": "sub", "ret": "uint64", "args": ["val"], "name": "c11h%d" % h}
            rec["body"] = self.body("uint64", ["val"], [], "app", {"max_vars": 2})
            steps.insert(0, {"k": "defsub", "h": h, "sub": rec})
            shared = [(h, rec)]
        for i in range(nm):
            h = self.handle()
            ret = r.choice(["out", "out", "void"])
            if flavour == "router_void":
                ret = "void"
            args = ["abi"] * r.randint(0, 3)
            if flavour == "router_failfirst":
                args = ["abi"] * r.randint(1, 3)
            rec = {"kind": "abi", "ret": ret, "args": args, "name": "c11m%d" % h}
            feat = {"max_vars": 2, "abi": r.random() < 0.6, "loops": r.random() < 0.5}
            if flavour == "router_nested" and i == 0:
                feat["max_vars"] = 1
            rec["body"] = self.body(ret, args, shared, "app", feat)
            if flavour == "router_nested" and i == 0:
                nrec = {"kind": "sub", "ret": "uint64", "args": ["val"], "name": "c11n%d" % h}
                nrec["body"] = self.body("uint64", ["val"], [], "app", {"max_vars": 1, "loops": False})
                rec["body"]["decls"].append({"d": "nested", "sub": nrec})
                rec["body"]["stmts"].append(["pop", ["callnested", 0, [["v", ["int", 4]]]]])
            methods.append((h, rec))
            steps.append({"k": "router_method", "r": rid, "h": h, "sub": rec})
        configs = [{"version": 6}, {"version": 8}, {"version": r.choice([7, 9, 10])}, {"version": 8, "opt": {"frame_pointers": False}}]
        if flavour == "router_failfirst":
            # the (only) method uses an op of version 7: compile_program(version=6) fails AFTER the method's declaration was
            # evaluated; later successful compilations of the same router object must equal those of a fresh one
            h, rec = methods[0]
            rec["body"]["stmts"].append(["pop", ["v7", ["abiarg", 0]]])
            configs = [{"version": 6}, {"version": 7}, {"version": 8, "opt": {"frame_pointers": False}}, {"version": 8}]
        return {"kind": "router", "rid": rid, "flavour": flavour, "steps_def": steps, "configs": configs, "methods": methods,
                "bare": bare, "subs": methods + shared + ([helper] if helper else [])}

    # ---- history activities (never compared, only there to disturb) -----------------------------
    def failing(self, cls):
        """A program whose definition or compilation FAILS in the given class.  Returns a list of steps; compile steps
        carry what the recipe knows about the failure (main_fails / bad / late)."""
        r = self.rng
        pid = self.next_prog
        self.next_prog += 1
        if cls in ("body_raises_fp", "body_raises_scratch", "body_raises_late_in_body", "abi_body_raises", "bad_return", "body_typeerr"):
            kind, ret, args = "sub", "uint64", ["val"] * r.randint(0, 2)
            feat = {"max_vars": 2, "abi": cls != "body_raises_scratch" and r.random() < 0.7}
            if cls == "abi_body_raises":
                kind, ret, args = "abi", "out", ["abi"] * r.randint(0, 2)
            if cls == "bad_return":
                feat["badreturn"] = True
            elif cls == "body_typeerr":
                feat["stmt_typeerr"] = True
            elif cls == "body_raises_late_in_body":
                feat["raise_at"] = 99
            else:
                feat["raise_at"] = r.randint(0, 2)
            # a healthy subroutine compiled BEFORE the failing one (ids are lower), one after
            h0, rec0 = self.sub("sub", "uint64", ["val"], [], {"max_vars": 1})
            h1, rec1 = self.sub(kind, ret, args, [], feat)
            h2, rec2 = self.sub("sub", "none", [], [], {"max_vars": 1})
            main = self.body("app", [], [(h0, rec0), (h2, rec2)] + ([(h1, rec1)] if kind == "sub" else []), "app", {"abi": True, "min_vars": 1, "calls": 0})
            main["stmts"].append(["pop", ["call", h0, [["v", ["int", 1]]]]])
            if kind == "sub":
                main["stmts"].append(["pop", ["call", h1, [["v", ["int", 1]] for _ in args]]])
            else:
                avs = [i for i, d in enumerate([d for d in main["decls"] if d["d"] == "abi" and d.get("t") != "string"]) if d.get("t") == "uint64"]
                if not avs:
                    main["decls"].append({"d": "abi", "t": "uint64"})
                    nv = len([d for d in main["decls"] if d["d"] == "abi" and d.get("t") != "string"]) - 1
                    main["stmts"].insert(0, ["aset", nv, ["int", 0]])
                    avs = [nv]
                npre = len([d for d in main["decls"] if d["d"] == "storeinto"])
                main["decls"].append({"d": "storeinto", "h": h1, "args": [["a", avs[0]] for _ in args], "into": avs[0]})
                main["stmts"].append(["pre", npre])
            main["stmts"].append(["callnone", h2, []])
            version = 8 if cls in ("body_raises_fp", "abi_body_raises", "bad_return", "body_typeerr", "body_raises_late_in_body") else r.choice([5, 6, 7])
            if cls in ("bad_return", "body_typeerr", "abi_body_raises") and r.random() < 0.5:
                version = 6
            steps = [{"k": "defsub", "h": h0, "sub": rec0}, {"k": "defsub", "h": h1, "sub": rec1}, {"k": "defsub", "h": h2, "sub": rec2},
                     {"k": "build", "p": pid, "mode": "app", "body": main},
                     {"k": "compile", "p": pid, "version": version}]
            if r.random() < 0.4:
                steps.append({"k": "compile", "p": pid, "version": version})      # fail again
            if kind == "sub" and r.random() < 0.3:
                steps.insert(3, {"k": "probe", "h": h1})
            return steps
        if cls == "build_typeerr":
            body = self.body("app", [], [], "app", {"abi": True, "min_vars": 1, "raise_at": r.randint(0, 3), "raise_kind": "typeerr"})
            return [{"k": "build", "p": pid, "mode": "app", "body": body}, {"k": "compile", "p": pid, "version": 8, "main_fails": True}]
        if cls == "bad_version":
            body = self.body("app", [], [], "app", {"max_vars": 1})
            return [{"k": "build", "p": pid, "mode": "app", "body": body}, {"k": "compile", "p": pid, "version": r.choice([0, 1, 11, 99]), "main_fails": True}]
        if cls == "fp_below_8":
            h0, rec0 = self.sub("sub", "uint64", ["val"], [], {"max_vars": 1})
            body = self.body("app", [], [(h0, rec0)], "app", {"max_vars": 1, "calls": 0})
            body["stmts"].append(["pop", ["call", h0, [["v", ["int", 1]]]]])
            return [{"k": "defsub", "h": h0, "sub": rec0}, {"k": "build", "p": pid, "mode": "app", "body": body},
                    {"k": "compile", "p": pid, "version": 6, "opt": {"frame_pointers": True}}]
        if cls == "op_above_version_main":
            body = self.body("app", [], [], "app", {"max_vars": 1, "loops": False})
            body["stmts"].append(["log", ["bytes", "x"]])
            return [{"k": "build", "p": pid, "mode": "app", "body": body}, {"k": "compile", "p": pid, "version": 4, "main_fails": True, "expect_fail": True}]
        if cls == "op_above_version_sub":
            # main is fine at v4; the second subroutine logs (v5): it is evaluated, then fails to lower; its callee is never evaluated
            h3, rec3 = self.sub("sub", "uint64", ["val"], [], {"max_vars": 1, "loops": False, "nolog": True})
            h0, rec0 = self.sub("sub", "uint64", ["val"], [], {"max_vars": 1, "loops": False, "nolog": True})
            h1, rec1 = self.sub("sub", "uint64", ["val"], [(h3, rec3)], {"max_vars": 1, "loops": False, "calls": 0, "nolog": True})
            rec1["body"]["stmts"].append(["log", ["bytes", "x"]])
            rec1["body"]["stmts"].append(["pop", ["call", h3, [["v", ["int", 1]]]]])
            body = self.body("app", [], [], "app", {"max_vars": 1, "loops": False, "calls": 0, "nolog": True})
            body["stmts"].append(["pop", ["call", h0, [["v", ["int", 1]]]]])
            body["stmts"].append(["pop", ["call", h1, [["v", ["int", 1]]]]])
            return [{"k": "defsub", "h": h3, "sub": rec3}, {"k": "defsub", "h": h0, "sub": rec0}, {"k": "defsub", "h": h1, "sub": rec1},
                    {"k": "build", "p": pid, "mode": "app", "body": body},
                    {"k": "compile", "p": pid, "version": 4, "bad": [h1], "expect_fail": True},
                    {"k": "compile", "p": pid, "version": 6}]
        if cls == "uninit_load":
            body = {"decls": [{"d": "var", "t": "u"}, {"d": "var", "t": "u"}],
                    "stmts": [["store", 1, ["int", r.randrange(9)]], ["pop", ["bin", "+", ["load", 0], ["load", 1]]]]}
            return [{"k": "build", "p": pid, "mode": "app", "body": body}, {"k": "compile", "p": pid, "version": r.choice([6, 8]), "late": True}]
        if cls == "dup_reserved":
            body = self.body("app", [], [], "app", {"max_vars": 1})
            n = r.choice([3, 77])
            k0 = len([d for d in body["decls"] if d["d"] in ("var", "res") and d.get("t", "u") == "u"])
            body["decls"] += [{"d": "res", "n": n}, {"d": "res", "n": n}]
            body["stmts"] = [["store", k0, ["int", 1]], ["store", k0 + 1, ["int", 2]]] + body["stmts"]
            return [{"k": "build", "p": pid, "mode": "app", "body": body}, {"k": "compile", "p": pid, "version": 6, "late": True}]
        if cls == "recursive_byref":
            h2 = self.handle()
            rec2 = {"kind": "sub", "ret": "none", "args": ["ref"], "name": "c11s%d" % h2}
            rec2["body"] = {"decls": [{"d": "var", "t": "u"}], "stmts": [["store", 0, ["int", 1]], ["callnone", h2, [["r", 0]]]]}
            body = {"decls": [{"d": "var", "t": "u"}], "stmts": [["store", 0, ["int", 0]], ["callnone", h2, [["r", 0]]]]}
            return [{"k": "defsub", "h": h2, "sub": rec2}, {"k": "build", "p": pid, "mode": "app", "body": body},
                    {"k": "compile", "p": pid, "version": 6, "late": True}]
        if cls == "too_many_slots":
            body = {"decls": [{"d": "var", "t": "u"} for _ in range(257)], "stmts": [["store", i, ["int", 1]] for i in range(257)]}
            return [{"k": "build", "p": pid, "mode": "app", "body": body}, {"k": "compile", "p": pid, "version": 6, "late": True}]
        if cls == "deep_seq":
            return [{"k": "deep_seq", "n": 600, "version": 6, "expect_fail": True}]
        if cls == "router_method_raises":
            rid = self.next_router
            self.next_router += 1
            h = self.handle()
            rec = {"kind": "abi", "ret": r.choice(["out", "void"]), "args": ["abi"], "name": "c11m%d" % h}
            rec["body"] = self.body(rec["ret"], ["abi"], [], "app", {"max_vars": 1, "abi": True, "raise_at": r.randint(0, 2)})
            h2 = self.handle()
            rec2 = {"kind": "abi", "ret": "out", "args": ["abi"], "name": "c11m%d" % h2}
            rec2["body"] = self.body("out", ["abi"], [], "app", {"max_vars": 1})
            order = [(h2, rec2), (h, rec)] if r.random() < 0.5 else [(h, rec), (h2, rec2)]
            return [{"k": "router_new", "r": rid, "name": "c11bad%d" % rid, "bare": "approve"}] + \
                   [{"k": "router_method", "r": rid, "h": hh, "sub": rr} for hh, rr in order] + \
                   [{"k": "router_compile", "r": rid, "version": r.choice([6, 8, 8])}]
        if cls == "prog_fail_then_ok":
            # a subroutine using an op of version 7: compileTeal(version=6) fails after its declaration was evaluated, then version 7 succeeds
            h0, rec0 = self.sub("sub", "uint64", ["val"], [], {"max_vars": 2, "loops": False})
            h1, rec1 = self.sub("sub", "uint64", ["val", "abi"], [(h0, rec0)], {"max_vars": 2, "loops": False, "abi": True})
            rec1["body"]["stmts"].append(["pop", ["v7", ["arg", 0]]])
            body = self.body("app", [], [], "app", {"min_vars": 1, "max_vars": 2, "abi": True, "calls": 0})
            av = [i for i, d in enumerate([d for d in body["decls"] if d["d"] == "abi" and d.get("t") != "string"]) if d.get("t") == "uint64"]
            if not av:
                body["decls"].append({"d": "abi", "t": "uint64"})
                nv = len([d for d in body["decls"] if d["d"] == "abi" and d.get("t") != "string"]) - 1
                body["stmts"].insert(0, ["aset", nv, ["int", 0]])
                av = [nv]
            body["stmts"].append(["pop", ["call", h1, [["v", ["int", 1]], ["a", av[0]]]]])
            body["stmts"].append(["pop", ["call", h0, [["v", ["int", 2]]]]])
            return [{"k": "defsub", "h": h0, "sub": rec0}, {"k": "defsub", "h": h1, "sub": rec1}, {"k": "build", "p": pid, "mode": "app", "body": body},
                    {"k": "compile", "p": pid, "version": 6, "bad": [h1], "expect_fail": True}, {"k": "compile", "p": pid, "version": 7}]
        if cls == "router_fail_then_ok":
            it = self.router("router_failfirst")
            steps = list(it["steps_def"])
            for v in ([6, 7] if r.random() < 0.7 else [6, 6, 8, 7]):
                steps.append({"k": "router_compile", "r": it["rid"], "version": v})
            return steps
        raise AssertionError(cls)


FAIL_CLASSES = ["router_fail_then_ok", "prog_fail_then_ok", "body_raises_fp", "body_raises_scratch", "body_raises_late_in_body", "abi_body_raises", "bad_return", "body_typeerr",
                "build_typeerr", "bad_version", "fp_below_8", "op_above_version_main", "op_above_version_sub", "uninit_load",
                "dup_reserved", "recursive_byref", "too_many_slots", "deep_seq", "router_method_raises"]
PROG_FLAVOURS = ["flat", "flat_old", "subs", "recursive", "abi_main", "abi_subs", "storeinto_nested", "tmpl", "probe", "maybe", "nested"]
ROUTER_FLAVOURS = ["router_failfirst", "router_plain", "router_bare_sub", "router_none", "router_single", "router_helper", "router_void", "router_nested"]
