"""C07 — building, compiling (REAL PyTeal) and executing (extracted AVM) the element-access programs, and
judging one run.  Used by the pool workers of c07.py and by --replay.

A *job* describes one program (compiled once):
    kind     "tuple"    t.decode(arg0); t[i] -> out; log
             "named"    the same through a NamedTuple field accessor
             "array"    a.decode(arg0); a[index] -> out; log           index: run-time (arg1) | Python int | Int(k)
             "nested"   t.decode(arg0); t[j] -> arr; arr[index] -> out; log     (array inside a tuple)
             "length"   a.decode(arg0); log Itob(a.length())
             "get"      x.decode(arg0); log x.get() (bytes) / Itob(x.get()) (uint, bool)
    t        the type of the decoded value (nested tuples, see c19_abi)
    i        tuple position (tuple/named/nested)
    index    None (run-time: Btoi(Txn.application_args[1])) | ["py", k] | ["int", k]
    ver      TEAL version;  backend  "scratch" | "frame" (all ABI values are frame variables of a subroutine,
             v8+) | "frameabi" (the decoded value is an ABI argument of the subroutine, v8+)
    mode     "store" | "use" (ComputedValue.use) ;  logmode "encode" | "get"
    user_slots  optional list of requested scratch slot ids of user ScratchVars the routine also owns (markers written before the
             decode and between extraction and use, asserted afterwards);  backend "subscratch" = subroutine without frame pointers
    flow     optional "reuse-if" | "loop" | "after-branch" (control flow around the access);  opt  scratch_slots option (None = default)
    runs     [{"enc": hex, "idx": int | None, "tag": "in" | "oob" | "bad", "expect": hex | None, "n": array length}]
"""
import json

from common import S, sx, call_real, PYTEAL_ERRORS  # noqa
import c19_abi as AB
import c07_abi as C7

U64 = 1 << 64


def tj(x):
    """json lists -> type tuples (named tuples re-declared in this process)"""
    def go(y):
        return tuple(go(z) for z in y) if isinstance(y, (list, tuple)) else y
    return C7.realise(go(x))


# ---------------------------------------------------------------------------------------------
# what is accessed
# ---------------------------------------------------------------------------------------------
def elem_type(job):
    """type of the value that is logged"""
    t = job["t"]
    k = job["kind"]
    if k in ("tuple", "named"):
        return AB.children(t)[job["i"]]
    if k == "array":
        return C7.array_info(t)[0]
    if k == "nested":
        return C7.array_info(AB.children(t)[job["i"]])[0]
    return None


def model_src(job):
    t = job["t"]
    k = job["kind"]
    if k in ("tuple", "named"):
        return C7.src_tuple(t, job["i"])
    if k == "array":
        return C7.src_array(t)
    if k == "nested":
        return C7.src_array(AB.children(t)[job["i"]])
    if k == "get":
        return (S("decode"), AB.ty_sx(t)) if is_scalar(t) else (S("get"), AB.ty_sx(t))
    raise ValueError(k)


def encode_stored(et, val):
    """what `out.encode()` logs when `out` (of type et) holds the model's stored value"""
    if et == "bool":
        return b"\x80" if val == 1 else (b"\x00" if val == 0 else None)
    if et == "byte" or (isinstance(et, tuple) and et[0] == "uint"):
        size = 1 if et == "byte" else et[1] // 8
        return val.to_bytes(size, "big") if isinstance(val, int) and val < (1 << (8 * size)) else None
    return val if isinstance(val, bytes) else None


def is_scalar(et):
    return et in ("bool", "byte") or (isinstance(et, tuple) and et[0] == "uint")


# ---------------------------------------------------------------------------------------------
# the real program
# ---------------------------------------------------------------------------------------------
def build_program(pt, job):
    from pyteal import abi  # noqa
    t = job["t"]
    kind = job["kind"]
    spec = AB.to_pyteal(t)
    index = job.get("index")
    mode = job.get("mode", "store")
    logmode = job.get("logmode", "encode")
    backend = job.get("backend", "scratch")

    def ix():
        if index is None:
            return C7.idx_expr(pt)
        if index[0] == "py":
            return index[1]
        return pt.Int(index[1])

    def log_of(x):
        if logmode == "get":
            g = x.get()
            return pt.Log(pt.Itob(g) if g.type_of() == pt.TealType.uint64 else g)
        return pt.Log(x.encode())

    user_slots = job.get("user_slots") or []
    flow = job.get("flow")
    state = {"between": []}

    def access(cv):
        """cv: ComputedValue -> expression that logs it (user-variable writes go between the extraction and the use)"""
        bw = list(state["between"])
        if mode == "use":
            return cv.use(lambda x: pt.Seq(*(bw + [log_of(x)])))
        out = cv.produced_type_spec().new_instance()
        return pt.Seq(*([cv.store_into(out)] + bw + [log_of(out)]))

    def body(val):
        """val: the decoded ABI value -> the expression that accesses and logs"""
        if kind == "tuple":
            return access(val[job["i"]])
        if kind == "named":
            return access(getattr(val, "f%d" % job["i"]))
        if kind == "array":
            return access(val[ix()])
        if kind == "nested":
            arr = spec.value_type_specs()[job["i"]].new_instance()
            return pt.Seq(val[job["i"]].store_into(arr), access(arr[ix()]))
        bw = list(state["between"])
        if kind == "length":
            return pt.Seq(*(bw + [pt.Log(pt.Itob(val.length()))]))
        if kind == "get":
            g = val.get()
            return pt.Seq(*(bw + [pt.Log(pt.Itob(g) if g.type_of() == pt.TealType.uint64 else g)]))
        raise ValueError(kind)

    def named_cls():
        ts = AB.children(t)
        nt = AB.realistic_named(tuple("f%d" % k for k in range(len(ts))), tuple(ts))
        return AB._named_classes[nt[1]]

    def new_value():
        if kind == "named":
            return named_cls()()
        return spec.new_instance()

    def with_user_vars(inner):
        """the routine also owns user ScratchVars with requested slot ids (and one more automatic ABI value): they are
        written before the decode, re-written between the extraction and the use, and must still hold their markers"""
        if not user_slots:
            return inner()
        kept = [pt.ScratchVar(pt.TealType.uint64, r) for r in user_slots]
        extra = abi.Uint64()
        pre = [k.store(pt.Int(1000 + r)) for k, r in zip(kept, user_slots)] + [extra.set(5)]
        state["between"] = [k.store(pt.Int(7000 + r)) for k, r in zip(kept, user_slots)]
        mid = inner()
        post = [pt.Assert(k.load() == pt.Int(7000 + r)) for k, r in zip(kept, user_slots)] + [pt.Assert(extra.get() == pt.Int(5))]
        return pt.Seq(*(pre + [mid] + post))

    def routine(src, v=None):
        """src: expression of the encoded bytes (None when v is already decoded) -> decode, access, log"""
        def dec(x):
            return x.decode(src)

        def inner():
            val = v if v is not None else new_value()
            first = [] if v is not None else [dec(val)]
            if flow == "reuse-if" and src is not None:
                # used twice in an earlier block, decoded again and used once inside a later If arm
                return pt.Seq(*(first + [body(val), body(val),
                                         pt.If(pt.Len(src) >= pt.Int(0)).Then(pt.Seq(dec(val), body(val))).Else(pt.Log(pt.Bytes("else")))]))
            if flow == "loop":
                cnt = pt.ScratchVar(pt.TealType.uint64)
                return pt.Seq(*(first + [pt.For(cnt.store(pt.Int(0)), cnt.load() < pt.Int(2), cnt.store(cnt.load() + pt.Int(1))).Do(body(val))]))
            if flow == "after-branch" and src is not None:
                return pt.Seq(pt.If(pt.Len(src) > pt.Int(3)).Then(dec(val)).Else(dec(val)), body(val))
            return pt.Seq(*(first + [body(val)]))
        return with_user_vars(inner)

    arg0 = pt.Txn.application_args[0]
    if backend == "scratch":
        return pt.Seq(routine(arg0), pt.Approve())
    if backend in ("frame", "subscratch"):
        def f(enc):
            return routine(enc)
        f.__annotations__ = {"enc": pt.Expr, "return": pt.Expr}
        f.__name__ = "acc"
        sub = pt.Subroutine(pt.TealType.none)(f)
        return pt.Seq(sub(arg0), pt.Approve())
    if backend == "frameabi":
        ann = spec.annotation_type() if kind != "named" else named_cls()

        def g(v):
            return routine(None, v)
        g.__annotations__ = {"v": ann, "return": pt.Expr}
        g.__name__ = "acc"
        sub = pt.Subroutine(pt.TealType.none)(g)
        v0 = new_value()
        return pt.Seq(v0.decode(arg0), sub(v0), pt.Approve())
    raise ValueError(backend)


def nlogs_of(job):
    return {"reuse-if": 3, "loop": 2}.get(job.get("flow"), 1) if not (job.get("backend") == "frameabi" and job.get("flow") in ("reuse-if", "after-branch")) else 1


def compile_job(pt, job):
    """('ok', teal) | ('exc', name, msg)"""
    def go():
        prog = build_program(pt, job)
        be = job.get("backend", "scratch")
        ss = job.get("opt")
        if be == "scratch":
            opt = pt.OptimizeOptions(scratch_slots=ss) if ss is not None else None
        elif be == "subscratch":
            opt = pt.OptimizeOptions(scratch_slots=ss, frame_pointers=False)
        else:
            opt = pt.OptimizeOptions(scratch_slots=ss, frame_pointers=True)
        return pt.compileTeal(prog, pt.Mode.Application, version=job["ver"], optimize=opt)
    return call_real(go)


# ---------------------------------------------------------------------------------------------
# gate: what construction-time errors the model of __getitem__ predicts
# ---------------------------------------------------------------------------------------------
def expected_compile_error(job):
    """None | exception class name the real construction must raise"""
    index = job.get("index")
    if job["kind"] in ("array", "nested") and index is not None and index[0] == "py":
        t = job["t"] if job["kind"] == "array" else AB.children(job["t"])[job["i"]]
        n = C7.array_info(t)[1]
        if index[1] < 0 or (n is not None and index[1] >= n):
            return "TealInputError"
    if job["kind"] in ("array", "nested") and index is not None and index[0] == "int" and not (0 <= index[1] < U64):
        return "TealInputError"
    return None


# ---------------------------------------------------------------------------------------------
# execution
# ---------------------------------------------------------------------------------------------
def ctx_of(enc, idx, fuel=6000):
    args = (enc,) if idx is None else (enc, idx.to_bytes(8, "big"))
    return (S("ctx"), (S("mode"), S("app")), (S("group"), ((S("fields"), ("NumAppArgs", len(args))), (S("arrays"), ("ApplicationArgs", args)))), (S("fuel"), fuel))


def run_real_teal(model, teal, enc, idx):
    """-> (verdict str, [log bytes])"""
    res = model.ask((S("run"), ctx_of(enc, idx), teal))
    if not isinstance(res, list) or not res or res[0] != S("ran"):
        return ("error:" + repr(res)[:100], [])
    v = res[1]
    verdict = v.name if hasattr(v, "name") else "unsup:" + repr(v)
    logs = [e[1] if isinstance(e[1], bytes) else (e[1].encode("latin-1") if isinstance(e[1], str) else b"") for e in res[3][1:] if e[0] == S("log")]
    return (verdict, logs)


def model_log(model, job, enc, idx_value):
    """what the model says the program logs: bytes | 'fail' | 'noplan' | 'n/a'"""
    k = job["kind"]
    if k == "length":
        r = model.ask((S("execlen"), AB.ty_sx(job["t"]), enc))
        if r[0] == S("some"):
            return r[1].to_bytes(8, "big")
        return "fail" if r[0] == S("fail") else "noplan"
    r = model.ask((S("exec"), job["ver"], model_src(job), enc, idx_value if idx_value is not None else 0))
    if r[0] == S("noplan"):
        return "noplan"
    if r[0] == S("fail"):
        return "fail"
    if r[0] != S("some"):
        return "error:" + repr(r)[:80]
    val = r[1]
    if k == "get":
        return val if isinstance(val, bytes) else val.to_bytes(8, "big")
    et = elem_type(job)
    if job.get("logmode") == "get":
        return val.to_bytes(8, "big") if isinstance(val, int) else val
    b = encode_stored(et, val)
    return b if b is not None else "error:stored %r not encodable at %r" % (val, et)


def nested_inner(model, job, enc):
    """for kind nested: the bytes of the array member (model), or None when the member extraction fails"""
    r = model.ask((S("exec"), job["ver"], C7.src_tuple(job["t"], job["i"]), enc, 0))
    if r[0] == S("some") and isinstance(r[1], bytes):
        return r[1]
    return None


def run_index_value(job, run):
    index = job.get("index")
    if job["kind"] in ("array", "nested"):
        return run["idx"] if index is None else index[1]
    return None


# ---------------------------------------------------------------------------------------------
# known-finding classes (element kind x array kind x index range)
# ---------------------------------------------------------------------------------------------
def oob_class(job, run):
    """class of an out-of-range array access that may legitimately (= as the faithful model predicts) not fail
    on this tree; None if no known class covers it"""
    if job["kind"] not in ("array", "nested"):
        return None
    at = job["t"] if job["kind"] == "array" else AB.children(job["t"])[job["i"]]
    e, _ = C7.array_info(at)
    n = run["n"]
    idx = run_index_value(job, run)
    ek = C7.elem_kind(e)
    if ek == "bool" and n <= idx < 8 * ((n + 7) // 8):
        return "oob-bool-padding"
    if ek == "static0":
        return "oob-zero-length-element"
    if ek == "dynamic":
        return "oob-dynamic-element"
    return None


def execute_job(pt, model, job):
    """compile + run everything; returns a result dict with the issues found"""
    if job["kind"] in SPECIAL_KINDS:
        return execute_special(pt, model, job)
    out = {"id": job.get("id"), "issues": [], "runs": 0, "in_ok": 0, "oob_fail": 0, "oob_known": {}, "bad_agree": 0, "compile": None, "samples": []}
    want_err = expected_compile_error(job)
    r = compile_job(pt, job)
    if r[0] != "ok":
        out["compile"] = r[1]
        if r[1] not in PYTEAL_ERRORS:
            out["issues"].append({"kind": "crash", "why": "building/compiling the access program raises %s: %s" % (r[1], r[2][:200])})
        elif want_err != r[1]:
            out["issues"].append({"kind": "compile", "why": "construction raises %s (%s); expected %s" % (r[1], r[2][:160], want_err or "a program")})
        return out
    out["compile"] = "ok"
    if want_err is not None:
        out["issues"].append({"kind": "compile", "why": "construction succeeds; the model of __getitem__ expects %s" % want_err})
        return out
    teal = r[1]
    et = elem_type(job)
    for run in job["runs"]:
        enc = bytes.fromhex(run["enc"])
        idx = run.get("idx")
        iv = run_index_value(job, run)
        verdict, logs = run_real_teal(model, teal, enc, idx if job.get("index") is None and job["kind"] in ("array", "nested") else None)
        out["runs"] += 1
        if verdict not in ("approve", "fail", "reject"):
            out["issues"].append({"kind": "avm", "why": "AVM run inconclusive: %s" % verdict, "run": run})
            continue
        nl = nlogs_of(job)
        if verdict != "approve":
            real = "fail"
        elif len(logs) == nl and all(l_ == logs[0] for l_ in logs):
            real = logs[0]
        else:
            real = "logs:" + ",".join(l_.hex() for l_ in logs)
        # model of the same access on the same bytes
        if job["kind"] == "nested":
            inner = nested_inner(model, job, enc)
            mod = "fail" if inner is None else model_log(model, dict(job, kind="array", t=AB.children(job["t"])[job["i"]]), inner, iv)
        else:
            mod = model_log(model, job, enc, iv)
        agree = (real == mod)
        tag = run["tag"]
        rec = {"run": run, "real": real.hex() if isinstance(real, bytes) else real, "model": mod.hex() if isinstance(mod, bytes) else mod, "teal": teal}
        if not agree:
            out["issues"].append(dict(rec, kind="corr", why="real program and model disagree"))
        if tag == "in":
            exp = bytes.fromhex(run["expect"])
            if real == exp:
                out["in_ok"] += 1
            else:
                out["issues"].append(dict(rec, kind="semantic", expect=run["expect"],
                                          why="in-range access returns %s, expected the component's reference encoding %s" % (rec["real"], run["expect"])))
        elif tag == "oob":
            if real == "fail":
                out["oob_fail"] += 1
            else:
                cls = oob_class(job, run)
                if cls is not None and agree:
                    out["oob_known"][cls] = out["oob_known"].get(cls, 0) + 1
                    if len(out["samples"]) < 2:
                        out["samples"].append({"class": cls, "type": AB.ty_text(job["t"]), "n": run["n"], "index": iv, "returned": rec["real"]})
                else:
                    out["issues"].append(dict(rec, kind="oob", cls=cls,
                                              why="index %d is outside the array of length %d but the program returns %s instead of failing" % (iv, run["n"], rec["real"])))
        else:  # malformed bytes: only the correspondence speaks
            if agree:
                out["bad_agree"] += 1
    return out


# ---------------------------------------------------------------------------------------------
# special programs (round 6): several NamedTuple classes sharing field names; one ComputedValue handle used twice
# ---------------------------------------------------------------------------------------------
SPECIAL_KINDS = ("multinamed", "handle", "mixedsig")
_mn_counter = [0]


def build_special(pt, job):
    from pyteal import abi
    kind = job["kind"]
    backend = job.get("backend", "scratch")
    A = pt.Txn.application_args

    def logv(x):
        return pt.Log(x.encode())

    def use_(e, m):
        if m == "use":
            return e.use(lambda x: logv(x))
        out = e.produced_type_spec().new_instance()
        return pt.Seq(e.store_into(out), logv(out))

    if kind == "mixedsig":
        # the decoded container(s) travel as ABI arguments through a signature that mixes parameter kinds:
        # sig: list of "abi" | "expr" | "sv";  flavor "sub" (plain Subroutine, logs inside) | "abiret" (ABIReturnSubroutine)
        t = job["t"]
        spec = AB.to_pyteal(t)
        et = C7.array_info(t)[0] if job["base"] == "array" else AB.children(t)[job["i"]]
        sig = job["sig"]
        names = ["p%d" % k for k in range(len(sig))]

        def inner(*params, output=None):
            idx = None
            for kd, p_ in zip(sig, params):
                if kd == "expr":
                    idx = p_
                elif kd == "sv":
                    idx = p_.load()
            if idx is None:
                idx = pt.Btoi(A[1])
            conts = [p_ for kd, p_ in zip(sig, params) if kd == "abi"]

            def elem(c):
                return c[idx] if job["base"] == "array" else c[job["i"]]
            if output is None:
                return pt.Seq(*[elem(c).use(lambda x: logv(x)) for c in conts])
            return pt.Seq(*([elem(c).use(lambda x: logv(x)) for c in conts[1:]] + [elem(conts[0]).store_into(output)]))
        ns = {}
        if job["flavor"] == "abiret":
            exec("def acc(%s, *, output):\n    return _f(%s, output=output)" % (", ".join(names), ", ".join(names)), {"_f": inner}, ns)
        else:
            exec("def acc(%s):\n    return _f(%s)" % (", ".join(names), ", ".join(names)), {"_f": inner}, ns)
        acc = ns["acc"]
        anns = {}
        for n_, kd in zip(names, sig):
            anns[n_] = spec.annotation_type() if kd == "abi" else (pt.Expr if kd == "expr" else pt.ScratchVar)
        if job["flavor"] == "abiret":
            anns["output"] = AB.to_pyteal(et).annotation_type()
            acc.__annotations__ = anns
            sub = pt.ABIReturnSubroutine(acc)
        else:
            anns["return"] = pt.Expr
            acc.__annotations__ = anns
            sub = pt.Subroutine(pt.TealType.none)(acc)
        pre, actual, nabi = [], [], 0
        for kd in sig:
            if kd == "abi":
                v = spec.new_instance()
                pre.append(v.decode(A[0] if nabi == 0 else A[2]))
                nabi += 1
                actual.append(v)
            elif kd == "expr":
                actual.append(pt.Btoi(A[1]))
            else:
                sv = pt.ScratchVar(pt.TealType.uint64)
                pre.append(sv.store(pt.Btoi(A[1])))
                actual.append(sv)
        call = sub(*actual)
        if job["flavor"] == "abiret":
            call = call.use(lambda x: logv(x))
        return pt.Seq(*(pre + [call, pt.Approve()]))

    if kind == "multinamed":
        # classes: [{"names": [...], "ts": [...]}]; order: class numbers in instantiation order (repeats = throw-away
        # instances); access: [(class, field name, "use"|"store")]; argument c holds the encoding of class c's value
        classes = []
        for cd in job["classes"]:
            _mn_counter[0] += 1
            anns = {n: abi.Field[AB.to_pyteal(tj(t)).annotation_type()] for n, t in zip(cd["names"], cd["ts"])}
            classes.append(type("MN%d" % _mn_counter[0], (abi.NamedTuple,), {"__annotations__": anns}))
        ncls = len(classes)

        def routine(srcs):
            insts = {}
            for c in job["order"]:
                x = classes[c]()
                insts.setdefault(c, x)
            for c in range(ncls):
                insts.setdefault(c, classes[c]())
            seq = [insts[c].decode(srcs[c]) for c in range(ncls)]
            for (c, name, m) in job["access"]:
                seq.append(use_(getattr(insts[c], name), m))
            return pt.Seq(*seq)
        nargs = ncls
        srcs_main = [A[c] for c in range(ncls)]
    else:
        t = job["t"]
        spec = AB.to_pyteal(t)
        p0, p1 = job.get("pattern", ["use", "use"])
        hv = job["handle"]

        def routine(srcs):
            a, b = srcs
            v = spec.new_instance()
            e = v[job["i"]] if job["base"] == "tuple" else v[pt.Btoi(A[1])]
            if hv == "redecode":
                return pt.Seq(v.decode(a), use_(e, p0), v.decode(b), use_(e, p1))
            if hv == "branches":
                return pt.Seq(v.decode(a), pt.If(A[3] == pt.Bytes("x")).Then(use_(e, p0)).Else(use_(e, p1)))
            if hv == "loop":
                cnt = pt.ScratchVar(pt.TealType.uint64)
                return pt.Seq(v.decode(a), use_(e, p0),
                              pt.For(cnt.store(pt.Int(0)), cnt.load() < pt.Int(2), cnt.store(cnt.load() + pt.Int(1))).Do(pt.Seq(v.decode(b), use_(e, p1))))
            raise ValueError(hv)
        nargs = 2
        srcs_main = [A[0], A[2]]

    if backend == "scratch":
        return pt.Seq(routine(srcs_main), pt.Approve())
    names = ["a%d" % k for k in range(nargs)]

    def f(*args):
        return routine(list(args))
    # a function with nargs positional Expr parameters
    ns = {}
    exec("def acc(%s):\n    return _f(%s)" % (", ".join(names), ", ".join(names)), {"_f": f}, ns)
    acc = ns["acc"]
    acc.__annotations__ = dict({n: pt.Expr for n in names}, **{"return": pt.Expr})
    sub = pt.Subroutine(pt.TealType.none)(acc)
    return pt.Seq(sub(*srcs_main), pt.Approve())


def execute_special(pt, model, job):
    out = {"id": job.get("id"), "issues": [], "runs": 0, "in_ok": 0, "oob_fail": 0, "oob_known": {}, "bad_agree": 0, "compile": None, "samples": []}

    def go():
        be = job.get("backend", "scratch")
        opt = None if be == "scratch" else pt.OptimizeOptions(frame_pointers=(be != "subscratch"))
        return pt.compileTeal(build_special(pt, job), pt.Mode.Application, version=job["ver"], optimize=opt)
    r = call_real(go)
    if r[0] != "ok":
        out["compile"] = r[1]
        out["issues"].append({"kind": "crash" if r[1] not in PYTEAL_ERRORS else "semantic",
                              "why": "a valid access program is rejected / crashes at build or compile time: %s: %s" % (r[1], r[2][:200]), "run": job["runs"][0]})
        return out
    out["compile"] = "ok"
    teal = r[1]
    for run in job["runs"]:
        args = tuple(bytes.fromhex(h) for h in run["args"])
        ctx = (S("ctx"), (S("mode"), S("app")), (S("group"), ((S("fields"), ("NumAppArgs", len(args))), (S("arrays"), ("ApplicationArgs", args)))), (S("fuel"), 8000))
        res = model.ask((S("run"), ctx, teal))
        out["runs"] += 1
        if not isinstance(res, list) or not res or res[0] != S("ran") or not hasattr(res[1], "name") or res[1].name not in ("approve", "fail", "reject"):
            out["issues"].append({"kind": "avm", "why": "AVM run inconclusive: %r" % (res,)[:120], "run": run})
            continue
        verdict = res[1].name
        logs = [e[1] if isinstance(e[1], bytes) else (e[1].encode("latin-1") if isinstance(e[1], str) else b"") for e in res[3][1:] if e[0] == S("log")]
        real = [l_.hex() for l_ in logs] if verdict == "approve" else "fail"
        rec = {"run": run, "real": real, "teal": teal}
        if run["tag"] == "in":
            if real == run["expects"]:
                out["in_ok"] += 1
            else:
                out["issues"].append(dict(rec, kind="semantic", expect=run["expects"],
                                          why="the program logs %s, expected the components' reference encodings %s" % (real, run["expects"])))
        else:
            if real == "fail":
                out["oob_fail"] += 1
            else:
                out["issues"].append(dict(rec, kind="oob", cls=None, why="out-of-range index %s: the program logs %s instead of failing" % (run.get("idx"), real)))
    return out
