"""C09 — routed methods receive ARC-4 arguments and log ARC-4 results.

Parts (DESIGN §2.4):
  1. proofs          Props/C09.v (+ Proofs/RouterArgs*.v) about coq/Router/Args.v; Gen/Tables.v regenerated first
                     (METHOD_ARG_NUM_CUTOFF, RETURN_HASH_PREFIX are read from /repo on every run)
  2. spec validation the ARC-4 client of the harness (c09_client.py, written from the ARC-4 text) against
                     algosdk's AtomicTransactionComposer and against the extracted Coq `client_encode`;
                     reference encodings: algosdk == harness encoder == Coq arc4_encode   (disagreement = exit 2)
  3. correspondence  plan: Coq `binding_plan` (model of router.py's loop) == placement chosen by the independent
                     client, and — by behaviour — the REAL router's parameter p observes exactly the content of that
                     placement (parameters log what they hold) — scratch and frame-pointer glue, versions 6..10;
                     Coq `eval_all member_bytes` and `decode_steps` of both flavours evaluated on the client's call
                     yield the reference encodings (validates the element access the theorem takes as hypothesis)
  4. semantic oracle real Router -> compile_program -> approval TEAL executed on the extracted AVM as a member of a
                     transaction group built by the independent client: approve; parameter logs; wrong transaction
                     type fails; return logged once, last, as 151f7c75 ++ encoding; void logs nothing more
  5. contract        abi_contract methods == registered methods; selectors of the contract == selectors the
                     approval program compares ApplicationArgs[0] with
  6. failing-input search (shrinking) on a break; known findings; --replay
"""
import json
import os
import sys
import time

from common import *  # noqa
import c19_abi as A
import c09_client as CL

ensure_env()

CORPUS = os.path.join(VERIF, "harness", "corpus", "c09.json")
PROOF_FILES = ["Proofs/RouterArgsLists.v", "Proofs/RouterArgsProof.v", "Proofs/RouterArgsGlue.v", "Proofs/RouterArgsCells.v"]
APP_ID = 77
SENDER = bytes(range(1, 33))

# ---------------------------------------------------------------------------------------------
# json <-> python (types are nested tuples, values contain bytes)
# ---------------------------------------------------------------------------------------------
def jd(x):
    if isinstance(x, (bytes, bytearray)):
        return {"$b": bytes(x).hex()}
    if isinstance(x, tuple):
        return {"$t": [jd(e) for e in x]}
    if isinstance(x, list):
        return [jd(e) for e in x]
    if isinstance(x, dict):
        return {k: jd(v) for k, v in x.items()}
    return x


def jl(x):
    if isinstance(x, dict):
        if "$b" in x and len(x) == 1:
            return bytes.fromhex(x["$b"])
        if "$t" in x and len(x) == 1:
            return tuple(jl(e) for e in x["$t"])
        return {k: jl(v) for k, v in x.items()}
    if isinstance(x, list):
        return [jl(e) for e in x]
    return x


# ---------------------------------------------------------------------------------------------
# generation
# ---------------------------------------------------------------------------------------------
PLAIN_LEAVES = ["bool", "byte", ("uint", 8), ("uint", 16), ("uint", 32), ("uint", 64), "address", "string", "dynbytes",
                ("sbytes", 32), ("sbytes", 3), ("sbytes", 0)]
TXN_TYPES = [("txn", k) for k in A.TXN_KINDS]
REF_TYPES = [("ref", k) for k in A.REF_KINDS]


def gen_plain(rng, d):
    """plain ABI type the real API can annotate (tuples of at most 5 members)"""
    if d == 0 or rng.random() < 0.45:
        return rng.choice(PLAIN_LEAVES)
    k = rng.random()
    if k < 0.25:
        return ("sarr", gen_plain(rng, d - 1), rng.choice([0, 1, 2, 3, 9]))
    if k < 0.5:
        return ("darr", gen_plain(rng, d - 1))
    w = rng.choice([0, 1, 2, 2, 3, 3, 4, 5])
    ts = tuple(gen_plain(rng, d - 1) for _ in range(w))
    if w and rng.random() < 0.2:
        return A.realistic_named(tuple("f%d" % i for i in range(w)), ts)
    return ("tuple",) + ts


def is_txn(t):
    return not isinstance(t, str) and t[0] == "txn"


def is_ref(t):
    return not isinstance(t, str) and t[0] == "ref"


# ---------------------------------------------------------------------------------------------
# AVM budgets.  An application call may log at most 32 entries / 1024 bytes in total and carry at most 2048 bytes of
# ApplicationArgs.  The method bodies built here LOG every parameter (that is how the binding is observed), so a call
# whose observations would not fit is not a valid experiment: the generator keeps every call inside these limits
# (types by their minimal encoding size, values by shrinking dynamic parts), and run_case skips (and counts) a call
# that is over budget instead of running it.
# ---------------------------------------------------------------------------------------------
LOG_BYTES_MAX = 1024
LOG_BYTES_TARGET = 960
LOG_COUNT_MAX = 32
APP_ARGS_BYTES_MAX = 2048
TYPE_MIN_MAX = 200          # largest minimal encoding of one parameter type
SIG_MIN_MAX = 700           # sum over a signature


def min_value(L):
    if L == "bool":
        return False
    h = L[0]
    if h == "uint":
        return 0
    if h == "arr":
        return bytes(L[2]) if L[1] == ("uint", 8) else [min_value(L[1]) for _ in range(L[2])]
    if h == "dyn":
        return b"" if L[1] == ("uint", 8) else []
    if h == "tup":
        return [min_value(x) for x in L[1:]]
    raise ValueError(L)


def min_size(t):
    """length of the shortest encoding of a plain type; observation size for transaction / reference parameters"""
    if is_txn(t):
        return 16 + 12
    if is_ref(t):
        return 40
    L = layout(t)
    return len(CL.enc(L, min_value(L)))


def shrink_value(L, v):
    """a strictly shorter-encoding value of the same type, or None"""
    if L == "bool" or L[0] == "uint":
        return None
    h = L[0]
    if h == "dyn":
        if len(v) > 0:
            w = v[: len(v) // 2]
            if isinstance(w, (bytes, bytearray)):
                # byte strings stay valid UTF-8 (the same value is also passed where the type says `string`)
                while w:
                    try:
                        w.decode("utf-8")
                        break
                    except UnicodeDecodeError:
                        w = w[:-1]
            return w
        return None
    if h in ("arr", "tup"):
        if isinstance(v, (bytes, bytearray)):
            return None
        Ls = [L[1]] * L[2] if h == "arr" else list(L[1:])
        best, bi = None, None
        for i, (Li, vi) in enumerate(zip(Ls, v)):
            sv = shrink_value(Li, vi)
            if sv is not None:
                gain = len(CL.enc(Li, vi)) - len(CL.enc(Li, sv))
                if best is None or gain > best[0]:
                    best, bi = (gain, sv), i
        if best is None:
            return None
        out = list(v)
        out[bi] = best[1]
        return out
    return None


def observation_sizes(m, args):
    """bytes every log entry of the method body takes for this call (marker, parameters, return)"""
    out = [8]
    for t, a in zip(m["params"], args):
        if is_txn(t):
            out.append(16 + len(a["note"]))
        elif is_ref(t):
            out.append(40 if t[1] == "account" else 16)
        else:
            out.append(len(CL.enc(layout(t), a)))
    if m["ret"] is not None:
        if m["mode"].startswith("param:"):
            out.append(4 + out[1 + int(m["mode"][6:])])
        elif m["mode"] == "lit":
            out.append(4 + len(CL.enc(layout(m["ret"]), m["lit"])))
        else:
            out.append(12)
    return out


def app_args_size(m, args):
    return 4 + sum(1 if is_ref(t) else len(CL.enc(layout(t), a)) for t, a in zip(m["params"], args) if not is_txn(t))


def within_budget(m, args):
    sz = observation_sizes(m, args)
    return len(sz) <= LOG_COUNT_MAX and sum(sz) <= LOG_BYTES_MAX and app_args_size(m, args) + 64 <= APP_ARGS_BYTES_MAX


def fit_call(m, args):
    """shrink dynamic parts of the largest plain arguments (and of a literal result) until the call's observations fit"""
    args = list(args)
    for _ in range(400):
        sz = observation_sizes(m, args)
        if sum(sz) <= LOG_BYTES_TARGET:
            break
        cands = sorted(((sz[1 + i], i) for i, t in enumerate(m["params"]) if not is_txn(t) and not is_ref(t)), reverse=True)
        done = False
        for _size, i in cands:
            sv = shrink_value(layout(m["params"][i]), args[i])
            if sv is not None:
                args[i] = sv
                done = True
                break
        if not done and m["ret"] is not None and m["mode"] == "lit":
            sv = shrink_value(layout(m["ret"]), m["lit"])
            if sv is not None:
                m["lit"] = sv
                done = True
        if not done:
            break
    return args


def gen_params(rng, profile):
    if profile == "small":
        n = rng.randrange(0, 6)
        w = (0.6, 0.2, 0.2)
    elif profile == "cutoff":
        n = rng.randrange(13, 23)
        w = (0.8, 0.1, 0.1)
    elif profile == "txnheavy":
        n = rng.randrange(2, 16)
        w = (0.3, 0.55, 0.15)
    elif profile == "refheavy":
        n = rng.randrange(2, 23)
        w = (0.4, 0.1, 0.5)
    else:
        n = rng.randrange(0, 23)
        w = (0.65, 0.15, 0.2)
    out = []
    ntx = 0
    for _ in range(n):
        r = rng.random()
        if r < w[1] and ntx < 13:
            out.append(rng.choice(TXN_TYPES))
            ntx += 1
        elif r < w[1] + w[2]:
            out.append(rng.choice(REF_TYPES))
        else:
            t = gen_plain(rng, rng.choice([0, 0, 1, 1, 2]))
            for _try in range(20):
                if min_size(t) <= TYPE_MIN_MAX:
                    break
                t = gen_plain(rng, rng.choice([0, 0, 1]))
            else:
                t = ("uint", 64)
            out.append(t)
    # keep the minimal observation size of the whole signature inside the log budget: replace the largest plain types
    while sum(min_size(t) for t in out) > SIG_MIN_MAX:
        i = max((i for i, t in enumerate(out) if not is_txn(t) and not is_ref(t)), key=lambda i: min_size(out[i]), default=None)
        if i is None or min_size(out[i]) <= 8:
            out.pop()
            continue
        out[i] = rng.choice([("uint", 64), "bool", ("uint", 16), "string"])
    return out


def gen_ret(rng, params):
    """(type | None, mode)"""
    plain = [i for i, t in enumerate(params) if not is_txn(t) and not is_ref(t)]
    r = rng.random()
    if r < 0.25:
        return None, "void"
    if r < 0.5 and plain:
        k = rng.choice(plain)
        if 2 * min_size(params[k]) + sum(min_size(t) for t in params) <= SIG_MIN_MAX + 100:
            return params[k], "param:%d" % k
        return ("uint", 64), "sum"
    if r < 0.7:
        return ("uint", 64), "sum"
    t = gen_plain(rng, rng.choice([0, 1, 2]))
    for _try in range(20):
        if min_size(t) <= 120:
            break
        t = gen_plain(rng, rng.choice([0, 1]))
    else:
        t = "string"
    return t, "lit"


def layout(t):
    return A.parse_type_str(A.arc4_str(t))


def regname(m):
    """the name a method is registered (and dispatched) under: overriding_name of add_method_handler, else its own"""
    return m.get("regname") or m["name"]


def gen_txn(rng, kind, tag):
    ty = CL.TYPE_ENUM[kind] if kind != "any" else rng.randrange(1, 7)
    return {"type": ty, "note": b"T%d-" % tag + bytes(rng.randrange(256) for _ in range(rng.choice([0, 3, 8])))}


def gen_args(rng, params, tagbase=0):
    args = []
    pool_acct = [SENDER] + [bytes([0xA0 + i]) * 32 for i in range(4)]
    pool_asset = [5, 6, 7, 1 << 40]
    pool_app = [APP_ID, 78, 79, 1 << 33]
    for i, t in enumerate(params):
        if is_txn(t):
            args.append(gen_txn(rng, t[1], tagbase + i))
        elif is_ref(t):
            if t[1] == "account":
                args.append(rng.choice(pool_acct))
            elif t[1] == "asset":
                args.append(rng.choice(pool_asset))
            else:
                args.append(rng.choice(pool_app))
        else:
            args.append(A.gen_value(layout(t), rng, text=True, maxlen=3))
    return args


def gen_case(rng, profile, nmethods=None, ncalls=2):
    nm = nmethods or rng.choice([1, 1, 1, 2, 3])
    methods = []
    for k in range(nm):
        params = gen_params(rng, profile if k == 0 else "small")
        rt, mode = gen_ret(rng, params)
        m = {"name": "m%d" % k, "params": params, "ret": rt, "mode": mode}
        if rng.random() < 0.12:
            m["regname"] = "ov_%d" % k
        if mode == "lit":
            m["lit"] = A.gen_value(layout(rt), rng, text=True, maxlen=3)
        methods.append(m)
    case = {"methods": methods, "target": 0, "calls": []}
    for c in range(ncalls):
        call = {"args": fit_call(methods[0], gen_args(rng, methods[0]["params"], tagbase=100 * c)),
                "before": [gen_txn(rng, "any", 900 + j) for j in range(rng.choice([0, 0, 1, 2]))],
                "after": [gen_txn(rng, "any", 950 + j) for j in range(rng.choice([0, 0, 0, 1]))]}
        ntx = sum(1 for t in methods[0]["params"] if is_txn(t))
        while len(call["before"]) + ntx + 1 + len(call["after"]) > 16:
            (call["after"] or call["before"]).pop()
        case["calls"].append(call)
    return case


def boundary_cases(rng, thorough):
    """deterministic family around the cut-off: n plain parameters, with transaction / reference parameters
    interleaved (they must not / must count toward the 15)"""
    out = []
    simple = [("uint", 64), "bool", "string", ("uint", 8), "address", ("tuple", ("uint", 16), "bool"), ("darr", ("uint", 32))]
    for n in range(0, 20):
        for variant in range(5 if thorough or 14 <= n <= 17 else 2):
            params = [simple[(i * (variant + 1) + variant) % len(simple)] if variant else ("uint", 64) for i in range(n)]
            if variant == 2:
                # transaction parameters in front, middle, end: do not count
                params = [("txn", "pay")] + params[: n // 2] + [("txn", "any"), ("txn", "axfer")] + params[n // 2:] + [("txn", "appl")]
            if variant == 3:
                # reference parameters count: replace every third one
                params = [REF_TYPES[(i // 3) % 3] if i % 3 == 2 else t for i, t in enumerate(params)]
            if variant == 4:
                params = [t for i, t in enumerate(params)]
                params.insert(min(len(params), 14), ("txn", "keyreg"))
                params.insert(min(len(params), 3), ("ref", "account"))
                params = params[:max(0, len(params) - 1)]
            rt, mode = (None, "void") if (n + variant) % 3 == 0 else ((("uint", 64), "sum") if (n + variant) % 3 == 1 else (("string", "lit")))
            m = {"name": "b%d_%d" % (n, variant), "params": params, "ret": rt, "mode": mode}
            if mode == "lit":
                m["lit"] = b"r%d" % n
            case = {"methods": [m], "target": 0, "calls": []}
            for c in range(2):
                case["calls"].append({"args": fit_call(m, gen_args(rng, params, 100 * c)), "before": [gen_txn(rng, "any", 900)] if c else [], "after": []})
            out.append(case)
    return out


# ---------------------------------------------------------------------------------------------
# reference encodings (algosdk), checked against the harness encoder and the Coq spec
# ---------------------------------------------------------------------------------------------
def ref_encode(t, v):
    a = A.to_sdk(t)
    r = A.sdk_encode(a, v)
    if r[0] != "ok":
        raise ValueError("reference codec rejects %r : %r" % (v, t))
    return r[1]


# ---------------------------------------------------------------------------------------------
# the real router
# ---------------------------------------------------------------------------------------------
def build_router(pt, methods):
    from pyteal import abi
    router = pt.Router("c09")
    subs = []
    for mi, m in enumerate(methods):
        params, rt, mode = m["params"], m["ret"], m["mode"]
        lit = ref_encode(rt, m["lit"]) if mode == "lit" else None

        def body(ps, output, params=params, mode=mode, lit=lit, mi=mi):
            steps = [pt.Log(pt.Bytes(b"method-%d" % mi))]
            lens = []
            for p, t in zip(ps, params):
                if is_txn(t):
                    steps.append(pt.Log(pt.Concat(pt.Itob(p.index()), pt.Itob(p.get().type_enum()), p.get().note())))
                elif is_ref(t):
                    if t[1] == "account":
                        steps.append(pt.Log(pt.Concat(pt.Itob(p.referenced_index()), p.address())))
                    elif t[1] == "asset":
                        steps.append(pt.Log(pt.Concat(pt.Itob(p.referenced_index()), pt.Itob(p.asset_id()))))
                    else:
                        steps.append(pt.Log(pt.Concat(pt.Itob(p.referenced_index()), pt.Itob(p.application_id()))))
                else:
                    steps.append(pt.Log(p.encode()))
                    lens.append(pt.Len(p.encode()))
            if output is not None:
                if mode.startswith("param:"):
                    steps.append(output.decode(ps[int(mode[6:])].encode()))
                elif mode == "lit":
                    steps.append(output.decode(pt.Bytes(lit)))
                else:
                    acc = pt.Int(7)
                    for l in lens:
                        acc = acc + l
                    steps.append(output.set(acc))
            return pt.Seq(*steps)

        g = {"__body": body}
        parts = []
        for i, t in enumerate(params):
            g["T%d" % i] = A.to_pyteal(t).annotation_type()
            parts.append("p%d: T%d" % (i, i))
        if rt is not None:
            g["R"] = A.to_pyteal(rt).annotation_type()
            parts.append("*, output: R")
        src = "def %s(%s):\n    return __body([%s], %s)\n" % (
            m["name"], ", ".join(parts), ", ".join("p%d" % i for i in range(len(params))), "output" if rt is not None else "None")
        exec(src, g)
        sub = pt.ABIReturnSubroutine(g[m["name"]])
        if m.get("regname"):
            router.add_method_handler(sub, overriding_name=m["regname"])
        else:
            router.add_method_handler(sub)
        subs.append(sub)
    return router, subs


def compile_router(pt, router, version, fp, ss, asm):
    opt = None
    if fp is not None or ss is not None:
        opt = pt.OptimizeOptions(frame_pointers=fp, scratch_slots=ss)
    return router.compile_program(version=version, assemble_constants=asm, optimize=opt)


def teal_selectors(teal):
    """the constants ApplicationArgs[0] is compared with: [(selector bytes, signature or None)]"""
    import re
    lines = [l.strip() for l in teal.split("\n")]
    block = []
    for l in lines:
        if l.startswith("bytecblock"):
            block = [bytes.fromhex(x[2:]) for x in l.split("//")[0].split()[1:]]
    out = []
    for i, l in enumerate(lines):
        if l == "txna ApplicationArgs 0" and i + 2 < len(lines) and lines[i + 2].split("//")[0].strip() == "==":
            c = lines[i + 1]
            m = re.match(r'method "(.*)"$', c)
            if m:
                out.append((CL.selector(m.group(1)), m.group(1)))
                continue
            m = re.match(r"(?:pushbytes|byte) 0x([0-9a-fA-F]*)", c)
            if m:
                out.append((bytes.fromhex(m.group(1)), None))
                continue
            m = re.match(r"bytec(?:_| )(\d+)", c)
            if m and int(m.group(1)) < len(block):
                out.append((block[int(m.group(1))], None))
                continue
            out.append((None, c))
    return out


def method_lines(teal):
    import re
    return sorted(set(re.findall(r'^method "(.*)"$', teal, re.M)))


# ---------------------------------------------------------------------------------------------
# AVM context
# ---------------------------------------------------------------------------------------------
def txn_sx(t, gi):
    return ((S("fields"), ("TypeEnum", t["type"]), ("Note", t["note"]), ("GroupIndex", gi), ("Sender", bytes([0xEE]) * 32),
             ("Fee", 1000), ("Amount", 0), ("OnCompletion", 0), ("ApplicationID", 0), ("NumAppArgs", 0)), (S("arrays"),))


def call_ctx(call, before, after, msel, app_args=None):
    group = []
    for t in before + call.txns:
        group.append(txn_sx(t, len(group)))
    gi = len(group)
    aa = call.app_args if app_args is None else app_args
    me = ((S("fields"), ("TypeEnum", 6), ("OnCompletion", 0), ("ApplicationID", APP_ID), ("NumAppArgs", len(aa)), ("GroupIndex", gi),
           ("Sender", SENDER), ("Note", b"call"), ("Fee", 1000), ("NumAccounts", len(call.accounts)), ("NumAssets", len(call.assets)),
           ("NumApplications", len(call.apps))),
          (S("arrays"), ("ApplicationArgs", tuple(aa)), ("Accounts", tuple([SENDER] + call.accounts)),
           ("Assets", tuple(call.assets)), ("Applications", tuple([APP_ID] + call.apps))))
    group.append(me)
    for t in after:
        group.append(txn_sx(t, len(group)))
    return (S("ctx"), (S("mode"), S("app")), (S("gi"), gi), (S("app-id"), APP_ID), (S("group"),) + tuple(group),
            (S("globals"), ("GroupSize", len(group)), ("CurrentApplicationID", APP_ID), ("ZeroAddress", bytes(32))),
            (S("msel"),) + tuple(msel), (S("fuel"), 60000)), gi


def logs_of(res):
    if not isinstance(res, list) or not res or res[0] != S("ran"):
        return "bad-response", None
    v = res[1]
    if isinstance(v, list):
        return "unsup:" + str(v[1]), None
    return v.name, [e[1] for e in res[3][1:] if e[0] == S("log")]


def itob(n):
    return n.to_bytes(8, "big")


def expected_logs(m, mi, call, args, before):
    """what the real method must log for this call, from the ARC-4 text and the reference codec"""
    out = [b"method-%d" % mi]
    total = 7
    ntx = sum(1 for t in m["params"] if is_txn(t))
    rank = 0
    for t, a in zip(m["params"], args):
        if is_txn(t):
            out.append(itob(len(before) + rank) + itob(a["type"]) + a["note"])
            rank += 1
        elif is_ref(t):
            if t[1] == "account":
                idx = 0 if a == SENDER else call.accounts.index(a) + 1
                out.append(itob(idx) + a)
            elif t[1] == "asset":
                out.append(itob(call.assets.index(a)) + itob(a))
            else:
                idx = 0 if a == APP_ID else call.apps.index(a) + 1
                out.append(itob(idx) + itob(a))
        else:
            e = ref_encode(t, a)
            out.append(e)
            total += len(e)
    if m["ret"] is not None:
        if m["mode"].startswith("param:"):
            k = int(m["mode"][6:])
            r = ref_encode(m["ret"], args[k])
        elif m["mode"] == "lit":
            r = ref_encode(m["ret"], m["lit"])
        else:
            r = itob(total)
        out.append(CL.RETURN_PREFIX + r)
    assert rank == ntx
    return out


# ---------------------------------------------------------------------------------------------
# wire to the Coq model
# ---------------------------------------------------------------------------------------------
def carg_sx(t, a):
    if is_txn(t):
        return (S("txn"), a["type"], a["note"])
    if is_ref(t):
        return ((S("account"), a) if t[1] == "account" else (S("asset"), a) if t[1] == "asset" else (S("app"), a))
    return (S("val"), A.val_sx(a))


def model_call_args(sel, params, args):
    return (sel, SENDER, APP_ID, tuple(A.ty_sx(t) for t in params), tuple(carg_sx(t, a) for t, a in zip(params, args)))


def plan_from_wire(r):
    """(plan (tupled ..) B ...) -> [('arg', i) | ('member', slot, j) | ('txn', back)], kinds"""
    out = []
    for b in r[2:]:
        h = b[0].name
        if h == "txn":
            out.append(("txn", b[1]))
        else:
            s = b[1]
            out.append(("arg", s[1]) if s[0].name == "arg" else ("member", s[1], s[2]))
    return out


def expected_bounds(m, call, args, before):
    """what every parameter is bound to, per the ARC-4 text (same shape as the model's (bounds ...))"""
    out = []
    rank = 0
    for t, a in zip(m["params"], args):
        if is_txn(t):
            out.append(("txn", len(before) + rank, a["type"], a["note"]))
            rank += 1
        elif is_ref(t):
            if t[1] == "account":
                idx = 0 if a == SENDER else call.accounts.index(a) + 1
            elif t[1] == "asset":
                idx = call.assets.index(a)
            else:
                idx = 0 if a == APP_ID else call.apps.index(a) + 1
            out.append(("index", t[1], idx))
        else:
            out.append(("bytes", ref_encode(t, a)))
    return out


def bounds_from_wire(r):
    if not isinstance(r, list) or r[0] != S("bounds"):
        return None
    out = []
    for b in r[1:]:
        h = b[0].name
        if h == "bytes":
            out.append(("bytes", b[1]))
        elif h == "index":
            out.append(("index", b[1].name, b[2]))
        else:
            out.append(("txn", b[1], b[2], b[3]))
    return out


# ---------------------------------------------------------------------------------------------
# algosdk composer as a second opinion on the client
# ---------------------------------------------------------------------------------------------
_sdk = {}


def atc_call(sig, arg_strs, params, args):
    """-> (app_args, accounts(bytes), assets, apps, [txn type strings]) from AtomicTransactionComposer, or None"""
    from algosdk import abi as sabi, transaction as T, encoding as E
    from algosdk.atomic_transaction_composer import AtomicTransactionComposer, TransactionSigner, TransactionWithSigner
    if "sp" not in _sdk:
        class NoSigner(TransactionSigner):
            def sign_transactions(self, txn_group, indexes):
                raise RuntimeError("offline")
        _sdk["signer"] = NoSigner()
        _sdk["sp"] = T.SuggestedParams(fee=1000, first=1, last=100, gh="SGO1GKSzyE7IEPItTxCByw9x8FmnrCDexi9/cOUJOiI=", flat_fee=True)
    sp, signer = _sdk["sp"], _sdk["signer"]
    sender = E.encode_address(SENDER)
    other = E.encode_address(bytes([0xEE]) * 32)
    method = sabi.Method.from_signature(sig)
    margs = []
    for t, a in zip(params, args):
        if is_txn(t):
            ty, note = a["type"], a["note"]
            if ty == 1:
                x = T.PaymentTxn(other, sp, other, 0, note=note)
            elif ty == 2:
                x = T.KeyregNonparticipatingTxn(other, sp, note=note)
            elif ty == 3:
                x = T.AssetDestroyTxn(other, sp, 9, note=note)
            elif ty == 4:
                x = T.AssetTransferTxn(other, sp, other, 0, 9, note=note)
            elif ty == 5:
                x = T.AssetFreezeTxn(other, sp, 9, other, True, note=note)
            else:
                x = T.ApplicationNoOpTxn(other, sp, 99, note=note)
            margs.append(TransactionWithSigner(x, signer))
        elif is_ref(t):
            margs.append(E.encode_address(a) if t[1] == "account" else a)
        else:
            margs.append(A.sdk_value(A.to_sdk(t), a))
    atc = AtomicTransactionComposer()
    atc.add_method_call(APP_ID, method, sender, sp, signer, method_args=margs)
    grp = atc.txn_list
    me = grp[-1].txn
    return ([bytes(x) for x in me.app_args], [E.decode_address(x) for x in (me.accounts or [])], list(me.foreign_assets or []),
            list(me.foreign_apps or []), [(CL.TYPE_ENUM[g.txn.type], g.txn.note) for g in grp[:-1]])


# ---------------------------------------------------------------------------------------------
# one case: everything that does not depend on the compiled program, then every (version, flavour)
# ---------------------------------------------------------------------------------------------
_model = None


def model():
    global _model
    if _model is None:
        _model = Model("c09")
    return _model


def static_checks(case, out):
    """client vs ATC vs Coq client; Coq plan vs placement; Coq bind / glue vs expected bounds; signature strings"""
    mdl = model()
    m = case["methods"][case["target"]]
    params = m["params"]
    arg_strs = [A.arc4_str(t) for t in params]
    ret_str = "void" if m["ret"] is None else A.arc4_str(m["ret"])
    calls = []
    # signature strings
    r = mdl.ask((S("sigstr"), m["name"], regname(m), tuple(A.ty_sx(t) for t in params), S("void") if m["ret"] is None else A.ty_sx(m["ret"])))
    sig = CL.signature(regname(m), arg_strs, ret_str)
    if r[0] != S("sig") or r[1] != sig or r[2] != sig:
        out["model"].append("Coq signature strings %r differ from the ARC-4 signature %r" % (r, sig))
    out["model_contract_sig"] = r[3]
    plan = mdl.ask((S("plan"), tuple(A.ty_sx(t) for t in params)))
    plan_l = plan_from_wire(plan)
    out["plan"] = plan_l
    for call in case["calls"]:
        args = call["args"]
        c = CL.client_call(regname(m), arg_strs, ret_str, args, SENDER, APP_ID)
        calls.append(c)
        out["n"]["client"] += 1
        # (2) spec validation: encodings three ways
        for (L, v), t_a in zip(c.wire, [(t, a) for t, a in zip(params, args) if not is_txn(t)]):
            t, a = t_a
            if is_ref(t):
                continue
            mine = CL.enc(L, v)
            ref = ref_encode(t, a)
            cq = mdl.ask((S("encode"), A.ty_sx(t), A.val_sx(a)))
            out["n"]["encodings"] += 1
            if mine != ref or cq[0] != S("some") or cq[1] != ref:
                out["model"].append("encoding of %r : %s differs: harness %s, algosdk %s, Coq %r" % (a, A.arc4_str(t), mine.hex(), ref.hex(), cq))
        # (2) client vs ATC
        try:
            atc = atc_call(c.sig, arg_strs, params, args)
        except Exception as e:  # noqa
            atc = ("atc-exc", type(e).__name__, str(e)[:200])
        mine5 = (c.app_args, c.accounts, c.assets, c.apps, [(t["type"], t["note"]) for t in c.txns])
        if atc[0] == "atc-exc":
            out["n"]["atc_unusable"] += 1
            out["notes"].append("ATC unusable: %s %s" % (atc[1], atc[2]))
        else:
            out["n"]["atc"] += 1
            if tuple(atc) != tuple(mine5):
                out["model"].append("harness client differs from algosdk AtomicTransactionComposer for %s: %r vs %r" % (c.sig, mine5, atc))
        # (2) client vs Coq client_encode
        r = mdl.ask((S("client"),) + model_call_args(c.app_args[0], params, args))
        if r[0] != S("call"):
            out["model"].append("Coq client_encode rejects a call the harness client builds: %s %r" % (c.sig, r))
        else:
            cq = ([x for x in r[1][1:]], [x for x in r[2][1:]], [x for x in r[3][1:]], [x for x in r[4][1:]], [(x[0], x[1]) for x in r[5][1:]])
            if tuple(cq) != tuple(mine5):
                out["model"].append("Coq client_encode differs from the harness client for %s: %r vs %r" % (c.sig, cq, mine5))
        # (3) plan == placement
        if plan_l != c.placement:
            out["plan_mismatch"].append({"sig": c.sig, "model_plan": plan_l, "client_placement": c.placement})
        # (3) Coq evaluation of the plan / of the glue steps on the client's call
        exp = expected_bounds(m, c, args, call["before"])
        before_sx = tuple((t["type"], t["note"]) for t in call["before"])
        r = bounds_from_wire(mdl.ask((S("bind"),) + model_call_args(c.app_args[0], params, args) + (before_sx,)))
        out["n"]["model_bind"] += 1
        if r != exp:
            out["bind_mismatch"].append({"sig": c.sig, "what": "eval_all member_bytes (binding_plan)", "model": repr(r), "expected": repr(exp)})
        for fl in ("scratch", "fp"):
            r = bounds_from_wire(mdl.ask((S("glue"), S(fl), S("void") if m["ret"] is None else A.ty_sx(m["ret"])) +
                                         model_call_args(c.app_args[0], params, args) + (before_sx,)))
            if r != exp:
                out["bind_mismatch"].append({"sig": c.sig, "what": "decode_steps " + fl, "model": repr(r), "expected": repr(exp)})
    return calls


def new_out():
    return {"model": [], "plan_mismatch": [], "bind_mismatch": [], "fail": [], "contract": [], "contract_corr": [], "notes": [], "unsup": {},
            "n": {"client": 0, "encodings": 0, "atc": 0, "atc_unusable": 0, "model_bind": 0, "compiles": 0, "runs": 0, "neg_runs": 0,
                  "contract": 0, "approve": 0, "inconclusive": 0, "reg_rejects": 0, "over_avm_budget": 0},
            "plan": None}


def run_case(case, combos, do_static=True):
    """-> result dict (picklable).  combos: [(version, fp, ss, asm)]"""
    import pyteal as pt
    out = new_out()
    mdl = model()
    methods = case["methods"]
    mi = case["target"]
    m = methods[mi]
    if do_static:
        calls = static_checks(case, out)
    else:
        arg_strs = [A.arc4_str(t) for t in m["params"]]
        calls = [CL.client_call(regname(m), arg_strs, "void" if m["ret"] is None else A.arc4_str(m["ret"]), c["args"], SENDER, APP_ID) for c in case["calls"]]
    r = call_real(build_router, pt, methods)
    if r[0] != "ok":
        out["fail"].append({"kind": "registration", "what": "the router rejects the method(s): %s %s" % (r[1], r[2])})
        return out
    router, subs = r[1]
    for (version, fp, ss, asm) in combos:
        r = call_real(compile_router, pt, router, version, fp, ss, asm)
        out["n"]["compiles"] += 1
        if r[0] != "ok":
            out["fail"].append({"kind": "compile", "version": version, "fp": fp, "ss": ss, "asm": asm, "what": "compile_program raised %s: %s" % (r[1], r[2])})
            continue
        teal, _clear, contract = r[1]
        flav = "fp" if ("proto 0 0" in teal) else "scratch"
        # ---- (5) contract ----
        out["n"]["contract"] += 1
        tstr = lambda x: ([A.arc4_str(t) for t in x["params"]], "void" if x["ret"] is None else A.arc4_str(x["ret"]))
        reg = [(regname(x),) + tstr(x) for x in methods]            # what was registered: the property speaks about these
        got = [(cm.name, [str(a.type) for a in cm.args], str(cm.returns.type)) for cm in contract.methods]
        csel = sorted(cm.get_selector() for cm in contract.methods)
        mysel = sorted(CL.selector(CL.signature(*x)) for x in reg)
        tsel = teal_selectors(teal)
        teal_ok = sorted(s for s, _ in tsel if s is not None) == mysel and not any(s is None for s, _ in tsel) and \
            (asm or method_lines(teal) == sorted(CL.signature(*x) for x in reg))
        if do_static and out.get("model_contract_sig") is not None and contract.methods[mi].get_signature() != out["model_contract_sig"]:
            out["contract_corr"].append({"version": version, "real": contract.methods[mi].get_signature(), "model": out["model_contract_sig"]})
        if got != reg or csel != mysel or not teal_ok:
            detail = {"version": version, "asm": asm, "contract": got, "registered": reg, "contract_selectors": [s.hex() for s in csel],
                      "registered_selectors": [s.hex() for s in mysel], "teal": [(s.hex() if s else None, g) for s, g in tsel]}
            bad_names = [(g, r_) for g, r_ in zip(got, reg) if g != r_]
            if bad_names and teal_ok:
                detail["what"] = "contract lists %r for the method registered (and dispatched) as %r" % (CL.signature(*bad_names[0][0]), CL.signature(*bad_names[0][1]))
            else:
                detail["what"] = "contract description disagrees with the registered methods / dispatched selectors"
            # a client that follows the contract: is its selector dispatched?
            if mi < len(contract.methods) and calls and contract.methods[mi].get_selector() != calls[0].app_args[0]:
                c0 = calls[0]
                aa = [contract.methods[mi].get_selector()] + c0.app_args[1:]
                ctx0, _ = call_ctx(c0, case["calls"][0]["before"], case["calls"][0]["after"], [(s_, CL.selector(s_)) for s_ in method_lines(teal)], app_args=aa)
                v0, _l0 = logs_of(mdl.ask((S("run"), ctx0, teal)))
                detail["contract_client_verdict"] = v0
                detail["what"] += "; a client using the contract's selector %s gets verdict %r" % (contract.methods[mi].get_selector().hex(), v0)
            out["contract"].append(detail)
        msel = [(s, CL.selector(s)) for s in method_lines(teal)]
        # ---- (4) behaviour ----
        for ci, (c, call) in enumerate(zip(calls, case["calls"])):
            if not within_budget(m, call["args"]):
                # not a valid experiment: logging every parameter would exceed the AVM's log / argument budget
                out["n"]["over_avm_budget"] += 1
                continue
            ctx, gi = call_ctx(c, call["before"], call["after"], msel)
            res = mdl.ask((S("run"), ctx, teal))
            verdict, logs = logs_of(res)
            out["n"]["runs"] += 1
            exp = expected_logs(m, mi, c, call["args"], call["before"])
            if verdict.startswith("unsup") or verdict == "fuel" or verdict == "bad-response":
                out["n"]["inconclusive"] += 1
                out["unsup"][verdict] = out["unsup"].get(verdict, 0) + 1
                continue
            if verdict == "approve":
                out["n"]["approve"] += 1
            if verdict != "approve" or logs != exp:
                what = "call rejected/failed" if verdict != "approve" else describe_log_diff(m, logs, exp)
                out["fail"].append({"kind": "behaviour", "version": version, "fp": fp, "ss": ss, "asm": asm, "flavour": flav, "call": ci,
                                    "verdict": verdict, "what": what, "logs": [l.hex() for l in (logs or [])], "expected": [l.hex() for l in exp],
                                    "app_args": [a.hex() for a in c.app_args], "gi": gi})
                continue
            # negative: a transaction of the wrong type must make the call fail
            if ci == 0:
                tpos = [k for k, t in enumerate([t for t in m["params"] if is_txn(t)]) if [t for t in m["params"] if is_txn(t)][k][1] != "any"]
                if tpos:
                    k = tpos[(version + len(tpos)) % len(tpos)]
                    import copy
                    c2 = copy.copy(c)
                    c2.txns = [dict(x) for x in c.txns]
                    c2.txns[k]["type"] = c2.txns[k]["type"] % 6 + 1
                    ctx2, _ = call_ctx(c2, call["before"], call["after"], msel)
                    v2, l2 = logs_of(mdl.ask((S("run"), ctx2, teal)))
                    out["n"]["neg_runs"] += 1
                    if v2 != "fail":
                        out["fail"].append({"kind": "wrong-type-accepted", "version": version, "fp": fp, "ss": ss, "asm": asm, "flavour": flav, "call": ci,
                                            "verdict": v2, "what": "transaction parameter #%d (%s) accepted a transaction of type %d" % (
                                                k, [t for t in m["params"] if is_txn(t)][k][1], c2.txns[k]["type"])})
                # negative: fewer preceding transactions than transaction parameters (call too early in the group) must fail
                if c.txns and not call["before"]:
                    import copy as _copy
                    c3 = _copy.copy(c)
                    c3.txns = [dict(x) for x in c.txns[1:]]
                    ctx3, _ = call_ctx(c3, [], call["after"], msel)
                    v3, l3 = logs_of(mdl.ask((S("run"), ctx3, teal)))
                    out["n"]["neg_runs"] += 1
                    if v3 != "fail":
                        out["fail"].append({"kind": "missing-transaction-accepted", "version": version, "fp": fp, "ss": ss, "asm": asm, "flavour": flav, "call": ci,
                                            "verdict": v3, "what": "call with %d transaction parameters placed at group index %d was not rejected" % (len(c.txns), len(c.txns) - 1)})
    return out


def describe_log_diff(m, logs, exp):
    if len(logs) != len(exp):
        nret = sum(1 for l in logs if l.startswith(CL.RETURN_PREFIX))
        return "%d logs, expected %d (%d start with the return prefix)" % (len(logs), len(exp), nret)
    for i, (a, b) in enumerate(zip(logs, exp)):
        if a != b:
            if i == 0:
                return "wrong method ran"
            if i - 1 < len(m["params"]):
                return "parameter %d (%s) holds %s, the caller passed %s" % (i - 1, A.arc4_str(m["params"][i - 1]), a.hex()[:80], b.hex()[:80])
            return "return log is %s, expected %s" % (a.hex()[:80], b.hex()[:80])
    return "?"


# ---------------------------------------------------------------------------------------------
# registration-time rejections (malformed stream)
# ---------------------------------------------------------------------------------------------
def registration_checks(ck, rng):
    import pyteal as pt
    mdl = model()
    bad = 0
    n = 0
    hist_exc = {}
    cases = []
    for inner in TXN_TYPES[:3] + REF_TYPES[:2]:
        cases.append(([("tuple", ("uint", 64), inner)], None))
        cases.append(([("sarr", inner, 2)], None))
        cases.append(([("uint", 64)], ("tuple", inner)))
        cases.append(([("uint", 64)], inner))
    cases += [([("txn", "pay"), ("ref", "asset")], None), ([("tuple", ("uint", 8))], ("uint", 8))]
    for params, rt in cases:
        m = {"name": "r", "params": params, "ret": rt, "mode": "void" if rt is None else "lit", "lit": None}
        r = mdl.ask((S("sigstr"), "r", "r", tuple(A.ty_sx(t) for t in params), S("void") if rt is None else A.ty_sx(rt)))
        model_ok = r[4] == S("true")

        def reg():
            from pyteal import abi
            g = {"pt": pt}
            parts = []
            for i, t in enumerate(params):
                g["T%d" % i] = A.to_pyteal(t).annotation_type()
                parts.append("p%d: T%d" % (i, i))
            if rt is not None:
                g["R"] = A.to_pyteal(rt).annotation_type()
                parts.append("*, output: R")
            exec("def r(%s):\n    return pt.Seq()\n" % ", ".join(parts), g)
            router = pt.Router("x")
            router.add_method_handler(pt.ABIReturnSubroutine(g["r"]))
            return router.compile_program(version=8)
        rr = call_real(reg)
        real_ok = rr[0] == "ok"
        n += 1
        ck.count(("reg", repr(params), repr(rt)), nontrivial=not model_ok)
        if rr[0] == "exc":
            hist_exc[rr[1]] = hist_exc.get(rr[1], 0) + 1
        if real_ok != model_ok:
            bad += 0 if real_ok else 1      # "rejects what the model accepts" is a broken correspondence, the converse a failing input
            if real_ok:
                # a transaction / reference type nested in a value type has no ARC-4 calling convention: failing input
                ck.violation("router accepts a method with parameters %s returning %s although a transaction/reference type is nested in a value type" % (
                    [A.arc4_str(t) for t in params], rt and A.arc4_str(rt)),
                    {"kind": "registration", "params": jd(params), "ret": jd(rt), "real": rr[:2], "model": model_ok})
            else:
                ck.notes.append("registration: router rejects %s -> %s (%s) but the model accepts" % ([A.arc4_str(t) for t in params], rt and A.arc4_str(rt), rr[1]))
    ck.coverage["registration_cases"] = n
    ck.coverage["registration_rejections_by_exception"] = hist_exc
    return bad


# ---------------------------------------------------------------------------------------------
# registration SEQUENCES: the same ABIReturnSubroutine object registered several times (one router, several
# overriding names / descriptions) and in several routers built in one process.  Every contract entry must be a
# function of its own registration only, and building a later router must not change an earlier router's contract.
# ---------------------------------------------------------------------------------------------
SEQ_TYPES = [("uint", 64), "string", "bool", ("uint", 8), "address", ("tuple", ("uint", 16), "bool")]


def compile_text(cs, default_version=None):
    opt = ""
    if cs.get("fp") is not None or cs.get("ss") is not None:
        opt = ", optimize=OptimizeOptions(frame_pointers=%r, scratch_slots=%r)" % (cs.get("fp"), cs.get("ss"))
    return "compile_program(version=%s%s)" % (cs.get("version", default_version), opt)


def seq_text(seq):
    out = []
    for i, sb in enumerate(seq["subs"]):
        out.append("f%d = ABIReturnSubroutine(%s%s)" % (i, CL.signature(sb["name"], [A.arc4_str(t) for t in sb["params"]],
                                                                       "void" if sb["ret"] is None else A.arc4_str(sb["ret"])),
                                                     ", docstring %r" % sb["doc"] if sb.get("doc") else ""))
    for ri, regs in enumerate(seq["routers"]):
        for rg in regs:
            if "compile" in rg:
                out.append("R%d.%s" % (ri, compile_text(rg["compile"], "V")))
                continue
            kw = ""
            if rg.get("regname"):
                kw += ", overriding_name=%r" % rg["regname"]
            if rg.get("desc") is not None:
                kw += ", description=%r" % rg["desc"]
            if rg.get("fail") == "never":
                kw += ", method_config=MethodConfig()"
            target = "a plain Subroutine" if rg.get("fail") == "notabi" else "f%d" % rg["sub"]
            txt = "R%d.add_method_handler(%s%s)" % (ri, target, kw)
            if rg.get("fail"):
                txt = "try: %s  [must be rejected: %s]" % (txt, {"dup": "signature already registered", "never": "never executed",
                                                                 "notabi": "not an ABIReturnSubroutine", "collide": "selector collides with an earlier method"}[rg["fail"]])
            out.append(txt)
    return "; ".join(out) + "; every router: compile_program(version=V)"


def seq_expected(seq, rg):
    sb = seq["subs"][rg["sub"]]
    name = rg.get("regname") or sb["name"]
    args = [("p%d" % i, A.arc4_str(t)) for i, t in enumerate(sb["params"])]
    ret = "void" if sb["ret"] is None else A.arc4_str(sb["ret"])
    desc = rg["desc"] if rg.get("desc") is not None else (sb.get("doc") or None)
    sel = CL.selector(CL.signature(name, [t for _, t in args], ret))
    return (name, args, ret, desc, sel)


def contract_entries(contract):
    return [(cm.name, [(a.name, str(a.type)) for a in cm.args], str(cm.returns.type), (cm.desc or None), cm.get_selector()) for cm in contract.methods]


def seq_check(seq, version=8):
    """-> (failures [str], model_mismatches [str], n_checks)"""
    import pyteal as pt
    mdl = model()
    fails, corr = [], []
    n = 0
    subs = []
    for si, sb in enumerate(seq["subs"]):
        def body(ps, output, si=si):
            steps = [pt.Log(pt.Bytes(b"sub-%d" % si))]
            if output is not None:
                steps.append(output.decode(ps[0].encode()))
            return pt.Seq(*steps)
        g = {"__body": body}
        parts = []
        for i, t in enumerate(sb["params"]):
            g["T%d" % i] = A.to_pyteal(t).annotation_type()
            parts.append("p%d: T%d" % (i, i))
        if sb["ret"] is not None:
            g["R"] = A.to_pyteal(sb["ret"]).annotation_type()
            parts.append("*, output: R")
        doc = '    """%s"""\n' % sb["doc"] if sb.get("doc") else ""
        exec("def %s(%s):\n%s    return __body([%s], %s)\n" % (
            sb["name"], ", ".join(parts), doc, ", ".join("p%d" % i for i in range(len(sb["params"]))), "output" if sb["ret"] is not None else "None"), g)
        subs.append(pt.ABIReturnSubroutine(g[sb["name"]]))
    def entries_diff(ri, got, exp, when):
        if got == exp:
            return False
        k = next((i for i, (a_, b_) in enumerate(zip(got, exp)) if a_ != b_), min(len(got), len(exp)))
        g_, e_ = (got[k] if k < len(got) else None), (exp[k] if k < len(exp) else None)
        fails.append("contract of R%d, entry %d, %s: %s — registered: %s" % (
            ri, k, when, g_ and {"name": g_[0], "args": g_[1], "returns": g_[2], "desc": g_[3], "selector": g_[4].hex()},
            e_ and {"name": e_[0], "args": e_[1], "returns": e_[2], "desc": e_[3], "selector": e_[4].hex()}))
        return True

    def state_check(ri, teal, contract, regs_ok, when):
        """after a compile: the contract lists the registrations so far, THIS approval program dispatches exactly on their selectors,
        and a client that follows contract entry k reaches the subroutine registered k-th"""
        nonlocal n
        exp = [seq_expected(seq, rg) for rg in regs_ok]
        n += 1
        entries_diff(ri, contract_entries(contract), exp, when)
        tsel = teal_selectors(teal)
        if sorted(s_ for s_, _ in tsel if s_ is not None) != sorted(e[4] for e in exp) or any(s_ is None for s_, _ in tsel):
            fails.append("approval program of R%d %s dispatches on %s, registered selectors are %s" % (
                ri, when, [(s_.hex() if s_ else None, g_) for s_, g_ in tsel], [(e[4].hex(), e[0]) for e in exp]))
        msel = [(s_, CL.selector(s_)) for s_ in method_lines(teal)]
        for k, rg in enumerate(regs_ok):
            if k >= len(contract.methods):
                break
            sb = seq["subs"][rg["sub"]]
            rng = random_for(seq, ri, k)
            args = gen_args(rng, sb["params"])
            c = CL.client_call(contract.methods[k].name, [A.arc4_str(t) for t in sb["params"]], "void" if sb["ret"] is None else A.arc4_str(sb["ret"]), args, SENDER, APP_ID)
            c.app_args[0] = contract.methods[k].get_selector()
            ctx, _gi = call_ctx(c, [], [], msel)
            verdict, logs = logs_of(mdl.ask((S("run"), ctx, teal)))
            n += 1
            if verdict != "approve" or not logs or logs[0] != b"sub-%d" % rg["sub"]:
                fails.append("a client following entry %d of R%d's contract %s (%s, selector %s) gets verdict %r, logs %r from the approval program of that compile; registered there: f%d" % (
                    k, ri, when, contract.methods[k].get_signature(), contract.methods[k].get_selector().hex(), verdict, [l.hex() for l in (logs or [])][:2], rg["sub"]))

    def reg_kw(rg):
        kw = {}
        if rg.get("regname"):
            kw["overriding_name"] = rg["regname"]
        if rg.get("desc") is not None:
            kw["description"] = rg["desc"]
        return kw

    def do_compile(router, cs):
        opt = None
        if cs.get("fp") is not None or cs.get("ss") is not None:
            opt = pt.OptimizeOptions(frame_pointers=cs.get("fp"), scratch_slots=cs.get("ss"))
        return router.compile_program(version=cs.get("version", version), optimize=opt)

    routers, early, early_objs = [], [], []
    for ri, steps in enumerate(seq["routers"]):
        router = pt.Router("R%d" % ri)
        done = []
        for si_, rg in enumerate(steps):
            if "compile" in rg:
                teal, _c, contract = do_compile(router, rg["compile"])
                state_check(ri, teal, contract, list(done), "at compile #%d (%s, after %d registrations)" % (
                    sum(1 for x in steps[: si_ + 1] if "compile" in x), compile_text(rg["compile"], version), len(done)))
                continue
            kw = reg_kw(rg)
            if rg.get("fail"):
                target = subs[rg["sub"]]
                if rg["fail"] == "never":
                    kw["method_config"] = pt.MethodConfig()
                if rg["fail"] == "notabi":
                    target = pt.Subroutine(pt.TealType.none)(lambda: pt.Pop(pt.Int(1)))
                try:
                    router.add_method_handler(target, **kw)
                    fails.append("R%d accepted a registration that must be rejected (%s): %s" % (ri, rg["fail"], seq_text({"subs": seq["subs"], "routers": [[rg]]})))
                except pt.TealInputError:
                    pass
                continue
            router.add_method_handler(subs[rg["sub"]], **kw)
            done.append(rg)
        teal, _c, contract = router.compile_program(version=version)
        if any(rg.get("fail") for rg in steps):
            # the same router with only the successful registrations
            ref = pt.Router("R%d" % ri)
            for rg in done:
                ref.add_method_handler(subs[rg["sub"]], **reg_kw(rg))
            rteal, _rc, rcontract = ref.compile_program(version=version)
            n += 1
            if contract.dictify() != rcontract.dictify():
                fails.append("contract of R%d differs from the contract of a router built with only the successful registrations: %s vs %s" % (
                    ri, [m_["name"] for m_ in contract.dictify()["methods"]], [m_["name"] for m_ in rcontract.dictify()["methods"]]))
            # (the TEAL text itself is not compared: scratch-slot numbers depend on when a shared subroutine's body was first
            #  evaluated in this process — C11's subject; the dispatch constants are compared with the registrations below)
            if sorted(s_ for s_, _ in teal_selectors(teal) if s_) != sorted(s_ for s_, _ in teal_selectors(rteal) if s_):
                fails.append("approval program of R%d dispatches on other selectors than a router built with only the successful registrations" % ri)
        routers.append((router, done))
        early.append(contract_entries(contract))
        early_objs.append(contract)
    for ri, (router, done) in enumerate(routers):
        teal, _c, contract = router.compile_program(version=version)
        exp = [seq_expected(seq, rg) for rg in done]
        if not entries_diff(ri, early[ri], exp, "when router R%d was built" % ri):
            entries_diff(ri, contract_entries(early_objs[ri]), exp, "in the contract object returned earlier, re-read after all routers were built")
        state_check(ri, teal, contract, done, "after all routers were built (version %d)" % version)
        # model: spec_of of every registration
        for k, rg in enumerate(done):
            sb = seq["subs"][rg["sub"]]
            r = mdl.ask((S("sigstr"), sb["name"], rg.get("regname") or sb["name"], tuple(A.ty_sx(t) for t in sb["params"]),
                         S("void") if sb["ret"] is None else A.ty_sx(sb["ret"])))
            if k < len(contract.methods) and contract.methods[k].get_signature() != r[3]:
                corr.append("R%d entry %d: real contract signature %r, model spec_of %r" % (ri, k, contract.methods[k].get_signature(), r[3]))
    return fails, corr, n


def random_for(seq, ri, k):
    import random
    return random.Random(hash((len(seq["subs"]), ri, k)) & 0xFFFF)


_collide = []


def colliding_names():
    """two method names n1 != n2 with selector(n1(uint64)uint64) == selector(n2(uint64)uint64) (birthday search, ~10^5 hashes, cached)"""
    if not _collide:
        seen = {}
        i = 0
        while True:
            nm = "c%d" % i
            sel = CL.selector("%s(uint64)uint64" % nm)
            if sel in seen:
                _collide.extend([seen[sel], nm])
                break
            seen[sel] = nm
            i += 1
    return _collide[0], _collide[1]


def gen_sequences(rng, thorough):
    out = []
    U = ("uint", 64)
    dep = lambda doc: {"name": "deposit", "params": [U], "ret": U, "doc": doc}
    # (A) one router, the same object under 2 or 3 overriding names, every description pattern
    for doc in (None, "Deposit some amount."):
        for k in (2, 3):
            for pat in range(1 << k):
                regs = [{"sub": 0, "regname": "deposit_v%d" % (i + 1), "desc": ("version %d" % (i + 1)) if pat >> i & 1 else None} for i in range(k)]
                out.append({"subs": [dep(doc)], "routers": [regs]})
        # own name first / last among the aliases
        out.append({"subs": [dep(doc)], "routers": [[{"sub": 0}, {"sub": 0, "regname": "put"}]]})
        out.append({"subs": [dep(doc)], "routers": [[{"sub": 0, "regname": "put", "desc": "alias"}, {"sub": 0}]]})
    # (B) two routers, the same object, every combination of overriding name / description on either side
    for doc in (None, "Deposit some amount."):
        for a in range(4):
            for b in range(4):
                ra = {"sub": 0}
                rb = {"sub": 0}
                if a & 1:
                    ra["regname"] = "put"
                if a & 2:
                    ra["desc"] = "router A's words"
                if b & 1:
                    rb["regname"] = "store"
                if b & 2:
                    rb["desc"] = "router B's words"
                out.append({"subs": [dep(doc)], "routers": [[ra], [rb]]})
    # (C) three routers
    out.append({"subs": [dep(None)], "routers": [[{"sub": 0, "regname": "a"}], [{"sub": 0}], [{"sub": 0, "regname": "c", "desc": "third"}]]})
    # (F) compiles interleaved with registrations: compile, register more, compile again with the SAME (version, optimize) and with
    #     different ones; every compile's program must dispatch on everything registered so far
    wd0 = {"name": "withdraw", "params": [U, "string"], "ret": None, "doc": None}
    same = {"compile": {}}
    for doc in (None, "Deposit some amount."):
        S2 = [dep(doc), wd0]
        out.append({"subs": S2, "routers": [[{"sub": 0}, same, {"sub": 1}]]})
        out.append({"subs": S2, "routers": [[{"sub": 0}, same, same, {"sub": 1, "regname": "take"}, same, {"sub": 0, "regname": "put", "desc": "late"}]]})
        out.append({"subs": S2, "routers": [[{"sub": 0}, {"compile": {"version": 6}}, {"sub": 1}, {"compile": {"version": 6}}, {"compile": {"version": 9}}, {"sub": 0, "regname": "again"}, {"compile": {"version": 9}}]]})
        out.append({"subs": S2, "routers": [[{"sub": 0}, {"compile": {"version": 8, "fp": False}}, {"sub": 1}, {"compile": {"version": 8, "fp": False}}, {"compile": {"version": 8, "fp": True}}, {"compile": {"version": 8}}]]})
        out.append({"subs": S2, "routers": [[{"sub": 0}, same, {"sub": 0, "fail": "dup"}, same, {"sub": 1}], [{"sub": 1}, same, {"sub": 0}]]})
        out.append({"subs": S2, "routers": [[{"sub": 1}, {"compile": {"version": 10, "ss": True}}, {"sub": 0, "desc": "d"}, {"compile": {"version": 10, "ss": True}}, {"compile": {"version": 10, "ss": False}}]]})
    # (E) attempts that the router must reject (TealInputError, caught by the caller) between successful registrations:
    #     a duplicate signature, an all-NEVER MethodConfig, a non-ABIReturnSubroutine, a colliding selector
    wd = {"name": "withdraw", "params": [U, "string"], "ret": None, "doc": None}
    n1, n2 = colliding_names()
    for doc in (None, "Deposit some amount."):
        for kind in ("dup", "never", "notabi", "collide"):
            bad = {"sub": 0, "fail": kind}
            first = {"sub": 0}
            if kind == "never":
                bad = {"sub": 1, "fail": kind, "desc": "never"}
            if kind == "collide":
                first = {"sub": 0, "regname": n1}
                bad = {"sub": 0, "regname": n2, "fail": kind}
            for tail in ([], [{"sub": 1, "regname": "take", "desc": "after the rejected one"}]):
                for head in ([first], [{"sub": 1}, first]):
                    out.append({"subs": [dep(doc), wd], "routers": [head + [bad] + tail]})
        # a rejected overriding-name duplicate, then the same object under a fresh name; two rejected attempts in a row
        out.append({"subs": [dep(doc), wd], "routers": [[{"sub": 0, "regname": "a"}, {"sub": 0, "regname": "a", "desc": "again", "fail": "dup"}, {"sub": 0, "regname": "b"}]]})
        out.append({"subs": [dep(doc), wd], "routers": [[{"sub": 0}, {"sub": 0, "fail": "dup"}, {"sub": 1, "fail": "never"}, {"sub": 1}], [{"sub": 1, "fail": "never"}, {"sub": 0}]]})
    # (D) random: 2-3 subroutine objects, 2-3 routers, 1-4 registrations each
    for q in range(60 if thorough else 24):
        subs = []
        for i in range(rng.choice([2, 2, 3])):
            params = [rng.choice(SEQ_TYPES) for _ in range(rng.choice([1, 1, 2, 3]))]
            subs.append({"name": "g%d" % i, "params": params, "ret": rng.choice([None, params[0]]), "doc": rng.choice([None, None, "Doc of g%d." % i])})
        routers = []
        for ri in range(rng.choice([2, 2, 3])):
            regs, used = [], set()
            for k in range(rng.choice([1, 2, 3, 4])):
                si = rng.randrange(len(subs))
                rg = {"sub": si}
                if rng.random() < 0.6:
                    rg["regname"] = "n%d_%d" % (ri, k)
                if rng.random() < 0.4:
                    rg["desc"] = "desc %d.%d" % (ri, k)
                nm = rg.get("regname") or subs[si]["name"]
                if (nm, si) in used or any(u[0] == nm for u in used):
                    continue
                used.add((nm, si))
                regs.append(rg)
                r_ = rng.random()
                if r_ < 0.2:
                    regs.append(dict(rg, fail="dup"))
                elif r_ < 0.3:
                    regs.append({"sub": rng.randrange(len(subs)), "regname": "never%d_%d" % (ri, k), "fail": "never", "desc": "x"})
                elif r_ < 0.35:
                    regs.append({"sub": si, "fail": "notabi"})
                if rng.random() < 0.3:
                    regs.append({"compile": rng.choice([{}, {}, {"version": rng.choice([6, 7, 8, 9, 10])}, {"version": 8, "fp": False}, {"version": 9, "fp": True}])})
            if regs:
                routers.append(regs)
        if routers:
            out.append({"subs": subs, "routers": routers})
    return out


def seq_worker(job):
    qi, seq = job
    return qi, call_real(seq_check, seq, (6, 8, 10)[qi % 3])


def sequence_results(ck, seqs, results):
    """-> (failing [(seq, [what])], model mismatches [str])"""
    failing, corr_all = [], []
    nreg = {"sequences": len(seqs), "registrations": 0, "same_object_reregistered": 0, "checks": 0}
    for qi, r in results:
        seq = seqs[qi]
        regs = [(ri, rg["sub"]) for ri, rr in enumerate(seq["routers"]) for rg in rr if "sub" in rg]
        nreg["interleaved_compiles"] = nreg.get("interleaved_compiles", 0) + sum(1 for rr in seq["routers"] for rg in rr if "compile" in rg)
        nreg["registrations"] += len(regs)
        nreg["same_object_reregistered"] += len(regs) - len(set(s_ for _, s_ in regs))
        nreg["rejected_attempts"] = nreg.get("rejected_attempts", 0) + sum(1 for rr in seq["routers"] for rg in rr if rg.get("fail"))
        ck.count(("seq", repr(seq)))
        if r[0] != "ok":
            failing.append((seq, ["building the routers raised %s: %s" % (r[1], r[2])]))
            continue
        fails, corr, n = r[1]
        nreg["checks"] += n
        ck.evaluations += n
        corr_all += corr
        if fails:
            failing.append((seq, fails))
    ck.coverage["registration_sequences"] = nreg
    if seqs:
        ck.sample({"registration_sequence": seq_text(seqs[min(40, len(seqs) - 1)])}, limit=7)
    return failing, corr_all


# ---------------------------------------------------------------------------------------------
# shrinking
# ---------------------------------------------------------------------------------------------
def fails_like(case, combos, kind):
    try:
        r = run_case(case, combos, do_static=False)
    except Exception:  # noqa
        return False
    return any(f["kind"] == kind for f in r["fail"])


def shrink(case, combo, kind, budget=80):
    """greedy: fewer methods, fewer calls, fewer / simpler parameters, simpler values"""
    import copy
    cur = copy.deepcopy(case)
    tried = 0

    def attempt(cand):
        nonlocal cur, tried
        if tried >= budget:
            return False
        tried += 1
        if fails_like(cand, [combo], kind):
            cur = cand
            return True
        return False
    if len(cur["methods"]) > 1:
        c = copy.deepcopy(cur)
        c["methods"] = [c["methods"][c["target"]]]
        c["target"] = 0
        attempt(c)
    for ci in range(len(cur["calls"])):
        c = copy.deepcopy(cur)
        c["calls"] = [c["calls"][ci]]
        if attempt(c):
            break
    c = copy.deepcopy(cur)
    for call in c["calls"]:
        call["before"], call["after"] = [], []
    attempt(c)
    changed = True
    while changed and tried < budget:
        changed = False
        m = cur["methods"][cur["target"]]
        for i in reversed(range(len(m["params"]))):
            c = copy.deepcopy(cur)
            mm = c["methods"][c["target"]]
            if mm["mode"].startswith("param:"):
                k = int(mm["mode"][6:])
                if k == i:
                    continue
                if k > i:
                    mm["mode"] = "param:%d" % (k - 1)
            del mm["params"][i]
            for call in c["calls"]:
                del call["args"][i]
            if attempt(c):
                changed = True
                break
    m = cur["methods"][cur["target"]]
    for i, t in enumerate(m["params"]):
        if is_txn(t) or is_ref(t) or t == ("uint", 64):
            continue
        c = copy.deepcopy(cur)
        mm = c["methods"][c["target"]]
        if mm["mode"] == "param:%d" % i:
            continue
        mm["params"][i] = ("uint", 64)
        for call in c["calls"]:
            call["args"][i] = i + 1
        attempt(c)
    return cur


# ---------------------------------------------------------------------------------------------
# worker / main
# ---------------------------------------------------------------------------------------------
def worker(job):
    idx, case, combos = job
    try:
        r = run_case(case, combos)
    except Exception as e:  # noqa
        import traceback
        in_repo = any(fr.filename.startswith(REPO) for fr in traceback.extract_tb(e.__traceback__))
        r = new_out()
        r["fail" if in_repo else "model"].append({"kind": "exception", "what": "%s: %s" % (type(e).__name__, str(e)[:300]), "tb": traceback.format_exc()[-1500:]}
                                                  if in_repo else "harness exception %s: %s\n%s" % (type(e).__name__, e, traceback.format_exc()[-1200:]))
    return idx, r


def pool_size():
    """16 workers on a quiet machine; measured here: with the run queue far above the core count more workers give LOWER
    throughput (48 cases: 1 process 21 s, 4 processes 49 s, 16 processes 112 s at load 75), so back off to 2"""
    try:
        load = os.getloadavg()[0]
    except OSError:
        load = 0.0
    spare = NPROC - load
    if spare >= NPROC / 2:
        return min(NPROC, 16)
    return max(2, min(16, int(spare)))


def combos_for(i, tier, boundary=False):
    """(version, frame_pointers, scratch_slots, assemble_constants): always one scratch-glue and one frame-pointer-glue"""
    vs_lo = [6, 7][i % 2]
    vs_hi = [8, 9, 10][i % 3]
    out = [(vs_lo, None, None, False), (vs_hi, None, None, i % 5 == 0)]
    if i % 3 == 0:
        out.append(([8, 9, 10][(i // 3) % 3], False, None, False))         # scratch glue at a frame-pointer version
    if i % 4 == 1:
        out.append((vs_hi, True, [True, False][(i // 4) % 2], False))
    if tier == "thorough" or boundary:
        for v in (6, 7, 8, 9, 10):
            if not any(c[0] == v for c in out):
                out.append((v, None, None, False))
    return out


def case_summary(case):
    m = case["methods"][case["target"]]
    return {"signature": CL.signature(regname(m), [A.arc4_str(t) for t in m["params"]], "void" if m["ret"] is None else A.arc4_str(m["ret"])),
            "return_mode": m["mode"], "methods_in_router": len(case["methods"]), "calls": len(case["calls"])}


def main(argv):
    args = parse_args(argv)
    ck = Check("C09", args.tier)
    thorough = args.tier == "thorough"
    t0 = time.time()
    phase = {}

    if args.replay:
        # a replay re-runs one recorded case against the implementation (no proof build)
        ok, blog = coq_make(["Extract/Main_c09.vo"], tag="C09")
        ck.proof_ok = True
        return replay(ck, args.replay)

    # ---- (1) tables + proofs ----
    rc, tlog = sh("%s %s/harness/translate.py" % (PY, VERIF))
    if rc != 0:
        ck.violation("translator aborted: PyTeal's tables no longer have the expected shape", {"broken": "harness/translate.py", "log": tlog[-2000:]}, no_failing_input=True)
    ck.run_proofs("Props/C09.v", PROOF_FILES, extra_targets=["Extract/Main_c09.vo"])
    phase["proofs"] = round(time.time() - t0, 1)
    try:
        model()
    except RuntimeError as e:
        # the model does not build (e.g. a regenerated constant broke a definition): behaviour search still possible with the main binary? no: report
        ck.violation("extracted model does not build", {"broken": "ocaml/pv_c09", "log": str(e)[-1500:]}, no_failing_input=True)
        return ck.finish(level="proof", rule="model build failed", trusted_base=[])

    import pyteal as pt  # noqa
    from pyteal import config as ptconfig

    # ---- cases ----
    jobs = []
    corpus = []
    if os.path.exists(CORPUS):
        corpus = [jl(c) for c in json.load(open(CORPUS))]
    cases = [("corpus", c) for c in corpus]
    cases += [("boundary", c) for c in boundary_cases(ck.rng, thorough)]
    nrand = 900 if thorough else 110
    profiles = ["any", "cutoff", "small", "txnheavy", "refheavy", "cutoff", "any"]
    for i in range(nrand):
        cases.append(("random:" + profiles[i % len(profiles)], gen_case(ck.rng, profiles[i % len(profiles)], ncalls=3 if thorough else 2)))
    for i, (origin, case) in enumerate(cases):
        jobs.append((i, case, combos_for(i, args.tier, boundary=(origin in ("boundary", "corpus") and i % 4 == 0))))

    t1 = time.time()
    bad_reg = registration_checks(ck, ck.rng)
    seqs = gen_sequences(ck.rng, thorough)
    import multiprocessing as mp
    global _model
    _model.close()
    _model = None
    import gc
    gc.collect()
    gc.freeze()
    nprocs = pool_size()
    ck.coverage["worker_processes"] = nprocs
    with mp.get_context("fork").Pool(nprocs) as pool:
        results = pool.map(worker, jobs, chunksize=1)
        seq_results = pool.map(seq_worker, list(enumerate(seqs)), chunksize=1)
    seq_failing, seq_corr = sequence_results(ck, seqs, seq_results)
    phase["cases"] = round(time.time() - t1, 1)

    # ---- aggregate ----
    tot = new_out()["n"]
    hist = {"params": {}, "non_txn_args": {}, "txn_params": {}, "ref_params": {}, "origin": {}, "flavour_runs": {}, "ret": {}}
    unsup = {}
    plan_mis, bind_mis, fails, contract_bad, model_bad, contract_corr = [], [], [], [], [], []
    for (idx, r) in results:
        origin, case = cases[idx]
        m = case["methods"][case["target"]]
        ps = m["params"]
        for k, v in r["n"].items():
            tot[k] += v
        for k, v in r["unsup"].items():
            unsup[k] = unsup.get(k, 0) + v
        b = lambda d, k: d.__setitem__(k, d.get(k, 0) + 1)
        b(hist["params"], len(ps))
        b(hist["non_txn_args"], sum(1 for t in ps if not is_txn(t)))
        b(hist["txn_params"], sum(1 for t in ps if is_txn(t)))
        b(hist["ref_params"], sum(1 for t in ps if is_ref(t)))
        b(hist["origin"], origin.split(":")[0])
        b(hist["ret"], m["mode"].split(":")[0])
        for combo in jobs[idx][2]:
            ck.count((idx, combo, repr(case)), nontrivial=len(ps) > 0)
            b(hist["flavour_runs"], "v%d%s" % (combo[0], "" if combo[1] is None else (":fp" if combo[1] else ":nofp")))
        for x in r["model"]:
            model_bad.append(x)
        for x in r["plan_mismatch"]:
            plan_mis.append((idx, x))
        for x in r["bind_mismatch"]:
            bind_mis.append((idx, x))
        for x in r["fail"]:
            fails.append((idx, x))
        for x in r["contract"]:
            contract_bad.append((idx, x))
        for x in r["contract_corr"]:
            contract_corr.append((idx, x))
        for x in r["notes"][:1]:
            if x not in ck.notes and len(ck.notes) < 5:
                ck.notes.append(x)
        want = (3, 16, 21, 9)
        if len(ck.samples) < 5 and origin.startswith("random") and len(ps) in want and not any(s_.get("n_params") == len(ps) for s_ in ck.samples):
            s_ = case_summary(case)
            s_["n_params"] = len(ps)
            s_["binding_plan"] = repr(r["plan"])
            s_["first_call_args"] = repr(case["calls"][0]["args"])[:600]
            s_["compiled_for"] = [list(c) for c in jobs[idx][2]]
            ck.sample(s_)
    ck.evaluations += tot["runs"] + tot["neg_runs"] + tot["client"]
    ck.coverage["counts"] = tot
    ck.coverage["input_distribution"] = {k: {str(a): b for a, b in sorted(v.items(), key=lambda kv: str(kv[0]))} for k, v in hist.items()}
    ck.coverage["inconclusive_avm_verdicts"] = unsup
    ck.coverage["constants"] = {"METHOD_ARG_NUM_CUTOFF": ptconfig.METHOD_ARG_NUM_CUTOFF, "RETURN_HASH_PREFIX": bytes(ptconfig.RETURN_HASH_PREFIX).hex()}
    ck.coverage["phase_s"] = phase

    # (no open known finding for C09; `contract-ignores-overriding-name` is fixed by /repo 330bd50 and suppresses nothing)
    # ---- verdict ----
    for x in model_bad[:5]:
        ck.model_problem(x if isinstance(x, str) else repr(x))
    if tot["inconclusive"] > tot["runs"] // 10:
        ck.model_problem("%d of %d AVM runs were inconclusive: %r" % (tot["inconclusive"], tot["runs"], unsup))
    reported = 0
    seen_kinds = set()
    t2 = time.time()
    for (idx, f) in fails:
        key = (f["kind"], f.get("flavour"), f.get("what", "")[:25])
        if key in seen_kinds or reported >= 4:
            continue
        seen_kinds.add(key)
        reported += 1
        origin, case = cases[idx]
        combo = (f.get("version", 8), f.get("fp"), f.get("ss"), f.get("asm", False))
        small = case
        if f["kind"] in ("behaviour", "wrong-type-accepted", "missing-transaction-accepted") and time.time() - t2 < 60:
            small = shrink(case, combo, f["kind"])
        rr = run_case(small, [combo], do_static=False) if small is not case else None
        ff = f
        if rr:
            same = [x for x in rr["fail"] if x["kind"] == f["kind"]]
            ff = same[0] if same else f
        ck.violation("routed method %s at version %s (%s glue): %s" % (case_summary(small)["signature"], combo[0], ff.get("flavour", "?"), ff.get("what", "")),
                     {"kind": f["kind"], "case": jd(small), "combo": list(combo), "detail": ff, "original_case_index": idx})
    contract_bad.sort(key=lambda kv: (len(cases[kv[0]][1]["methods"]), len(cases[kv[0]][1]["methods"][cases[kv[0]][1]["target"]]["params"])))
    seen_c = set()
    for (idx, f) in contract_bad:
        if idx in seen_c or len(seen_c) >= 3:
            continue
        seen_c.add(idx)
        origin, case = cases[idx]
        small = {"methods": case["methods"], "target": case["target"], "calls": case["calls"][:1]}
        ck.violation("registration %s: %s" % (registration_text(case), f["what"]),
                     {"kind": "contract", "case": jd(small), "combo": [f.get("version", 8), None, None, f.get("asm", False)], "detail": f})
    seq_failing.sort(key=lambda sf: sum(len(r_) for r_ in sf[0]["routers"]) * 10 + len(sf[0]["subs"]))
    for seq, whats in seq_failing[:3]:
        ck.violation("registration sequence [%s]: %s" % (seq_text(seq), whats[0]),
                     {"kind": "registration-sequence", "sequence": jd(seq), "registrations": seq_text(seq), "detail": whats[:6]})
    broken = []
    if seq_corr:
        broken.append("contract correspondence on registration sequences: %d entries differ from spec_of, first: %s" % (len(seq_corr), seq_corr[0]))
    if plan_mis:
        broken.append("plan correspondence: binding_plan (Router/Args.v) != placement of the ARC-4 client on %d calls" % len(plan_mis))
    if bind_mis:
        broken.append("model evaluation (eval_all / decode_steps on client_encode) != reference encodings on %d calls" % len(bind_mis))
    if not ck.proof_ok:
        broken.append("proof obligation: Props/C09.v or Proofs/RouterArgs*.v no longer checks")
    if bad_reg:
        broken.append("registration checks differ")
    if contract_corr:
        broken.append("contract correspondence: signature in the real contract != spec_of (Router/Args.v) on %d compilations, first %r" % (len(contract_corr), contract_corr[0][1]))
    if broken and not fails and not contract_bad and not seq_failing:
        ck.violation("; ".join(broken) + "; behaviour search over %d executions found no wrong binding" % tot["runs"],
                     {"kind": "correspondence", "broken": broken, "first_plan": plan_mis[:1], "first_bind": bind_mis[:1],
                      "log": getattr(ck, "proof_log", "")[-1500:] if not ck.proof_ok else ""}, no_failing_input=True)
    ck.coverage["disagreements_checked"] = len(plan_mis) + len(bind_mis) + len(fails) + len(contract_bad) + len(seq_failing) + len(seq_corr)
    ck.coverage["plan_mismatches"] = len(plan_mis)
    phase["report"] = round(time.time() - t2, 1)
    return finish(ck)


def override_case():
    """add_method_handler(add, overriding_name="foo") — the witness of the fixed finding contract-ignores-overriding-name"""
    return {"methods": [{"name": "add", "regname": "foo", "params": [("uint", 64)], "ret": ("uint", 64), "mode": "param:0"}], "target": 0,
            "calls": [{"args": [41], "before": [], "after": []}]}


def registration_text(case):
    out = []
    for m in case["methods"]:
        sig = CL.signature(m["name"], [A.arc4_str(t) for t in m["params"]], "void" if m["ret"] is None else A.arc4_str(m["ret"]))
        out.append("add_method_handler(%s%s)" % (sig, ", overriding_name=%r" % m["regname"] if m.get("regname") else ""))
    return "; ".join(out)


def finish(ck):
    return ck.finish(
        level="proof",
        rule="cases = corpus + deterministic cut-off family (0..19 plain parameters x 2-5 variants with transaction/reference parameters interleaved) "
             "+ seeded random signatures (0..22 parameters, plain types of depth <= 2 incl. dynamic ones, 7 transaction kinds, 3 reference kinds, void / "
             "argument-copy / computed / literal results, 1-3 methods per router), 2-3 calls each with random values, extra transactions before/after; "
             "each case is compiled for >= 2 (version, options) combinations covering both glue flavours and executed on the extracted AVM; "
             "an evaluation = one AVM execution or one client-encoder comparison; distinct = (case, version/options); non-trivial = the method has parameters",
        trusted_base=[
            "ARC-4 calling convention as written in coq/Router/Args.v (client_encode) and harness/c09_client.py — cross-checked against each other and algosdk's AtomicTransactionComposer on every call of every run",
            "coq/ABI/Spec.v arc4_encode (validated against algosdk.abi on every run, here and in C19)",
            "Theorems are about coq/Router/Args.v (hand model of router.py's binding loop / glue storage / MethodReturn), tied to the code by: binding plan == client placement AND the real program's parameters observing exactly the placed content on the extracted AVM",
            "Tuple element access (de-tupling of ApplicationArgs[15]) is a Section hypothesis of arg_binding_correct (C07's subject); its concrete instance member_bytes is validated against the reference codec on every >15-argument call",
            "AVM semantics of txn/txna/txnas/gtxns/log/concat/extract*/getbyte/getbit/btoi/itob/callsub/retsub/proto/frame_dig/frame_bury/... in coq/AVM (hand-written spec); Accounts[0]=Sender and Applications[0]=current app are supplied by the harness context",
            "SHA-512/256 (hashlib) for selectors; METHOD_ARG_NUM_CUTOFF and RETURN_HASH_PREFIX read from /repo by harness/translate.py",
            "Extraction: ExtrOcamlBasic + ExtrOcamlNativeString, ocaml/driver.ml",
        ])


def replay(ck, path):
    d = json.load(open(path))
    if d.get("kind") == "registration-sequence":
        seq = jl(d["sequence"])
        ck.count(("replay", path))
        r = call_real(seq_check, seq, 8)
        whats = r[1][0] if r[0] == "ok" else ["building the routers raised %s: %s" % (r[1], r[2])]
        for w_ in whats[:3]:
            print("replay: still failing: %s" % w_)
        if whats:
            ck.violation("replay registration sequence [%s]: %s" % (seq_text(seq), whats[0]),
                         {"kind": "registration-sequence", "sequence": jd(seq), "registrations": seq_text(seq), "detail": whats[:6]})
        else:
            print("replay: the registration sequence passes now")
        return finish(ck)
    if "case" not in d:
        print("replay: this record has no concrete case (%s)" % d.get("broken"))
        return finish(ck)
    case = jl(d["case"])
    combo = tuple(d.get("combo") or (8, None, None, False))
    r = run_case(case, [combo])
    ck.count(("replay", path))
    for f in r["fail"] + r["contract"]:
        print("replay: still failing: %s" % f.get("what"))
        ck.violation("replay %s: %s" % (case_summary(case)["signature"], f.get("what")), {"kind": f.get("kind", "contract"), "case": jd(case), "combo": list(combo), "detail": f})
    for x in r["model"]:
        ck.model_problem(x)
    if not r["fail"] and not r["contract"]:
        print("replay: the case passes now (%d runs)" % r["n"]["runs"])
    return finish(ck)


if __name__ == "__main__":
    sys.exit(run_main(main))
