"""C17 helpers, graph level: export real TealBlock graphs to the model's s-expression syntax, build
random graphs by hand from TealSimpleBlock/TealConditionalBlock, run the real validateSlots, and an
independent per-slot reachability oracle (not the model's algorithm, no memo, no state sets).

Graph s-expression (documented in coq/Extract/Main_c17.v):
  (validate (graph BLOCK ...) START (init SLOT ...) FUEL)
  BLOCK ::= (simple (OP ...) NEXT) | (cond (OP ...) TRUE FALSE)     NEXT/TRUE/FALSE ::= index | none
  OP    ::= (st SLOT) | (ld SLOT TAG) | term | other
Blocks are numbered in TealBlock.Iterate (BFS) order from the start block, so START is 0.
"""
from common import S

FUEL = 3000   # Python's own recursion limit (1000 frames) is far below this


class Exported:
    """A real graph in exported form. blocks[i] = ("simple"|"cond", ops, succs) with
    ops = list of ("st", slot) | ("ld", slot, tag) | ("term",) | ("other",) and succs a list of
    indices/None; origin[i] = list of (op index in the real block) per exported op."""

    def __init__(self):
        self.blocks = []
        self.origin = []
        self.tag_of_expr = {}      # id(expr) -> tag     (None -> 0)
        self.expr_of_tag = {0: None}
        self.real_blocks = []

    def tag(self, expr):
        if expr is None:
            return 0
        k = id(expr)
        if k not in self.tag_of_expr:
            t = len(self.expr_of_tag)
            self.tag_of_expr[k] = t
            self.expr_of_tag[t] = expr
        return self.tag_of_expr[k]

    def sexp(self, init, fuel=FUEL):
        def o(x):
            return S("none") if x is None else x

        def op(p):
            if p[0] == "st":
                return (S("st"), p[1])
            if p[0] == "ld":
                return (S("ld"), p[1], p[2])
            return S(p[0])

        bl = []
        for kind, ops, succs in self.blocks:
            if kind == "simple":
                bl.append((S("simple"), tuple(op(p) for p in ops), o(succs[0])))
            else:
                bl.append((S("cond"), tuple(op(p) for p in ops), o(succs[0]), o(succs[1])))
        return (S("validate"), (S("graph"),) + tuple(bl), 0, (S("init"),) + tuple(sorted(init)), fuel)

    def plain(self):
        return [[k, [list(p) for p in ops], list(s)] for k, ops, s in self.blocks]


def export_graph(start):
    """Walk the real graph exactly like TealBlock.Iterate and abstract every op."""
    from pyteal.ir import TealBlock, TealSimpleBlock, TealConditionalBlock, Op

    ex = Exported()
    order = list(TealBlock.Iterate(start))
    index = {id(b): i for i, b in enumerate(order)}
    ex.real_blocks = order
    for b in order:
        ops = []
        org = []
        for i, op in enumerate(b.ops):
            code = op.getOp()
            slots = op.getSlots()
            if code == Op.store and slots:
                for s in slots:
                    ops.append(("st", s.id))
                    org.append(i)
            elif code == Op.load and slots:
                for s in slots:
                    ops.append(("ld", s.id, ex.tag(op.expr)))
                    org.append(i)
            elif code in (Op.return_, Op.retsub, Op.err):
                ops.append(("term",))
                org.append(i)
            else:
                ops.append(("other",))
                org.append(i)
        if type(b) is TealSimpleBlock:
            nb = b.nextBlock
            ex.blocks.append(("simple", ops, [None if nb is None else index[id(nb)]]))
        elif type(b) is TealConditionalBlock:
            t, f = b.trueBlock, b.falseBlock
            ex.blocks.append(("cond", ops, [None if t is None else index[id(t)], None if f is None else index[id(f)]]))
        else:
            raise AssertionError("unknown block class %r" % type(b))
        ex.origin.append(org)
    return ex


def slot_identity_ok(start, init_slots):
    """The model identifies a slot with its id; check that this graph gives no two distinct
    ScratchSlot objects the same id (precondition, always true once slot assignment got this far)."""
    from pyteal.ir import TealBlock

    seen = {}
    for s in list(init_slots) + TealBlock.GetReferencedScratchSlots(start):
        if seen.setdefault(s.id, s) is not s:
            return False
    return True


def real_validate(start, init_slots, ex):
    """The real error list as tags, in order."""
    errs = start.validateSlots(slotsInUse=set(init_slots))
    out = []
    for e in errs:
        assert e.msg == "Scratch slot load occurs before store", e.msg
        out.append(ex.tag(e.sourceExpr))
    return out


_MODEL_CACHE = {}


def model_validate(model, ex, init_ids, fuel=FUEL):
    from common import sx

    req = sx(ex.sexp(init_ids, fuel))
    r = _MODEL_CACHE.get(req)
    if r is None:
        r = model.ask(req)
        if len(req) > 2000:          # only the large requests are worth remembering (same routine, other option combo)
            if len(_MODEL_CACHE) > 64:
                _MODEL_CACHE.clear()
            _MODEL_CACHE[req] = r
    if r and r[0] == S("ok"):
        return list(r[1][1:]), r[2][1], r[3][1]
    return r, None, None


# ---------------------------------------------------------------------------------------------
# independent oracle on exported graphs: per slot, plain reachability (no slot sets, no memo)
# ---------------------------------------------------------------------------------------------
def graph_oracle(ex, init_ids):
    """Returns (live, scanned): tags of loads that have an unstored control-flow path (live: also no
    terminator in front of the load inside its block) / an unstored path in the sense of the block
    scan (ops after a terminator of the same block included)."""
    init_ids = set(init_ids)
    slots = set()
    for _, ops, _ in ex.blocks:
        for p in ops:
            if p[0] == "ld":
                slots.add(p[1])
    live, scanned = set(), set()
    live_pos, scanned_pos = set(), set()
    for s in slots:
        if s in init_ids:
            continue
        seen = {0}
        work = [0]
        while work:
            b = work.pop()
            kind, ops, succs = ex.blocks[b]
            stored = False
            term = False
            for i, p in enumerate(ops):
                if p[0] == "st" and p[1] == s:
                    stored = True
                    break
                if p[0] == "ld" and p[1] == s:
                    scanned.add(p[2])
                    scanned_pos.add((b, i))
                    if not term:
                        live.add(p[2])
                        live_pos.add((b, i))
                if p[0] == "term":
                    term = True
            if stored:
                continue
            outs = [c for c in succs if c is not None]
            if any(p[0] == "term" for p in ops) or not outs:
                continue
            for c in outs:
                if c not in seen:
                    seen.add(c)
                    work.append(c)
    return live, scanned, live_pos, scanned_pos


# ---------------------------------------------------------------------------------------------
# hand-built graphs out of the real block classes, from a plain (JSON-able) description
# ---------------------------------------------------------------------------------------------
# plain = {"slots": [["auto"] | ["reserved", id], ...], "init": [slot index, ...],
#          "blocks": [[kind, [op, ...], [succ index | None, ...]], ...]}       block 0 is the start
#   op ::= ["st", si, ek] | ["ld", si, ek] | ["st2", si, sj, ek] | ["ld2", si, sj, ek]   (ScratchSlot arguments)
#        | ["sti", n] | ["ldi", n]            store/load whose argument is already an int: no slot
#        | ["idx", si]                         `int` op carrying a slot (ScratchIndex)
#        | ["term", "return_"|"retsub"|"err"] | ["other", opname]
#   ek ::= None (expr=None) | int (shared expression object number ek) | "u" (an expression of its own)
def build_real(plain):
    import pyteal as pt
    from pyteal.ir import TealOp, Op, TealSimpleBlock, TealConditionalBlock

    slots = [pt.ScratchSlot() if d[0] == "auto" else pt.ScratchSlot(d[1]) for d in plain["slots"]]
    shared = {}

    def ex(ek):
        if ek is None:
            return None
        if ek == "u":
            return pt.Int(7)
        if ek not in shared:
            shared[ek] = pt.Int(ek)
        return shared[ek]

    blocks = []
    for kind, ops, succs in plain["blocks"]:
        real = []
        for o in ops:
            k = o[0]
            if k == "st":
                real.append(TealOp(ex(o[2]), Op.store, slots[o[1]]))
            elif k == "ld":
                real.append(TealOp(ex(o[2]), Op.load, slots[o[1]]))
            elif k == "st2":
                real.append(TealOp(ex(o[3]), Op.store, slots[o[1]], slots[o[2]]))
            elif k == "ld2":
                real.append(TealOp(ex(o[3]), Op.load, slots[o[1]], slots[o[2]]))
            elif k == "sti":
                real.append(TealOp(None, Op.store, o[1]))
            elif k == "ldi":
                real.append(TealOp(None, Op.load, o[1]))
            elif k == "idx":
                real.append(TealOp(None, Op.int, slots[o[1]]))
            elif k == "term":
                real.append(TealOp(None, getattr(Op, o[1])))
            else:
                real.append(TealOp(None, getattr(Op, o[1])))
        blocks.append(TealSimpleBlock(real) if kind == "simple" else TealConditionalBlock(real))
    for (kind, ops, succs), blk in zip(plain["blocks"], blocks):
        if kind == "simple":
            if succs[0] is not None:
                blk.setNextBlock(blocks[succs[0]])
        else:
            if succs[0] is not None:
                blk.setTrueBlock(blocks[succs[0]])
            if succs[1] is not None:
                blk.setFalseBlock(blocks[succs[1]])
    return blocks[0], slots, [slots[i] for i in plain["init"]]


def random_plain(rng, nblocks, nslots, style="mixed"):
    used = set()
    slots = []
    for _ in range(nslots):
        if rng.random() < 0.8:
            slots.append(["auto"])
        else:
            while True:
                r = rng.randrange(0, 256)
                if r not in used:
                    used.add(r)
                    break
            slots.append(["reserved", r])
    S_ = range(nslots)
    blocks = []
    for b in range(nblocks):
        n = rng.choice([0, 0, 1, 1, 2, 2, 3, 4, 6])
        ops = []
        for _ in range(n):
            r = rng.random()
            q = rng.random()
            ek = None if q < 0.1 else (rng.randrange(3) if q < 0.25 else "u")
            if r < 0.30:
                ops.append(["st", rng.choice(S_), ek])
            elif r < 0.66:
                ops.append(["ld", rng.choice(S_), ek])
            elif r < 0.74:
                ops.append(["term", rng.choice(["return_", "retsub", "err"])])
            elif r < 0.78:
                ops.append([rng.choice(["sti", "ldi"]), rng.randrange(256)])
            elif r < 0.80 and nslots >= 2:
                a, c = rng.sample(list(S_), 2)
                ops.append([rng.choice(["st2", "ld2"]), a, c, ek])
            elif r < 0.84:
                ops.append(["idx", rng.choice(S_)])
            else:
                ops.append(["other", rng.choice(["pop", "add", "loads", "stores", "callsub", "assert_"])])
        kind = "cond" if rng.random() < (0.45 if style != "chain" else 0.1) else "simple"

        def target():
            if style == "dag":
                later = list(range(b + 1, nblocks))
                return rng.choice(later) if later else None
            if style == "chain":
                return b + 1 if b + 1 < nblocks else None
            if rng.random() < 0.12:
                return None
            return rng.randrange(nblocks)

        if kind == "simple":
            succs = [target()]
        else:
            t, f = target(), target()
            if rng.random() < 0.06:
                f = t
            succs = [t, f]
        blocks.append([kind, ops, succs])
    init = [i for i in S_ if rng.random() < 0.2]
    return {"slots": slots, "init": init, "blocks": blocks}


def exhaustive_plain(nblocks, oplists, allow_none_cond=True):
    """Every graph with nblocks blocks over one slot: each block takes one of the op lists and every
    successor shape (simple: None or any block; cond: any pair)."""
    import itertools

    targets = [None] + list(range(nblocks))
    ctargets = targets if allow_none_cond else list(range(nblocks))
    shapes = [["simple", [t]] for t in targets] + [["cond", [t, f]] for t in ctargets for f in ctargets]
    per_block = [(k, ops, su) for ops in oplists for k, su in shapes]
    for combo in itertools.product(per_block, repeat=nblocks):
        yield {"slots": [["auto"]], "init": [], "blocks": [[k, [list(o) for o in ops], list(su)] for k, ops, su in combo]}


def shrink_plain(plain, fails):
    """Greedy: drop ops, cut edges, drop init entries while fails(plain) stays true."""
    import copy

    cur = copy.deepcopy(plain)
    changed = True
    while changed:
        changed = False
        for bi, (kind, ops, succs) in enumerate(cur["blocks"]):
            for oi in range(len(ops) - 1, -1, -1):
                c = copy.deepcopy(cur)
                del c["blocks"][bi][1][oi]
                if fails(c):
                    cur = c
                    changed = True
            for si in range(len(succs)):
                if cur["blocks"][bi][2][si] is not None:
                    c = copy.deepcopy(cur)
                    c["blocks"][bi][2][si] = None
                    if fails(c):
                        cur = c
                        changed = True
        for ii in range(len(cur["init"]) - 1, -1, -1):
            c = copy.deepcopy(cur)
            del c["init"][ii]
            if fails(c):
                cur = c
                changed = True
    return cur
