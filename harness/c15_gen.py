"""C15 — generator of PyTeal *source files* (projects) for the implementation-side validation.

A project is a directory of Python files: main.py (entry point, builds the program and compiles it in
the modes asked for on the command line) and library modules that import each other.  Every line that
constructs a user constant carries a MARKER: `pt.Int(base_f + L)` where L is the physical line number
and base_f identifies the file (1_000_000 * (file index + 1)), so a TEAL line `int 3000412` says "file 2,
line 412" without any bookkeeping on the harness side.  Markers in code that is really part of the
program are recorded as `expected`.
"""
import json

MARK = 1_000_000


class FileWriter:
    def __init__(self, relpath, findex):
        self.relpath = relpath
        self.findex = findex
        self.base = MARK * (findex + 1)
        self.lines = []
        self.markers = {}      # marker value -> [line, expected]
        self.repeats = {}      # repeated int value -> [lines where it was written]
        self.repeat_bytes = {} # repeated bytes literal -> [lines]

    def repeat_value(self, rng, pool, maxn=4):
        """A marker value that is written on SEVERAL different lines (2-4): reuse an open group or start one."""
        open_ = [v for v, ls in pool.items() if len(ls) < maxn and self.lineno not in ls]
        if open_ and rng.random() < 0.7:
            v = rng.choice(open_)
        else:
            v = self.base + 500000 + len(self.repeats) + len(self.repeat_bytes)
            if pool is self.repeat_bytes:
                v = "rb%d" % v
            pool[v] = []
        pool[v].append(self.lineno)
        return v

    @property
    def lineno(self):
        return len(self.lines) + 1

    def add(self, text, expected=True):
        for phys in text.split("\n"):
            ln = self.lineno
            if "{M}" in phys:
                m = self.base + ln
                phys = phys.replace("{M}", str(m))
                self.markers[m] = [ln, expected]
            self.lines.append(phys)

    def filler(self, n, rng, code_ok=True):
        for k in range(n):
            r = rng.random() if code_ok else rng.random() * 0.9
            if r < 0.3:
                self.lines.append("")
            elif r < 0.9:
                self.lines.append("# filler line %d: pt.Int(%d) is only a comment" % (k, 424242))
            else:
                self.lines.append("_unused_%d_%d = %d" % (self.findex, len(self.lines), k))

    def text(self):
        return "\n".join(self.lines) + "\n"


HEADER = '''import sys
from feature_gates import FeatureGates
if len(sys.argv) > 1 and sys.argv[1] == "map":
    FeatureGates.set_sourcemap_enabled(True)
import pyteal as pt
'''

FOOTER = '''

def _c15_dump(teal, sm):
    r3 = sm.r3_sourcemap
    return {
        "teal": teal,
        "annotated": sm.annotated_teal,
        "teal_filename": sm.teal_filename,
        "json": r3.to_json(),
        "json_with_contents": bool(r3.to_json(with_contents=True).get("sourcesContent") is not None),
        "index": [list(cs) for cs in r3.index],
        "entries": [[l, c, e.source, e.source_line, e.source_column, e.name] for (l, c), e in r3.entries.items()],
        "file_lines": r3.file_lines,
        "root": r3.source_root,
    }


def _c15_run(argv):
    import json
    mode, out, cfgs = argv[1], argv[2], json.loads(argv[3])
    results = []
    for cfg in cfgs:
        res = {"cfg": cfg}
        try:
            opt = pt.OptimizeOptions(scratch_slots=cfg["scratch_slots"], frame_pointers=cfg["frame_pointers"])
            if cfg["kind"] == "expr":
                ast_ = build()
                mode_ = pt.Mode.Application if cfg["app"] else pt.Mode.Signature
                if mode == "map":
                    comp = pt.Compilation(ast_, mode_, version=cfg["version"], assemble_constants=cfg["assemble_constants"], optimize=opt)
                    r = comp.compile(with_sourcemap=True, teal_filename=cfg["teal_filename"], annotate_teal=cfg["annotate"],
                                     annotate_teal_headers=cfg["headers"], annotate_teal_concise=cfg["concise"])
                    d = _c15_dump(r.teal, r.sourcemap)
                    d["same_ast_plain"] = pt.compileTeal(ast_, mode_, version=cfg["version"], assembleConstants=cfg["assemble_constants"], optimize=opt)
                    res["programs"] = [d]
                else:
                    res["programs"] = [{"teal": pt.compileTeal(ast_, mode_, version=cfg["version"], assembleConstants=cfg["assemble_constants"], optimize=opt)}]
            else:
                router = build_router()
                if mode == "map":
                    rr = router.compile(version=cfg["version"], assemble_constants=cfg["assemble_constants"], optimize=opt,
                                        approval_filename=cfg["teal_filename"], clear_filename=None,
                                        with_sourcemaps=True, annotate_teal=cfg["annotate"],
                                        annotate_teal_headers=cfg["headers"], annotate_teal_concise=cfg["concise"])
                    a = _c15_dump(rr.approval_teal, rr.approval_sourcemap)
                    c = _c15_dump(rr.clear_teal, rr.clear_sourcemap)
                    ap, cl, _ = build_router().compile_program(version=cfg["version"], assemble_constants=cfg["assemble_constants"], optimize=opt)
                    a["same_ast_plain"], c["same_ast_plain"] = ap, cl
                    res["programs"] = [a, c]
                else:
                    ap, cl, _ = router.compile_program(version=cfg["version"], assemble_constants=cfg["assemble_constants"], optimize=opt)
                    res["programs"] = [{"teal": ap}, {"teal": cl}]
        except Exception as e:
            import traceback
            res["error"] = [type(e).__name__, str(e)[:1500], traceback.format_exc()[-1500:]]
        results.append(res)
    with open(out, "w") as f:
        json.dump(results, f)


if __name__ == "__main__":
    _c15_run(sys.argv)
'''

TRICKY_STRINGS = ["a // b", "x ; y // z", "q\\\"uote // \\\" ; ", "tab\\there", "//", "base64 //8=", "semi;colon", "  lead and trail  ", "#pragma version 9"]
TRICKY_COMMENTS = ["hello // world", "semi ; colon", "quote \\\" unbalanced", "two\\nlines // here", "base64 dangling", "trailing blank ", "  leading", "tab\\there", "ünï cödé"]


class Gen:
    """Generates one project from a seeded rng and a size profile."""

    def __init__(self, rng, profile):
        self.rng = rng
        self.p = profile
        self.budget = profile.get("stmts", 40)
        self.min_version = 2
        self.app_only = False
        self.uid = 0

    def fresh(self, prefix):
        self.uid += 1
        return "%s%d" % (prefix, self.uid)

    # ---- statements (each is a TealType.none expression followed by a comma) ----
    def stmts(self, w, ind, depth, ctx, n=None, expected=True):
        n = n if n is not None else self.rng.randint(1, 4)
        for _ in range(max(1, n)):
            self.stmt(w, ind, depth, ctx, expected)

    def stmt(self, w, ind, depth, ctx, expected=True):
        rng = self.rng
        self.budget -= 1
        sp = " " * ind
        simple = ["pop", "pop2", "multi", "bytes", "assert", "comment", "store", "lambda", "compr", "triple", "walrus"]
        if expected and ctx.get("repeat"):
            simple += ["repint", "repint", "repbytes"]
        # hazard lines: the TEXT of the source line looks like something the frame search keys on
        simple += ["hz_import_comment", "hz_import_string", "hz_star", "hz_paths", "hz_tabs", "hz_long", "hz_t2pt"]
        if ctx.get("app", True):
            simple.append("log")
        nested = ["if", "ifelse", "if3", "cond", "for", "while"]
        calls = []
        if ctx["subs"]:
            calls.append("callsub")
        if ctx["macros"]:
            calls.append("macro")
        if ctx["consts"]:
            calls.append("const")
        if ctx.get("itxn"):
            simple.append("itxn")
        kinds = simple + calls + calls
        if depth < self.p.get("depth", 3) and self.budget > 0:
            kinds += nested + nested
        if ctx.get("in_loop"):
            kinds += ["break"]
        k = rng.choice(kinds)
        A = lambda t: w.add(sp + t, expected)
        if k == "hz_import_comment":
            A("pt.Pop(pt.Int({M})),  # remember to import the limits from pyteal.config")
        elif k == "hz_import_string":
            A('pt.Pop(pt.Concat(pt.Bytes("please import pyteal first"), pt.Itob(pt.Int({M})))),')
        elif k == "hz_star":
            A("pt.Pop(pt.Int({M})),  # from pyteal import *  /  import pyteal as pt")
        elif k == "hz_paths":
            A('pt.Pop(pt.Concat(pt.Bytes("pyteal/ast pyteal/compiler stack_frame.py NatalStackFrame _compile_impl"), pt.Itob(pt.Int({M})))),')
        elif k == "hz_tabs":
            A("pt.Pop(pt.Int({M})),\t#\ttabs\timport\tpyteal\there")
        elif k == "hz_long":
            A("pt.Pop(pt.Int({M}) + %s),  # %s import pyteal" % (" + ".join(["pt.Int(0)"] * rng.randint(20, 60)), "long " * rng.randint(200, 900)))
        elif k == "hz_t2pt":
            # single-line statement: the neighbouring TEAL line belongs to the same source line
            A("pt.Pop(pt.Int({M})),  # T2PT%d is what PyTeal writes in its own sources; import pyteal" % rng.randint(0, 8))
        elif k == "repint":
            A("pt.Pop(pt.Int(%d))," % w.repeat_value(rng, w.repeats))
        elif k == "repbytes":
            A('pt.Pop(pt.Bytes("%s")),' % w.repeat_value(rng, w.repeat_bytes))
        elif k == "pop":
            A("pt.Pop(pt.Int({M})),")
        elif k == "pop2":
            A("pt.Pop(pt.Int({M}) %s pt.Int({M}))," % rng.choice(["+", "*", "-", "|"]))
        elif k == "multi":
            A("pt.Pop(\n%s    pt.Int({M})\n%s    + pt.Int({M})\n%s    + (pt.Int({M}) *\n%s       pt.Int({M}))\n%s)," % (sp, sp, sp, sp, sp))
        elif k == "bytes":
            A('pt.Pop(pt.Concat(pt.Bytes("%s"), pt.Itob(pt.Int({M})))),' % rng.choice(TRICKY_STRINGS))
        elif k == "assert":
            A('pt.Assert(pt.Int({M}), comment="%s"),' % rng.choice(TRICKY_COMMENTS))
            self.min_version = max(self.min_version, 3)
        elif k == "comment":
            A('pt.Comment("%s", pt.Pop(pt.Int({M}))),' % rng.choice(TRICKY_COMMENTS))
        elif k == "store":
            v = rng.choice(ctx["vars"])
            A("%s.store(pt.Int({M}))," % v)
            A("pt.Pop(%s.load() + pt.Int({M}))," % v)
        elif k == "lambda":
            A("(lambda: pt.Pop(pt.Int({M})))(),")
        elif k == "compr":
            A("*[pt.Pop(pt.Int({M} + 0 * _i)) for _i in range(%d)]," % rng.randint(1, 3))
        elif k == "triple":
            A('pt.Seq(pt.Pop(pt.Bytes("""first\n%ssecond // line""")), pt.Pop(pt.Int({M}))),' % sp)
        elif k == "walrus":
            A("pt.Pop(pt.Int(_m := {M})), pt.Pop(pt.Int({M}) + pt.Int(0)),")
        elif k == "log":
            A("pt.Log(pt.Itob(pt.Int({M}))),")
            self.app_only = True
            self.min_version = max(self.min_version, 5)
        elif k == "itxn":
            A("pt.InnerTxnBuilder.Execute({pt.TxnField.type_enum: pt.TxnType.Payment, pt.TxnField.amount: pt.Int({M}),")
            A("                            pt.TxnField.receiver: pt.Txn.sender(), pt.TxnField.fee: pt.Int({M})}),")
            self.app_only = True
            self.min_version = max(self.min_version, 6)
        elif k == "callsub":
            s = rng.choice(ctx["subs"])
            A("pt.Pop(%s(pt.Int({M})))," % s)
            self.min_version = max(self.min_version, 4)
        elif k == "macro":
            A("%s()," % rng.choice(ctx["macros"]))
        elif k == "const":
            A("pt.Pop(%s + pt.Int({M}))," % rng.choice(ctx["consts"]))
        elif k == "break":
            A("pt.If(pt.Int({M})).Then(pt.%s())," % rng.choice(["Break", "Continue"]))
        elif k == "if":
            A("pt.If(pt.Int({M})).Then(")
            self.stmts(w, ind + 4, depth + 1, ctx, expected=expected)
            A("),")
        elif k == "ifelse":
            A("pt.If(pt.Int({M})).Then(")
            self.stmts(w, ind + 4, depth + 1, ctx, expected=expected)
            A(").ElseIf(pt.Int({M})).Then(")
            self.stmts(w, ind + 4, depth + 1, ctx, expected=expected)
            A(").Else(")
            self.stmts(w, ind + 4, depth + 1, ctx, expected=expected)
            A("),")
        elif k == "if3":
            A("pt.If(pt.Int({M}), pt.Seq(")
            self.stmts(w, ind + 4, depth + 1, ctx, expected=expected)
            A("), pt.Seq(")
            self.stmts(w, ind + 4, depth + 1, ctx, expected=expected)
            A(")),")
        elif k == "cond":
            A("pt.Cond(")
            for _ in range(rng.randint(1, 3)):
                A("    [pt.Int({M}), pt.Seq(")
                self.stmts(w, ind + 8, depth + 1, ctx, n=rng.randint(1, 2), expected=expected)
                A("    )],")
            A("),")
        elif k == "for":
            v = rng.choice(ctx["vars"])
            A("pt.For(%s.store(pt.Int({M})), %s.load() < pt.Int({M})," % (v, v))
            A("       %s.store(%s.load() + pt.Int({M}))).Do(" % (v, v))
            c2 = dict(ctx)
            c2["in_loop"] = True
            self.stmts(w, ind + 4, depth + 1, c2, expected=expected)
            A("),")
            self.min_version = max(self.min_version, 4)
        elif k == "while":
            A("pt.While(pt.Int({M})).Do(")
            c2 = dict(ctx)
            c2["in_loop"] = True
            self.stmts(w, ind + 4, depth + 1, c2, expected=expected)
            A("),")
            self.min_version = max(self.min_version, 4)

    # ---- files ----
    def lib(self, relpath, findex, import_lines, ctx_in, nsubs, nmacros, nconsts, filler, used=False):
        rng = self.rng
        self.budget = self.p.get("lib_stmts", 12)
        w = FileWriter(relpath, findex)
        w.add('"""generated library module %s"""' % relpath)
        w.add("import pyteal as pt")
        for l in import_lines:
            w.add(l)
        names = {"subs": [], "macros": [], "consts": []}
        w.add("")
        for i in range(nconsts):
            nm = self.fresh("K")
            w.add("%s = pt.Int({M})" % nm, expected=False)       # expected only through a use site
            names["consts"].append(nm)
        vars_ = []
        for i in range(2):
            nm = self.fresh("gv")
            w.add("%s = pt.ScratchVar(pt.TealType.uint64)" % nm)
            vars_.append(nm)
        ctx = {"subs": list(ctx_in["subs"]), "macros": list(ctx_in["macros"]), "consts": list(ctx_in["consts"]) + names["consts"],
               "vars": vars_, "app": ctx_in.get("app", True), "itxn": ctx_in.get("itxn")}
        for i in range(nsubs):
            w.filler(rng.randint(0, filler), rng)
            nm = self.fresh("sub")
            w.add("")
            w.add("@pt.Subroutine(pt.TealType.uint64)")
            w.add("def %s(x):" % nm)
            if rng.random() < 0.5:
                w.add('    """doc string\n    over two lines"""')
            w.add("    return pt.Seq(")
            self.stmts(w, 8, 1, ctx, n=rng.randint(1, 3), expected=used)
            w.add("        x + pt.Int({M}),", used)
            w.add("    )")
            names["subs"].append(nm)
            ctx["subs"].append(nm)
            self.min_version = max(self.min_version, 4)
        for i in range(nmacros):
            w.filler(rng.randint(0, filler), rng)
            nm = self.fresh("piece")
            w.add("")
            w.add("def %s():" % nm)
            w.add("    return pt.Seq(")
            self.stmts(w, 8, 1, ctx, n=rng.randint(1, 3), expected=used)
            w.add("    )")
            names["macros"].append(nm)
            ctx["macros"].append(nm)
        w.filler(rng.randint(0, filler), rng)
        return w, names

    def project(self, kind="expr", layout=None):
        """Returns dict(files={rel: text}, markers={value: [rel, line, expected]}, kind, min_version, app_only)."""
        rng = self.rng
        p = self.p
        filler = p.get("filler", 3)
        layout = layout or ["lib_b.py", "pkg/lib_c.py", "lib_a.py"]
        files = {}
        writers = []
        avail = {"subs": [], "macros": [], "consts": [], "app": p.get("app", True), "itxn": p.get("itxn", False)}
        imports_for_next = []
        # libraries: each later one imports everything from the earlier ones (a chain of imports)
        by_path = p.get("by_path", False)      # hazard file names: modules are loaded by file path, not by `import`
        loads = []
        for i, rel in enumerate(layout):
            mod = ("hz_mod%d" % (i + 1)) if by_path else rel[:-3].replace("/", ".")
            loads.append((rel, mod))
            w, names = self.lib(rel, i + 1, list(imports_for_next), avail, p.get("subs", 2), p.get("macros", 1), p.get("consts", 1),
                                filler if i != p.get("long_file", -1) else p.get("long_filler", filler))
            writers.append(w)
            allnames = names["subs"] + names["macros"] + names["consts"]
            imports_for_next.append("from %s import %s" % (mod, ", ".join(allnames)) if rng.random() < 0.6 or True else "import %s" % mod)
            for k in names:
                avail[k] += names[k]
            if "/" in rel and not by_path:
                d = rel.rsplit("/", 1)[0]
                parts = d.split("/")
                for j in range(len(parts)):
                    files.setdefault("/".join(parts[: j + 1]) + "/__init__.py", "")
        # main (its own statement budget: everything written in build() is part of the program)
        self.budget = p.get("stmts", 40)
        w = FileWriter("main.py", 0)
        w.add(HEADER.rstrip("\n"))
        if by_path:
            w.add("import importlib.util as _ilu, os as _os")
            w.add("def _c15_load(rel, name):")
            w.add("    spec = _ilu.spec_from_file_location(name, _os.path.join(_os.path.dirname(_os.path.abspath(__file__)), rel))")
            w.add("    m = _ilu.module_from_spec(spec); sys.modules[name] = m; spec.loader.exec_module(m); return m")
            for rel, mod in loads:
                w.add("_c15_load(%r, %r)" % (rel, mod))
        for l in imports_for_next:
            w.add(l)
        w.add("")
        w.filler(p.get("main_filler", filler), rng)
        w.add("mv1 = pt.ScratchVar(pt.TealType.uint64)")
        w.add("mv2 = pt.ScratchVar(pt.TealType.uint64)")
        ctx = dict(avail)
        ctx["vars"] = ["mv1", "mv2"]
        ctx["repeat"] = True
        if kind == "expr":
            w.add("")
            w.add("def build():")
            w.add("    pre_a = pt.Pop(pt.Int({M})); pre_b = pt.Pop(pt.Int({M}))")
            w.add("    return pt.Seq(")
            w.add("        pre_a, pre_b,")
            for _rep in range(2):
                A_ = w.repeat_value(rng, w.repeats)
                w.add("        pt.Pop(pt.Int(%d))," % A_)
                B_ = w.repeat_value(rng, w.repeat_bytes)
                w.add('        pt.Pop(pt.Bytes("%s")),' % B_)
            while self.budget > 0:
                self.stmts(w, 8, 1, ctx, n=3)
                if rng.random() < 0.3:
                    w.filler(rng.randint(0, filler), rng, code_ok=False)
            # close every repeat group that has a single line so far: write it once more on its own line
            for pool, fmt in ((w.repeats, "        pt.Pop(pt.Int(%d)),"), (w.repeat_bytes, '        pt.Pop(pt.Bytes("%s")),')):
                for v in [v for v, ls in pool.items() if len(ls) < 2]:
                    pool[v].append(w.lineno)
                    w.add(fmt % v)
            w.add("        pt.Int({M}),")
            w.add("    )")
        else:
            self.min_version = max(self.min_version, 6)
            self.app_only = True
            w.add("")
            w.add("def build_router():")
            w.add('    router = pt.Router("c15", pt.BareCallActions(')
            w.add("        no_op=pt.OnCompleteAction.create_only(pt.Seq(")
            self.stmts(w, 12, 2, ctx, n=2)
            w.add("            pt.Approve())),")
            w.add("        opt_in=pt.OnCompleteAction.call_only(pt.Seq(pt.Pop(pt.Int({M})), pt.Approve())),")
            w.add("    ), clear_state=pt.Seq(")
            self.stmts(w, 8, 2, ctx, n=2)
            w.add("        pt.Approve()))")
            nm = 0
            while self.budget > 0 and nm < 4:
                nm += 1
                w.add("")
                w.filler(rng.randint(0, filler), rng, code_ok=False)
                if rng.random() < 0.5:
                    w.add("    @router.method")
                    w.add("    def m%d(a: pt.abi.Uint64, b: pt.abi.Uint64, *, output: pt.abi.Uint64):" % nm)
                    w.add("        return pt.Seq(")
                    self.stmts(w, 12, 2, ctx, n=3)
                    w.add("            output.set(a.get() + b.get() + pt.Int({M})),")
                    w.add("        )")
                else:
                    w.add("    @router.method(no_op=pt.CallConfig.CALL, opt_in=pt.CallConfig.CALL)")
                    w.add("    def m%d(s: pt.abi.String, t: pt.abi.DynamicArray[pt.abi.Uint64]):" % nm)
                    w.add("        return pt.Seq(")
                    self.stmts(w, 12, 2, ctx, n=3)
                    w.add("            pt.Assert(s.length() + t.length() < pt.Int({M})),")
                    w.add("        )")
            w.add("    return router")
        w.add(FOOTER.rstrip("\n"))
        writers.append(w)
        markers = {}
        for fw in writers:
            files[fw.relpath] = fw.text()
            for m, (ln, exp) in fw.markers.items():
                markers[m] = [fw.relpath, ln, exp]
        main_w = writers[-1]
        return {"files": files, "markers": markers, "kind": kind, "min_version": self.min_version, "app_only": self.app_only,
                "repeats": {str(v): [main_w.relpath, ls] for v, ls in main_w.repeats.items()},
                "repeat_bytes": {v: [main_w.relpath, ls] for v, ls in main_w.repeat_bytes.items()}}


SESSION_HEADER = """import os
import sys
from feature_gates import FeatureGates
FeatureGates.set_sourcemap_enabled(True)
import pyteal as pt
sys.path.insert(0, os.path.join(os.path.dirname(os.path.dirname(os.path.abspath(__file__))), "shared"))
"""

SESSION_FOOTER = """

def _c15_session(argv):
    import json
    base, out, steps = os.path.realpath(argv[1]), argv[2], json.loads(argv[3])
    builders = {"p1": build_p1, "p2": build_p2, "router": build_router}
    results = []
    for st in steps:
        res = {"step": st}
        try:
            os.chdir(os.path.join(base, st["cwd"]))
            res["cwd"] = os.getcwd()
            if st["prog"] == "router":
                rr = builders["router"]().compile(version=st["version"], with_sourcemaps=True, annotate_teal=st["annotate"],
                                                  annotate_teal_concise=st["concise"])
                progs = [(rr.approval_teal, rr.approval_sourcemap, None), (rr.clear_teal, rr.clear_sourcemap, None)]
            else:
                ast_ = builders[st["prog"]]()
                r = pt.Compilation(ast_, pt.Mode.Application, version=st["version"]).compile(
                    with_sourcemap=True, teal_filename=st["teal_filename"], annotate_teal=st["annotate"], annotate_teal_concise=st["concise"])
                progs = [(r.teal, r.sourcemap, pt.compileTeal(ast_, pt.Mode.Application, version=st["version"]))]
            res["programs"] = []
            for teal, sm, plain in progs:
                r3 = sm.r3_sourcemap
                res["programs"].append({
                    "teal": teal, "same_ast_plain": plain, "annotated": sm.annotated_teal, "json": r3.to_json(),
                    "index": [list(cs) for cs in r3.index], "root": r3.source_root, "file_lines": r3.file_lines,
                    "entries": [[l, c, e.source, e.source_line, e.source_column, e.name] for (l, c), e in r3.entries.items()]})
        except Exception as e:
            import traceback
            res["error"] = [type(e).__name__, str(e)[:1500], traceback.format_exc()[-1500:]]
        results.append(res)
    with open(out, "w") as f:
        json.dump(results, f)


if __name__ == "__main__":
    _c15_session(sys.argv)
"""


def session_project(rng):
    """Files for a multi-compilation session: library modules under shared/ (put on sys.path by the driver),
    the driver app/driver.py with build_p1 / build_p2 / build_router, and empty working directories at
    different depths.  Paths are relative to the session root; markers map value -> [relpath, line, expected]."""
    g = Gen(rng, {"stmts": 14, "depth": 2, "lib_stmts": 6})
    avail = {"subs": [], "macros": [], "consts": [], "app": True, "itxn": False}
    writers, imports = [], []
    for i, (rel, mod) in enumerate([("shared/lib_s1.py", "lib_s1"), ("shared/spkg/lib_s2.py", "spkg.lib_s2")]):
        w, names = g.lib(rel, i + 1, list(imports), avail, 2, 1, 1, 2)
        writers.append(w)
        imports.append("from %s import %s" % (mod, ", ".join(names["subs"] + names["macros"] + names["consts"])))
        for k in names:
            avail[k] += names[k]
    w = FileWriter("app/driver.py", 0)
    w.add(SESSION_HEADER.rstrip("\n"))
    for l in imports:
        w.add(l)
    w.add("")
    w.add("sv1 = pt.ScratchVar(pt.TealType.uint64)")
    w.add("sv2 = pt.ScratchVar(pt.TealType.uint64)")
    ctx = dict(avail)
    ctx["vars"] = ["sv1", "sv2"]
    for name in ("p1", "p2"):
        w.add("")
        w.add("def build_%s():" % name)
        w.add("    return pt.Seq(")
        g.budget = 12
        while g.budget > 0:
            g.stmts(w, 8, 1, ctx, n=3, expected=False)
        w.add("        pt.Pop(%s + pt.Int({M}))," % avail["consts"][0], expected=False)
        w.add("        pt.Int({M}),", expected=False)
        w.add("    )")
    w.add("")
    w.add("def build_router():")
    w.add('    router = pt.Router("sess", pt.BareCallActions(')
    w.add("        no_op=pt.OnCompleteAction.create_only(pt.Seq(pt.Pop(%s(pt.Int({M}))), pt.Approve()))," % avail["subs"][0], expected=False)
    w.add("    ), clear_state=pt.Seq(pt.Pop(pt.Int({M})), pt.Approve()))", expected=False)
    w.add("    @router.method")
    w.add("    def m1(a: pt.abi.Uint64, *, output: pt.abi.Uint64):")
    w.add("        return pt.Seq(")
    g.budget = 4
    g.stmts(w, 12, 2, ctx, n=2, expected=False)
    w.add("            output.set(a.get() + pt.Int({M})),", expected=False)
    w.add("        )")
    w.add("    return router")
    w.add(SESSION_FOOTER.rstrip("\n"))
    writers.append(w)
    files = {"shared/spkg/__init__.py": "", "projA/.keep": "", "projB/build/.keep": "", "projC/.keep": "", "deep/er/dir/.keep": ""}
    markers = {}
    for fw in writers:
        files[fw.relpath] = fw.text()
        for m, (ln, exp) in fw.markers.items():
            markers[m] = [fw.relpath, ln, exp]
    return {"files": files, "markers": markers, "kind": "session", "min_version": max(g.min_version, 6), "app_only": True}



def known_internal_path_project():
    """Replay of the finding `internal-path-substring`: a user module whose path contains one of
    StackFrame._internal_paths as a substring (here 'pyteal/ast' inside 'learnpyteal/astro/')."""
    lib = FileWriter("learnpyteal/astro/mod.py", 1)
    lib.add("import pyteal as pt")
    lib.add("")
    lib.add("def piece():")
    lib.add("    return pt.Seq(")
    lib.add("        pt.Pop(pt.Int({M})),")
    lib.add("        pt.Pop(pt.Int({M})),")
    lib.add("    )")
    w = FileWriter("main.py", 0)
    w.add(HEADER.rstrip("\n"))
    w.add("from learnpyteal.astro.mod import piece")
    w.add("")
    w.add("def build():")
    w.add("    return pt.Seq(")
    w.add("        piece(),")
    w.add("        pt.Int({M}),")
    w.add("    )")
    w.add(FOOTER.rstrip("\n"))
    files = {"learnpyteal/__init__.py": "", "learnpyteal/astro/__init__.py": "", lib.relpath: lib.text(), w.relpath: w.text()}
    markers = {}
    for fw in (lib, w):
        for m, (ln, exp) in fw.markers.items():
            markers[m] = [fw.relpath, ln, exp]
    return {"files": files, "markers": markers, "kind": "expr", "min_version": 2, "app_only": False}


def known_trailing_blanks_project():
    """Replay of the finding `annotate-trailing-blanks`: the longest TEAL line is a comment that ends
    in three blanks; tabulate strips them and PyTeal's own validation of the annotated text raises."""
    w = FileWriter("main.py", 0)
    w.add(HEADER.rstrip("\n"))
    w.add("")
    w.add("def build():")
    w.add("    return pt.Seq(")
    w.add('        pt.Comment("a comment that is the longest line of the program and ends in blanks   ", pt.Pop(pt.Int({M}))),')
    w.add("        pt.Int({M}),")
    w.add("    )")
    w.add(FOOTER.rstrip("\n"))
    markers = {m: [w.relpath, ln, exp] for m, (ln, exp) in w.markers.items()}
    return {"files": {w.relpath: w.text()}, "markers": markers, "kind": "expr", "min_version": 2, "app_only": False}


def known_t2pt_comment_project():
    """Replay of the finding `t2pt-comment-in-user-line`: a user line whose comment contains `# T2PT5` is taken for
    compiler-generated code and the inference pass re-attributes its constant to the NEXT TEAL line's frame."""
    w = FileWriter("main.py", 0)
    w.add(HEADER.rstrip("\n"))
    w.add("")
    w.add("def build():")
    w.add("    return pt.Seq(")
    w.add("        pt.Pop(pt.Int({M})  # T2PT5 a user comment")
    w.add("               + pt.Int({M})),")
    w.add("        pt.Int({M}),")
    w.add("    )")
    w.add(FOOTER.rstrip("\n"))
    markers = {m: [w.relpath, ln, exp] for m, (ln, exp) in w.markers.items()}
    return {"files": {w.relpath: w.text()}, "markers": markers, "kind": "expr", "min_version": 2, "app_only": False}


def known_gate_slots_project():
    """Replay of the finding `gate-renumbers-slots`: with the feature gate on, Router._build_program re-frames
    the generated ASTs and thereby evaluates ABI method subroutines EARLY (NatalStackFrame._walk_asts calls
    get_declaration_by_option), so ScratchSlot ids are handed out in another order and the emitted slot numbers
    differ from those of the same source compiled with source mapping disabled (versions without frame pointers)."""
    w = FileWriter("main.py", 0)
    w.add(HEADER.rstrip("\n"))
    w.add("")
    w.add("@pt.Subroutine(pt.TealType.uint64)")
    w.add("def helper(x):")
    w.add("    return x + pt.Int({M})")
    w.add("")
    w.add("def build_router():")
    w.add('    router = pt.Router("c15", pt.BareCallActions(')
    w.add("        no_op=pt.OnCompleteAction.create_only(pt.Seq(pt.Pop(helper(pt.Int({M}))), pt.Approve()))),")
    w.add("        clear_state=pt.Approve())")
    w.add("    @router.method")
    w.add("    def m1(a: pt.abi.Uint64):")
    w.add("        return pt.Pop(a.get() + pt.Int({M}))")
    w.add("    return router")
    w.add(FOOTER.rstrip("\n"))
    markers = {m: [w.relpath, ln, exp] for m, (ln, exp) in w.markers.items()}
    return {"files": {w.relpath: w.text()}, "markers": markers, "kind": "router", "min_version": 6, "app_only": True}


if __name__ == "__main__":
    import random
    import sys
    g = Gen(random.Random(int(sys.argv[1]) if len(sys.argv) > 1 else 0), {"stmts": 30})
    pr = g.project(sys.argv[2] if len(sys.argv) > 2 else "expr")
    for rel, t in pr["files"].items():
        print("=====", rel)
        print(t)
    print(json.dumps(pr["markers"])[:400], pr["min_version"])
