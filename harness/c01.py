"""C01 — compiled TEAL computes what the PyTeal expression denotes."""
import json
import sys

from common import *  # noqa

ensure_env()
from progcorpus import *  # noqa

PROOF_FILES = ["Proofs/LowerFrame.v", "Proofs/LowerLemmas.v", "Proofs/LowerCorrect.v",
               # stages: addIncoming/NormalizeBlocks, sortBlocks, flattenBlocks
               "Proofs/LowerShape.v", "Proofs/NormalizeSem.v", "Proofs/NormalizeGraph.v", "Proofs/IncomingProof.v", "Proofs/NormalizeCorrect.v",
               "Proofs/NormalizeExamples.v", "Proofs/NormalizeLowered.v", "Proofs/SortCorrect.v", "Proofs/FlattenCorrect.v",
               # composition: source semantics -> flattened instruction list of one routine
               "Proofs/EndToEndExits.v", "Proofs/EndToEndGlue.v", "Proofs/EndToEnd.v", "Proofs/EndToEndTyped.v", "Proofs/EndToEndOpt.v",
               "Proofs/EndToEndOptExample.v", "Proofs/EndToEndExamples.v",
               # slot assignment: rewriting abstract slots to assigned numbers is a semantic identity; composed with the above
               "Proofs/SlotCompose.v", "Proofs/SlotComposeAssign.v", "Proofs/SlotComposeEnd.v", "Proofs/SlotComposeCover.v",
               "Proofs/SlotComposeFinal.v", "Proofs/SlotComposePipeline.v", "Proofs/SlotComposeExamples.v",
               # stage E: the emitted TEXT parses back to the instruction list; Machine.run on the parsed program gives the denoted verdict
               "Proofs/StageELink.v", "Proofs/StageEText.v", "Proofs/StageELiterals.v", "Proofs/StageECompose.v", "Proofs/StageEFlatten.v",
               "Proofs/StageEPipeline.v", "Proofs/StageEExamples.v",
               # late-pass totality: the "sort/flatten succeed" hypotheses of the end-to-end theorems are discharged (Props/C20_late.v)
               "Proofs/LatePassTotalReach.v", "Proofs/LatePassTotalNorm.v", "Proofs/LatePassTotal.v", "Proofs/LatePassTotalExamples.v", "Proofs/LatePassTotalProgram.v", "Proofs/LatePassTotalOpt.v", "Proofs/LatePassTotalAccept.v"]
EXTRA_PROPS = ["Props/C01_normalize.v", "Props/C01_flatten.v", "Props/C01_end_to_end.v", "Props/C01_slots.v", "Props/C01_text.v", "Props/C20_late.v"]


def sem_check(ck, model, rng, c, nctx, stats):
    """Run the real TEAL and the source semantics on nctx contexts; return list of failing dicts."""
    fails = []
    for _ in range(nctx):
        ctx = gen_context(rng, c.app)
        a = run_teal(model, ctx, c.real[1])
        d = run_denote(model, ctx, c)
        oa, od = observable(a), observable(d)
        ck.count(("sem", c.wire_prog, c.wire_opts, sx(ctx)))
        if oa is None or od is None:
            stats["inconclusive"] = stats.get("inconclusive", 0) + 1
            continue
        stats[oa[0]] = stats.get(oa[0], 0) + 1
        if oa != od:
            fails.append({"kind": "semantic", "case": c.describe(), "ctx": sx(ctx), "avm": repr(a)[:3000], "denote": repr(d)[:3000], "_case": c})
    return fails


def replay(path):
    import pyteal as pt
    data = json.load(open(path))
    print(json.dumps({k: data[k] for k in data if k in ("what", "kind", "broken")}, indent=1))
    if "case" not in data:
        return 0
    model = Model()
    case = data["case"]
    recipe = eval(case["recipe"])
    c = compile_case(pt, model, recipe, case["version"], case["mode"] == "app", case["scratch_slots"], case["frame_pointers"])
    print("real:", c.real[0], "model agrees:", same_outcome(c))
    if c.real[0] == "ok" and "ctx" in data:
        ctx = parse_sx(data["ctx"])
        a = run_teal(model, ctx, c.real[1])
        d = run_denote(model, ctx, c)
        print("avm   :", repr(a)[:1500])
        print("denote:", repr(d)[:1500])
        return 1 if observable(a) != observable(d) else 0
    return 0


def main(argv):
    args = parse_args(argv)
    if args.replay:
        return replay(args.replay)
    ck = Check("C01", args.tier)
    thorough = args.tier == "thorough"
    import pyteal as pt
    rc, out = sh("%s %s/harness/translate.py" % (PY, VERIF))
    if rc != 0:
        ck.violation("translator aborted: PyTeal's tables no longer have the expected shape", {"broken": "harness/translate.py", "log": out[-2000:]}, no_failing_input=True)
        return ck.finish(level="proof", rule="translator failed")
    ck.run_proofs("Props/C01.v", PROOF_FILES, extra_targets=["Extract/Main.vo"], extra_props=EXTRA_PROPS)
    model = Model()
    rng = ck.rng
    mismatches, semfails, stats, outcomes = [], [], {}, {}
    # the AVM model itself is validated against data recorded from a real node (a disagreement is a MODEL defect: exit 2)
    try:
        import avm_validate
        ck.coverage["avm_validation"] = avm_validate.validate(ck, model, thorough=thorough)
    except ImportError:
        ck.notes.append("harness/avm_validate.py not present: AVM model validation skipped")

    def consider(c, nctx, force_ac=False):
        if c.real[0] == "build-exc":
            outcomes["unbuildable"] = outcomes.get("unbuildable", 0) + 1
            return
        so = same_outcome(c)
        key = c.real[0] if c.real[0] != "exc" else c.real[1]
        outcomes[key] = outcomes.get(key, 0) + 1
        ck.count(("compile", c.wire_prog, c.wire_opts), nontrivial=(c.real[0] == "ok"))
        if so is None:
            outcomes["model-unsupported"] = outcomes.get("model-unsupported", 0) + 1
        elif not so:
            mismatches.append(c)
        if c.real[0] == "ok":
            semfails.extend(sem_check(ck, model, rng, c, nctx if so else max(nctx, 12), stats))
            if c.version >= 3 and (force_ac or rng.random() < 0.35):
                # the same program with assembleConstants=True must behave identically (constant blocks)
                r2 = call_real(lambda: pt.compileTeal(c.expr, mode_of(pt, c.app), version=c.version, optimize=optimize_of(pt, c.ss, c.fp), assembleConstants=True))
                outcomes["assembleConstants:" + (r2[0] if r2[0] != "exc" else r2[1])] = outcomes.get("assembleConstants:" + (r2[0] if r2[0] != "exc" else r2[1]), 0) + 1
                if r2[0] == "ok":
                    saved = c.real
                    c.real = r2
                    f2 = sem_check(ck, model, rng, c, nctx, stats)
                    for f in f2:
                        f["assembleConstants"] = True
                    semfails.extend(f2)
                    c.real = saved
                elif r2[1] not in PYTEAL_ERRORS:
                    semfails.append({"kind": "crash", "case": c.describe(), "assembleConstants": True, "avm": r2[1], "denote": "TEAL expected"})
            ck.sample({"recipe": repr(c.recipe)[:400], "version": c.version, "mode": "app" if c.app else "sig", "teal_lines": len(c.real[1].split("\n"))}, limit=5)

    # 0. glue around the modelled core: field / state accessor wrappers, judged by their NAMES (see c01_glue.py)
    import c01_glue
    gn, gproblems = c01_glue.check(pt)
    ck.coverage["accessor_wrappers_checked"] = gn
    for i in range(gn):
        ck.count(("glue", i))
    for gp in gproblems[:5]:
        semfails.append({"kind": "accessor", "case": gp, "avm": gp[:300], "denote": "the field / operands the accessor's name and signature promise"})

    # 0b. witness of the known finding optimizer-orphan-store (always replayed; printed as KNOWN-FINDING only while it still fails)
    _ld = ("op", "load", (("slot", "wx"),), "u", ())
    _fee = ("op", "%", (), "u", (("op", "txn", ("Fee",), "u", ()), I(100)))
    w_orphan = ("return", ("op", "==", (), "u", (("op", "-", (), "u", (I(5000000), ("seq", ("op", "store", (("slot", "wx"),), "n", (I(1),)),
                                                                                         ("op", "store", (("slot", "wx"),), "n", (_fee,)), _ld))),
                                                  ("op", "-", (), "u", (I(5000000), _fee)))))
    consider(compile_case(pt, model, w_orphan, 6, True, True, None), 4)

    # 0c. free-form programs outside the recipe language, judged against meanings computed in Python (c01_free.py)
    import c01_free
    nfree = 0
    for name, minv, build, expect in c01_free.programs(pt):
        for version in ([v for v in (4, 5, 6, 7, 8, 9, 10) if v >= minv] if thorough else [v for v in (minv, 6, 8, 10) if v >= minv]):
            for ss in (None, True):
                r = call_real(lambda: pt.compileTeal(build(), pt.Mode.Application, version=version, optimize=pt.OptimizeOptions(scratch_slots=ss)))
                ck.count(("free", name, version, ss), nontrivial=(r[0] == "ok"))
                nfree += 1
                if r[0] != "ok":
                    semfails.append({"kind": "free", "case": "%s v%d scratch_slots=%s" % (name, version, ss), "avm": "compileTeal: %s %s" % (r[1], (r[2] if len(r) > 2 else "")[:200]),
                                     "denote": "TEAL expected (the program is well-typed and within every limit)"})
                    continue
                for _ in range(2):
                    ctx = gen_context(rng, True)
                    fee, amt, a0 = c01_free.ctx_fields(ctx)
                    a = run_teal(model, ctx, r[1])
                    o = observable(a)
                    if o is None:
                        continue
                    want = expect(fee, amt, a0)
                    if want is None:
                        okv = o[0] == repr(S("fail"))
                        wtxt = "fail"
                    else:
                        wv = repr(S("approve")) if want[0] else repr(S("reject"))
                        logs = [e[1] for e in a[3][1:] if isinstance(e, list) and e and e[0] == S("log")] if o[0] == repr(S("approve")) else None
                        okv = o[0] == wv and (logs is None or [bytes(x) if not isinstance(x, bytes) else x for x in logs] == list(want[1]))
                        wtxt = "%s logs=%s" % (wv, [x.hex() for x in want[1]])
                    if not okv:
                        semfails.append({"kind": "free", "case": "%s v%d scratch_slots=%s" % (name, version, ss), "ctx": sx(ctx), "teal": r[1].split("\n"),
                                         "avm": repr(a)[:2500], "denote": "computed in Python from the same fields: " + wtxt[:1500]})
                        break
    ck.coverage["free_form_program_variants"] = nfree

    # 1. exhaustive small shapes x versions x modes
    smalls = small_recipes()
    versions = list(range(2, 11))
    for r in smalls:
        for v in (versions if thorough else [2, 3, 5, 8, 9, 10]):
            for app in (True, False):
                consider(compile_case(pt, model, r, v, app), 1)
    ck.coverage["small_shapes"] = len(smalls)
    # 2. random programs
    n = 6000 if thorough else 700
    hist = {}
    for i in range(n):
        version, app, ss, fp = random_case_params(rng)
        g = Gen(rng, version, app, size=rng.choice([5, 10, 20, 40, 60]), allow_new_ops=0.02)
        r = g.program(depth=rng.choice([1, 2, 3, 4]))
        init = tuple(("op", "store", (("slot", k),), "n", ((I(0) if t == "u" else B(b"")),)) for k, t in g.vars.items())
        if init and rng.random() < 0.9:
            # make the final value of every variable OBSERVABLE: in application mode (log exists from v5) the program ends by
            # logging each variable, so a control-flow slip that only changes how often a loop body ran shows in the trace
            epi = ()
            if app and version >= 5 and rng.random() < 0.7:
                epi = tuple(("op", "log", (), "n", ((("op", "itob", (), "b", (("op", "load", (("slot", k),), "u", ()),)) if t == "u"
                                                      else ("op", "load", (("slot", k),), "b", ())),)) for k, t in list(g.vars.items())[:6])
            r = ("seq",) + init + (r,) + epi
        for k, v in g.hist.items():
            hist[k] = hist.get(k, 0) + v
        consider(compile_case(pt, model, r, version, app, ss, fp), 3 if thorough else 2)
    # 3. constant-dense programs, always also compiled with assembleConstants=True: k distinct integer and byte constants
    #    with chosen multiplicities (so that frequency ranks, the pushint/intcblock split at rank 4 and value 128/2^7..2^14
    #    boundaries, and blocks longer than 4 entries are all exercised); the program approves iff the weighted sum of the
    #    constants (bytes contribute their length) is the precomputed total, so a constant loaded from the wrong block
    #    position changes the verdict
    def const_dense(rng):
        smalls_ = [0, 1, 2, 5, 20, 63, 64, 127]
        larges = [128, 129, 255, 256, 1000, 16383, 16384, 2 ** 32, 2 ** 63, 2 ** 64 - 1]
        k = rng.choice([3, 5, 6, 7, 9, 12])
        vals = rng.sample(smalls_, min(len(smalls_), rng.randrange(1, k))) + rng.sample(larges, min(len(larges), k))
        rng.shuffle(vals)
        vals = vals[:k]
        mult = sorted((rng.choice([1, 2, 2, 3, 4, 5, 6]) for _ in vals), reverse=rng.random() < 0.7)
        bts = [bytes([rng.randrange(256)]) * n for n in rng.sample(range(1, 40), rng.choice([0, 2, 3, 6]))]
        bmult = [rng.choice([1, 2, 3]) for _ in bts]
        terms, total = [], 0
        for v, m in zip(vals, mult):
            for _ in range(m):
                # keep the running total below 2^64: large values enter through `% 1009`
                if v >= 2 ** 31:
                    terms.append(("op", "%", (), "u", (I(v), I(1009))))
                    total += v % 1009
                else:
                    terms.append(I(v))
                    total += v
        for b, m in zip(bts, bmult):
            for _ in range(m):
                terms.append(("op", "len", (), "u", (B(b),)))
                total += len(b)
        rng.shuffle(terms)
        # fold the terms into nested binary sums of random shape so that several blocks / stack depths occur
        while len(terms) > 1:
            i = rng.randrange(len(terms) - 1)
            terms[i:i + 2] = [("nary", "+", "u", (terms[i], terms[i + 1]))]
        return ("return", ("op", "==", (), "u", (terms[0], I(total))))

    # 4. store/load-dense programs over a few variables, some with REQUESTED slot ids (low ids, so that the automatic counter has
    #    to step over them), some accessed through their slot number: compiled with the optimiser off and compared with the source
    #    semantics, in which every variable is a cell of its own (the model's assignment is proved injective) - an aliasing
    #    assignment in the real compiler changes logged values
    from c03 import store_dense_recipe
    n_sd = 300 if thorough else 50
    for i in range(n_sd):
        version = rng.choice([5, 6, 8, 10])
        app = rng.random() < 0.8
        prepare, recipe = store_dense_recipe(rng, version, app, low_ids=True)
        consider(compile_case(pt, model, recipe, version, app, False, None, prepare=prepare), 2)
    ck.coverage["store_dense_requested_id_programs"] = n_sd

    # 5. loop-control programs: nested While/For loops over small counters whose bodies Break/Continue under conditions on the
    #    counters (in one arm, in both arms, in nested Ifs), with statements after the loops and further loops; an accumulator is
    #    updated in every body, logged where logs exist, and decides the verdict - so HOW OFTEN and IN WHICH ORDER bodies ran is
    #    observable (a wrong branch polarity or a Continue bound to the wrong loop changes the accumulator)
    def loop_ctrl(rng, version, app):
        ld = lambda k: ("op", "load", (("slot", k),), "u", ())
        st = lambda k, e: ("op", "store", (("slot", k),), "n", (e,))
        add = lambda *a: ("nary", "+", "u", tuple(a))
        mul = lambda *a: ("nary", "*", "u", tuple(a))
        eq = lambda a, b: ("op", "==", (), "u", (a, b))
        lt = lambda a, b: ("op", "<", (), "u", (a, b))
        mod = lambda a, b: ("op", "%", (), "u", (a, b))
        can_log = app and version >= 5
        names = iter(["i", "j", "k", "m"])

        def cond(cs):
            c = rng.choice(cs)
            kind = rng.choice(["eq", "mod", "sum", "lt", "txn"])
            if kind == "eq":
                return eq(ld(c), I(rng.choice([0, 1, 2, 3])))
            if kind == "mod":
                return eq(mod(ld(c), I(2)), I(rng.choice([0, 1])))
            if kind == "sum":
                return eq(add(*[ld(x) for x in cs]), I(rng.choice([1, 2, 3, 4])))
            if kind == "lt":
                return lt(ld(c), I(rng.choice([1, 2, 3])))
            return lt(("op", "txn", ("Fee",), "u", ()), I(rng.choice([0, 1, 2000])))

        def upd(cs):
            return st("acc", mod(add(mul(ld("acc"), I(rng.choice([3, 5, 7]))), ld(rng.choice(cs)), I(rng.choice([1, 2, 11]))), I(1000003)))

        def simple(cs):
            if can_log and rng.random() < 0.4:
                return ("op", "log", (), "n", (("op", "itob", (), "b", (ld("acc"),)),))
            return upd(cs)

        def ctrl():
            return rng.choice(["break", "continue"])

        def stmt(cs, depth, in_loop):
            k = rng.choice(["simple", "simple", "ifctrl", "ifelse", "nested-if", "loop", "both-arms"] if in_loop else ["simple", "ifelse", "loop", "loop"])
            if k == "simple":
                return simple(cs)
            if k == "ifctrl":
                return ("if", cond(cs), ctrl())
            if k == "ifelse":
                return ("if", cond(cs), simple(cs), simple(cs))
            if k == "nested-if":
                return ("if", cond(cs), ("if", cond(cs), ctrl()), rng.choice([simple(cs), ("seq", simple(cs), ("if", cond(cs), ctrl()))]))
            if k == "both-arms":
                return ("if", cond(cs), rng.choice([ctrl(), ("seq", simple(cs), ctrl())]), rng.choice([ctrl(), simple(cs), ("seq", simple(cs), ctrl())]))
            if depth >= 2:
                return simple(cs)
            return loop(cs, depth + 1)

        def loop(cs, depth):
            c = next(names, None)
            if c is None:
                return simple(cs)
            cs2 = cs + [c]
            n = rng.choice([2, 3, 4])
            body = [stmt(cs2, depth, True) for _ in range(rng.choice([0, 1, 2, 3]))]
            if rng.random() < 0.3 or not body:
                body.append(ctrl())              # a TOP-LEVEL Break/Continue as the body's last statement (or its only one)
            if rng.random() < 0.5:
                return ("for", st(c, I(0)), lt(ld(c), I(n)), st(c, add(ld(c), I(1))), ("seq",) + tuple(body))
            # While with the increment first, so that Continue cannot spin
            return ("seq", st(c, I(0)), ("while", lt(ld(c), I(n)), ("seq", st(c, add(ld(c), I(1)))) + tuple(body)))

        top = [st("acc", I(1))] + [st(x, I(0)) for x in ["i", "j", "k", "m"]]
        for _ in range(rng.choice([2, 3, 4])):
            top.append(stmt(["acc"], 0, False))
        if can_log:
            top.append(("op", "log", (), "n", (("op", "itob", (), "b", (ld("acc"),)),)))
        top.append(("return", eq(mod(ld("acc"), I(2)), I(rng.choice([0, 1])))))
        return ("seq",) + tuple(top)

    n_lc = 500 if thorough else 90
    for i in range(n_lc):
        version = rng.choice([4, 5, 6, 8, 10])
        app = rng.random() < 0.7
        consider(compile_case(pt, model, loop_ctrl(rng, version, app), version, app, rng.choice([None, False]), None), 2)
    ck.coverage["loop_control_programs"] = n_lc

    # 6. arithmetic-edge expressions: nested n-ary / binary operators over values at the overflow and zero boundaries, grouped to the
    #    right and to the left (a regrouped product or sum fails - or stops failing - on overflow), the same Python OBJECT used for two
    #    operands (("shared", ...): the tree semantics evaluates it twice, effects included), itob/btoi round trips on short inputs
    def arith_edge(rng, version, app):
        E = [0, 1, 2, 3, 255, 2 ** 32, 2 ** 40, 2 ** 63, 2 ** 64 - 1]
        leaf = lambda: rng.choice([I(rng.choice(E)), I(rng.choice(E)), ("op", "txn", ("Fee",), "u", ()), ("op", "btoi", (), "u", (("op", "txn", ("Note",), "b", ()),)) ])

        def nest(op, depth):
            if depth == 0:
                return leaf()
            l, r = nest(op, depth - 1) if rng.random() < 0.5 else leaf(), nest(op, depth - 1) if rng.random() < 0.7 else leaf()
            if op in ("+", "*", "&&", "||"):
                args = (l, r) if rng.random() < 0.6 else (l, leaf(), r)
                return ("nary", op, "u", args)
            return ("op", op, (), "u", (l, r))

        kind = rng.choice(["nest", "nest", "shared", "roundtrip", "mixed"])
        if kind == "nest":
            e = nest(rng.choice(["*", "*", "+", "-", "/", "%"] + (["exp", "shl", "shr"] if version >= 4 else [])), rng.choice([1, 2, 3]))
        elif kind == "mixed":
            e = ("nary", "+", "u", (nest("*", 2), ("op", "-", (), "u", (nest("+", 1), leaf()))))
        elif kind == "shared":
            # an effectful value used twice through ONE object: a global counter that is bumped and read
            key = ("op", "byte", ("0x6b",), "b", ())
            bump = ("seq", ("op", "app_global_put", (), "n", (key, ("nary", "+", "u", (("op", "app_global_get", (), "a", (key,)), I(1))))), ("op", "app_global_get", (), "a", (key,)))
            sh = ("shared", "s1", bump if (app and rng.random() < 0.7) else nest("+", 1))
            e = ("op", rng.choice(["<", "==", "-", "/", "<="]), (), "u", (sh, sh)) if rng.random() < 0.6 else ("nary", rng.choice(["+", "*"]), "u", (sh, leaf(), sh))
        else:
            b = rng.choice([("op", "txn", ("Note",), "b", ()), ("op", "byte", ("0x05",), "b", ()), ("op", "byte", ("0x0102030405060708",), "b", ()), ("op", "byte", ("0x",), "b", ())])
            e = ("op", "len", (), "u", (("op", "itob", (), "b", (("op", "btoi", (), "u", (b,)),)),)) if rng.random() < 0.5 else ("op", "btoi", (), "u", (("op", "itob", (), "b", (leaf(),)),))
        if app and version >= 5 and rng.random() < 0.6:
            return ("seq", ("op", "log", (), "n", (("op", "itob", (), "b", (e,)),)), ("exit", I(1)))
        return ("return", ("op", "<", (), "u", (e, I(rng.choice(E)))))

    n_ae = 500 if thorough else 90
    for i in range(n_ae):
        version = rng.choice([2, 4, 5, 6, 8, 10])
        app = rng.random() < 0.7
        consider(compile_case(pt, model, arith_edge(rng, version, app), version, app, None, None), 3)
    ck.coverage["arithmetic_edge_programs"] = n_ae

    # 7. routine tails: the last statement of the main routine is an If / Cond / nested combination in which SOME arms leave the program
    #    (Approve/Reject/Return) and others do not - whether the compiler appends its implicit return, rejects the program, or lets a
    #    path run off the end is decided by has_return of each construct
    def tails():
        pop = lambda n: ("op", "pop", (), "n", (I(n),))
        c1, c2 = ("op", "txn", ("Fee",), "u", ()), ("op", "<", (), "u", (("op", "txn", ("Amount",), "u", ()), I(7)))
        ex0, ex1, ret = ("exit", I(0)), ("exit", I(1)), ("return", I(1))
        arms = [pop(1), ex0, ex1, ret, ("seq", pop(2), ex1)]
        out = []
        for a in arms:
            for b in arms:
                out.append(("seq", pop(9), ("if", c1, a, b)))
                out.append(("seq", pop(9), ("cond", (c1, a), (I(1), b))))
                out.append(("seq", pop(9), ("cond", (c1, a), (c2, b), (I(1), a))))
                out.append(("seq", pop(9), ("if", c1, ("if", c2, a, b), b)))
            out.append(("seq", pop(9), ("if", c1, a)))
        return out

    tl = tails()
    for r in tl:
        for v in ([2, 6, 9] if not thorough else [2, 4, 6, 8, 9, 10]):
            consider(compile_case(pt, model, r, v, True), 2)
    ck.coverage["routine_tail_shapes"] = len(tl)

    n_cd = 400 if thorough else 60
    for i in range(n_cd):
        version = rng.choice([3, 4, 5, 6, 8, 10])
        app = rng.random() < 0.5
        consider(compile_case(pt, model, const_dense(rng), version, app, None, None), 1, force_ac=True)
    ck.coverage["constant_dense_programs"] = n_cd
    ck.coverage["constructor_histogram"] = hist
    ck.coverage["compile_outcomes"] = outcomes
    ck.coverage["run_verdicts"] = stats

    # ---- known finding: the optimiser's orphan stores (class predicate computed by the Coq optimiser model, and only when the model
    #      reproduces the real text exactly); everything else stays a violation
    import c02 as C02
    kept, orphan_hits = [], 0
    for f in semfails:
        c_ = f.get("_case")
        if c_ is not None and same_outcome(c_) and "optimizer-orphan-store" in C02.classify(model, c_) and ck.match_known(lambda k: k.get("id") == "optimizer-orphan-store"):
            orphan_hits += 1
        else:
            kept.append(f)
    if orphan_hits:
        ck.known("optimizer-orphan-store", "the scratch-slot optimiser deletes stores that have no cancelling load (value left on the stack): %d generated program run(s) with the optimiser on "
                 "disagree with the source semantics, each in the class `opt-orphans non-empty and model text = real text`" % orphan_hits)
    ck.coverage["failures_attributed_to_known_classes"] = {"optimizer-orphan-store": orphan_hits}
    semfails = kept
    for f in semfails:
        f.pop("_case", None)
    # ---- verdict
    for f in semfails[:5]:
        ck.violation("real TEAL and the source semantics disagree: avm=%s denote=%s" % (f["avm"][:80], f["denote"][:80]), f)
    if mismatches and not semfails:
        c = mismatches[0]
        ck.violation("correspondence broken: compile_model text differs from compileTeal on %d generated programs (theorems about Comp/ no longer transfer); the semantic search over all generated contexts found no wrong behaviour" % len(mismatches),
                     {"kind": "correspondence", "broken": "text equality compileTeal vs Comp.Compile.compile_model", "case": c.describe()}, no_failing_input=True)
    if not ck.proof_ok and not semfails:
        ck.violation("proof obligation broken: Props/C01*.v no longer check", {"kind": "proof", "broken": "Props/C01.v, Props/C01_normalize.v, Props/C01_flatten.v, Props/C01_end_to_end.v, Props/C01_slots.v, Props/C01_text.v", "log": ck.proof_log[-1500:]}, no_failing_input=True)
    ck.coverage["disagreements_checked"] = len(mismatches) + len(semfails)
    ck.coverage["programs"] = sum(outcomes.values())
    model.close()
    return ck.finish(
        level="proof",
        rule="recipes: exhaustive small control-flow shapes x versions x modes, then seeded random well-typed programs (sizes 5..60 nodes) over versions 2..10, both modes, "
             "OptimizeOptions matrix; each compiled by the real compiler and by the Coq model (text/error-class equality), each successful output executed on the extracted AVM "
             "against the recipe's source semantics on generated contexts; distinct = (recipe, options[, context]); non-trivial = compiles successfully",
        trusted_base=[
            "AVM semantics coq/AVM (hand-written spec; retsub/return rules inferred), TEAL parser coq/AVM/Parse.v",
            "Source semantics coq/Src/Denote.v (meaning of each constructor, from PyTeal's documentation)",
            "Comp/*.v is a hand model of pyteal/ast/*.__teal__, ir/tealblock.py, compiler/*.py tied by exact text equality on every run; Gen/Tables.v regenerated from the code",
            "harness/build.py maps recipe nodes to public PyTeal constructors",
            "Extraction: ExtrOcamlBasic + ExtrOcamlNativeString; driver.ml",
        ])


if __name__ == "__main__":
    sys.exit(run_main(main))
