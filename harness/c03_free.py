"""Free-form PyTeal programs (features outside the recipe language of build.py: ABIReturnSubroutine with an `output`
parameter, by-reference parameters next to ABI ones, DynamicScratchVar, NamedTuple/tuple element access, recursion through
an ABI-returning routine) for DIFFERENTIAL checks between real compiler outputs.  No source semantics and no compile model
is involved: the programs are compiled by the real compiler under an option matrix and the outputs are run on the extracted
AVM; what is compared is real output against real output (C03), or the verdict against the value the program is written
to produce (every program logs values and approves iff its own arithmetic is right - C02).

Every builder returns a fresh expression (fresh ScratchVars / subroutine objects) on each call."""


def programs(pt):
    abi = pt.abi
    out = []

    def prog(name, min_version=6):
        def deco(f):
            out.append((name, min_version, f))
            return f
        return deco

    @prog("abiret-byref-last")
    def _():
        @pt.ABIReturnSubroutine
        def f(a: abi.Uint64, v: pt.ScratchVar, *, output: abi.Uint64):
            return pt.Seq(v.store(v.load() + a.get()), output.set(v.load() * pt.Int(2)))
        x, arg, res = pt.ScratchVar(pt.TealType.uint64), abi.Uint64(), abi.Uint64()
        return pt.Seq(x.store(pt.Int(5)), arg.set(pt.Txn.fee() % pt.Int(1000)), f(arg, x).store_into(res), pt.Log(pt.Itob(res.get())), pt.Log(pt.Itob(x.load())),
                      pt.Return(pt.And(x.load() == pt.Int(5) + pt.Txn.fee() % pt.Int(1000), res.get() == x.load() * pt.Int(2))))

    @prog("abiret-byref-first")
    def _():
        @pt.ABIReturnSubroutine
        def g(v: pt.ScratchVar, a: abi.Uint64, b: pt.Expr, *, output: abi.Uint64):
            return pt.Seq(v.store(v.load() * pt.Int(3) + b), output.set(v.load() + a.get()))
        x, y, arg, res = pt.ScratchVar(pt.TealType.uint64), pt.ScratchVar(pt.TealType.uint64), abi.Uint64(), abi.Uint64()
        return pt.Seq(x.store(pt.Int(7)), y.store(pt.Int(100)), arg.set(pt.Int(11)), g(x, arg, pt.Int(2)).store_into(res), pt.Log(pt.Itob(res.get())),
                      g(y, arg, pt.Txn.amount() % pt.Int(50)).store_into(res), pt.Log(pt.Itob(res.get())), pt.Log(pt.Itob(x.load())), pt.Log(pt.Itob(y.load())),
                      pt.Return(pt.And(x.load() == pt.Int(23), y.load() == pt.Int(300) + pt.Txn.amount() % pt.Int(50), res.get() == y.load() + pt.Int(11))))

    @prog("abiret-two-byref-mixed")
    def _():
        @pt.ABIReturnSubroutine
        def h(p: pt.Expr, v: pt.ScratchVar, q: abi.Uint8, w: pt.ScratchVar, *, output: abi.Uint64):
            t = pt.ScratchVar(pt.TealType.uint64)
            return pt.Seq(t.store(v.load()), v.store(w.load() + p), w.store(t.load() + q.get()), output.set(v.load() * pt.Int(1000) + w.load()))
        a, b, q, res = pt.ScratchVar(pt.TealType.uint64), pt.ScratchVar(pt.TealType.uint64), abi.Uint8(), abi.Uint64()
        return pt.Seq(a.store(pt.Int(1)), b.store(pt.Int(2)), q.set(pt.Int(9)), h(pt.Int(40), a, q, b).store_into(res), pt.Log(pt.Itob(res.get())),
                      pt.Return(pt.And(a.load() == pt.Int(42), b.load() == pt.Int(10), res.get() == pt.Int(42010))))

    # (a recursive ABIReturnSubroutine that store_into()s its own result takes ~25 s PER COMPILATION on the pinned tree -
    #  ReturnedValue.store_into evaluates the callee's declaration while the expression is being built, see the C11 finding
    #  store-into-evaluates-and-caches - so recursion is exercised through a plain Subroutine around an ABI routine instead)
    @prog("abiret-inside-recursion")
    def _():
        @pt.ABIReturnSubroutine
        def twice(n: abi.Uint64, *, output: abi.Uint64):
            return output.set(n.get() * pt.Int(2))
        @pt.Subroutine(pt.TealType.uint64)
        def walk(n: pt.Expr) -> pt.Expr:
            a, r, keep = abi.Uint64(), abi.Uint64(), pt.ScratchVar(pt.TealType.uint64)
            return pt.Seq(keep.store(n), pt.If(n == pt.Int(0)).Then(pt.Return(pt.Int(1))),
                          a.set(n), twice(a).store_into(r), pt.Return(walk(n - pt.Int(1)) + r.get() + keep.load()))
        return pt.Seq(pt.Log(pt.Itob(walk(pt.Int(3)))), pt.Return(walk(pt.Int(3)) == pt.Int(19)))

    @prog("mutual-recursion-plain-and-abi-output")
    def _():
        # a recursion cycle through a plain Subroutine and an ABI-returning routine with an `output`, both with live locals: under the
        # scratch convention the spill code around each re-entrant call must know whether THAT callee leaves a value
        @pt.ABIReturnSubroutine
        def g(n: abi.Uint64, *, output: abi.Uint64):
            k = pt.ScratchVar(pt.TealType.uint64)
            return pt.Seq(k.store(n.get() * pt.Int(2)), output.set(pt.If(n.get() == pt.Int(0), pt.Int(1), f(n.get() - pt.Int(1)) + k.load())))
        @pt.Subroutine(pt.TealType.uint64)
        def f(x: pt.Expr) -> pt.Expr:
            a, r, keep = abi.Uint64(), abi.Uint64(), pt.ScratchVar(pt.TealType.uint64)
            return pt.Seq(keep.store(x + pt.Int(100)), a.set(x), g(a).store_into(r), pt.Return(r.get() + keep.load()))
        return pt.Seq(pt.Log(pt.Itob(f(pt.Int(2)))), pt.Return(f(pt.Int(2)) == pt.Int(310)))

    @prog("plain-byref-after-values")
    def _():
        @pt.Subroutine(pt.TealType.uint64)
        def acc(a: pt.Expr, b: pt.Expr, v: pt.ScratchVar) -> pt.Expr:
            return pt.Seq(v.store(v.load() + a * b), pt.Return(v.load() + pt.Int(1)))
        x = pt.ScratchVar(pt.TealType.uint64)
        return pt.Seq(x.store(pt.Int(3)), pt.Log(pt.Itob(pt.Int(1000) - acc(pt.Int(4), pt.Int(5), x))), pt.Log(pt.Itob(acc(pt.Int(1), pt.Txn.fee() % pt.Int(7), x))),
                      pt.Return(x.load() == pt.Int(23) + pt.Txn.fee() % pt.Int(7)))

    @prog("byref-bytes-append")
    def _():
        @pt.Subroutine(pt.TealType.none)
        def append_to(accv: pt.ScratchVar, piece: pt.Expr) -> pt.Expr:
            return accv.store(pt.Concat(accv.load(), piece))
        s = pt.ScratchVar(pt.TealType.bytes)
        return pt.Seq(s.store(pt.Bytes("ab")), append_to(s, pt.Bytes("cd")), append_to(s, pt.Itob(pt.Txn.fee())), pt.Log(s.load()),
                      pt.Return(pt.Len(s.load()) == pt.Int(12)))

    @prog("dynamic-scratchvar")
    def _():
        d = pt.DynamicScratchVar(pt.TealType.uint64)
        a, b = pt.ScratchVar(pt.TealType.uint64), pt.ScratchVar(pt.TealType.uint64, 17)
        return pt.Seq(a.store(pt.Int(1)), b.store(pt.Int(2)), d.set_index(a), d.store(d.load() + pt.Int(10)), d.set_index(b), d.store(d.load() + pt.Int(20)),
                      pt.Log(pt.Itob(a.load())), pt.Log(pt.Itob(b.load())), pt.Return(pt.And(a.load() == pt.Int(11), b.load() == pt.Int(22))))

    @prog("store-then-byref-in-branch")
    def _():
        @pt.Subroutine(pt.TealType.uint64)
        def double(v: pt.ScratchVar) -> pt.Expr:
            return pt.Seq(v.store(v.load() * pt.Int(2)), pt.Return(v.load()))
        x, r = pt.ScratchVar(pt.TealType.uint64), pt.ScratchVar(pt.TealType.uint64)
        return pt.Seq(x.store(pt.Txn.fee() % pt.Int(100) + pt.Int(1)), pt.Assert(x.load() > pt.Int(0)), r.store(pt.Int(0)),
                      pt.If(pt.Txn.amount() % pt.Int(2) == pt.Int(0)).Then(r.store(double(x))).Else(r.store(x.load() + pt.Int(5))),
                      pt.Log(pt.Itob(r.load())), pt.Log(pt.Itob(x.load())),
                      pt.Return(pt.Or(r.load() == (pt.Txn.fee() % pt.Int(100) + pt.Int(1)) * pt.Int(2), r.load() == pt.Txn.fee() % pt.Int(100) + pt.Int(6))))

    @prog("store-assert-then-byref-only")
    def _():
        # the variable's ONLY direct load sits right behind its store; every other access goes through the reference
        @pt.Subroutine(pt.TealType.uint64)
        def double(v: pt.ScratchVar) -> pt.Expr:
            return pt.Seq(v.store(v.load() * pt.Int(2)), pt.Return(v.load()))
        x = pt.ScratchVar(pt.TealType.uint64)
        return pt.Seq(x.store(pt.Txn.fee() % pt.Int(100) + pt.Int(1)), pt.Assert(x.load() > pt.Int(0)),
                      pt.Return(double(x) == (pt.Txn.fee() % pt.Int(100) + pt.Int(1)) * pt.Int(2)))

    @prog("store-assert-then-byref-in-branch")
    def _():
        @pt.Subroutine(pt.TealType.uint64)
        def double(v: pt.ScratchVar) -> pt.Expr:
            return pt.Seq(v.store(v.load() * pt.Int(2)), pt.Return(v.load()))
        x, r = pt.ScratchVar(pt.TealType.uint64), pt.ScratchVar(pt.TealType.uint64)
        return pt.Seq(r.store(pt.Int(42)), x.store(pt.Int(21)), pt.Assert(x.load() > pt.Int(0)),
                      pt.If(pt.Txn.amount() % pt.Int(2) == pt.Int(0)).Then(r.store(double(x))).Else(pt.Seq(r.store(double(x)), pt.Log(pt.Itob(r.load())))),
                      pt.Return(r.load() == pt.Int(42)))

    @prog("store-assert-then-dynamic-only")
    def _():
        d = pt.DynamicScratchVar(pt.TealType.uint64)
        x = pt.ScratchVar(pt.TealType.uint64)
        return pt.Seq(d.set_index(x), x.store(pt.Txn.fee() % pt.Int(50) + pt.Int(3)), pt.Assert(x.load() > pt.Int(2)),
                      pt.Log(pt.Itob(d.load())), pt.Return(d.load() == pt.Txn.fee() % pt.Int(50) + pt.Int(3)))

    @prog("reserved-slot-store-assert")
    def _():
        x = pt.ScratchVar(pt.TealType.uint64, 5)
        return pt.Seq(x.store(pt.Txn.fee() % pt.Int(9) + pt.Int(1)), pt.Assert(x.load() > pt.Int(0)),
                      pt.Return(pt.ScratchLoad(index_expression=pt.Int(5)) == pt.Txn.fee() % pt.Int(9) + pt.Int(1)) if hasattr(pt, "ScratchLoad") else pt.Return(pt.Int(1)))

    @prog("sub-tail-cond-default-rejects")
    def _():
        # the LAST statement of a none-typed routine is a Cond whose default arm leaves the program while the other arms fall through to
        # the routine's end: the compiler must still append the return to the caller (has_return of the Cond is False)
        @pt.Subroutine(pt.TealType.none)
        def dispatch(op: pt.Expr) -> pt.Expr:
            return pt.Cond([op == pt.Int(1), pt.App.globalPut(pt.Bytes("n"), pt.Int(1))],
                           [op == pt.Int(2), pt.App.globalPut(pt.Bytes("n"), pt.Int(2))],
                           [pt.Int(1), pt.Reject()])
        @pt.Subroutine(pt.TealType.none)
        def wipe() -> pt.Expr:
            return pt.App.globalDel(pt.Bytes("n"))
        @pt.Subroutine(pt.TealType.uint64)
        def pick(op: pt.Expr) -> pt.Expr:
            return pt.If(op == pt.Int(7)).Then(pt.Return(pt.Int(70))).ElseIf(op == pt.Int(8)).Then(pt.Return(pt.Int(80))).Else(pt.Seq(pt.Pop(op), pt.Return(pt.Int(90))))
        return pt.Seq(dispatch(pt.Int(2)), dispatch(pt.Int(1)), pt.If(pt.Txn.fee() == pt.Int(123456789)).Then(wipe()),
                      pt.Log(pt.Itob(pick(pt.Int(8)) + pick(pt.Int(3)))),
                      pt.Return(pt.And(pt.App.globalGet(pt.Bytes("n")) == pt.Int(1), pick(pt.Int(7)) == pt.Int(70))))

    @prog("anytype-returning-subroutine")
    def _():
        # a routine declared TealType.anytype still returns a value: under frame pointers its proto must say so
        @pt.Subroutine(pt.TealType.anytype)
        def pick(k: pt.Expr) -> pt.Expr:
            return pt.App.globalGet(k)
        @pt.Subroutine(pt.TealType.anytype)
        def pick2(a: pt.Expr, b: pt.Expr) -> pt.Expr:
            t = pt.ScratchVar(pt.TealType.anytype)
            return pt.Seq(t.store(pt.App.globalGet(b)), pt.If(a).Then(pt.Return(t.load())), pt.Return(pt.App.globalGet(pt.Bytes("u"))))
        return pt.Seq(pt.App.globalPut(pt.Bytes("u"), pt.Int(41)), pt.App.globalPut(pt.Bytes("b"), pt.Bytes("xyz")),
                      pt.Log(pt.Itob(pt.Int(1) + pick(pt.Bytes("u")))), pt.Log(pick2(pt.Int(1), pt.Bytes("b"))),
                      pt.Return(pt.And(pt.Int(100) - pick(pt.Bytes("u")) == pt.Int(59), pt.Len(pick(pt.Bytes("b"))) == pt.Int(3), pick2(pt.Int(0), pt.Bytes("b")) == pt.Int(41))))

    @prog("none-sub-if-else-return")
    def _():
        c = pt.ScratchVar(pt.TealType.uint64, 30)
        @pt.Subroutine(pt.TealType.none)
        def bump(n: pt.Expr) -> pt.Expr:
            return pt.If(n > pt.Int(3)).Then(c.store(c.load() + n)).Else(pt.Return())
        @pt.Subroutine(pt.TealType.none)
        def wipe() -> pt.Expr:
            return c.store(pt.Int(0))
        return pt.Seq(c.store(pt.Int(5)), bump(pt.Int(7)), bump(pt.Int(1)), pt.Log(pt.Itob(c.load())),
                      pt.If(pt.Txn.fee() == pt.Int(123456789)).Then(wipe()), pt.Return(c.load() == pt.Int(12)))

    @prog("tuple-elements-and-named")
    def _():
        class P(abi.NamedTuple):
            a: abi.Field[abi.Uint64]
            b: abi.Field[abi.String]
            c: abi.Field[abi.Bool]
        p, a, b, c, o = P(), abi.Uint64(), abi.String(), abi.Bool(), abi.Uint64()
        return pt.Seq(a.set(pt.Txn.fee()), b.set("hello"), c.set(pt.Int(1)), p.set(a, b, c), p.a.store_into(o), p.b.store_into(b), p.c.store_into(c),
                      pt.Log(pt.Itob(o.get())), pt.Log(b.get()), pt.Return(pt.And(o.get() == pt.Txn.fee(), b.get() == pt.Bytes("hello"), c.get())))

    @prog("loop-empty-if-tail")
    def _():
        i = pt.ScratchVar(pt.TealType.uint64)
        return pt.Seq(i.store(pt.Int(0)),
                      pt.Log(pt.Itob(pt.Int(10) - pt.Seq(pt.While(i.load() < pt.Int(3)).Do(pt.Seq(i.store(i.load() + pt.Int(1)), pt.If(pt.Txn.fee() > pt.Int(5)).Then(pt.Seq()))), i.load()))),
                      pt.Return(i.load() == pt.Int(3)))

    return out


def slow_programs(pt):
    """programs whose compilation takes ~25 s each on the pinned tree (a self-recursive ABIReturnSubroutine that store_into()s its
    own result: ReturnedValue.store_into evaluates the callee's declaration while the expression is built); used sparingly"""
    abi = pt.abi

    def abiret_self_recursive():
        @pt.ABIReturnSubroutine
        def padded(n: abi.Uint64, pad: abi.String, *, output: abi.Uint64):
            m, r = abi.Uint64(), abi.Uint64()
            return pt.If(n.get() == pt.Int(0)).Then(output.set(pt.Len(pad.get()))).Else(
                pt.Seq(m.set(n.get() - pt.Int(1)), padded(m, pad).store_into(r), output.set(r.get() + n.get() + pt.Len(pad.get()))))
        n, s, res = abi.Uint64(), abi.String(), abi.Uint64()
        return pt.Seq(n.set(pt.Int(3)), s.set("ab"), padded(n, s).store_into(res), pt.Log(pt.Itob(res.get())), pt.Return(res.get() == pt.Int(14)))
    return [("abiret-self-recursive-mixed-locals", 6, abiret_self_recursive)]


def option_matrix(version, thorough=False):
    ss_opts = (None, True, False)
    fp_opts = (None, True, False) if version >= 8 else (None,)
    for ss in ss_opts:
        for fp in fp_opts:
            yield ss, fp
