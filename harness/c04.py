"""C04 — Successful compilation yields complete, target-legal TEAL.

1. regenerate PyTeal's op/field tables (translate.py, c04_translate.py), build the proofs (Props/C04.v):
   soundness of the legality checker AVM/LegalCheck.v w.r.t. the reference machine, conservativeness of
   PyTeal's tables w.r.t. the independent langspec, injectivity of the label naming scheme;
2. run the EXTRACTED checker on the REAL TEAL of thousands of programs compiled by the real compiler:
   the shared corpus (progcorpus/gen_prog), programs with subroutines (plain, recursive, by-reference,
   ABI, odd names, many), Routers, every op family / field / immediate shape swept over versions 2..10 x
   both modes x option settings; whatever PyTeal accepts must be legal for the target, so a program that
   needs something the target lacks must end in a PyTeal error;
3. a rejected real output is the failing input (replay = family + key + target); known findings are
   recognised by class predicates on the failing instruction, repaired in the text, and the text is
   checked again, so that a known finding never hides a different violation."""
import hashlib
import json
import re
import sys
import time

from common import *  # noqa

ensure_env()
sys.setrecursionlimit(20000)
import c04_gen as G  # noqa
from build import Builder  # noqa
from gen_prog import Gen, I, B  # noqa
from progcorpus import small_recipes, random_case_params, optimize_of, mode_of  # noqa

PROOF_FILES = ["Proofs/LegalCheckSound.v", "Proofs/LegalTables.v", "Proofs/LabelInjective.v", "Proofs/LegalRefuted.v"]

APP_ONLY_GLOBALS = ["Round", "LatestTimestamp", "CurrentApplicationID", "CreatorAddress", "CurrentApplicationAddress",
                    "CallerApplicationID", "CallerApplicationAddress"]
EFFECT_FIELDS = ["Logs", "NumLogs", "CreatedAssetID", "CreatedApplicationID", "LastLog"]


# ---------------------------------------------------------------------------------------------
# the extracted checker
# ---------------------------------------------------------------------------------------------
def msel_of(teal):
    out = {}
    for m in re.finditer(r'^method "((?:[^"\\]|\\.)*)"', teal, re.M):
        s = m.group(1)
        try:
            raw = s.encode("latin-1").decode("unicode_escape").encode("latin-1")
        except Exception:
            raw = s.encode("utf-8")
        out[raw] = hashlib.new("sha512_256", raw).digest()[:4]
    return out


def legal(model, teal, version, app):
    """-> ('ok',) | ('bad', kind, pc, detail) | ('uncovered', kind, pc, detail) | ('error', text)"""
    ms = msel_of(teal)
    req = "(legal %d %s (msel %s) (lines %s))" % (
        version, "app" if app else "sig",
        " ".join("(%s %s)" % (sx_str(k), sx_hex(v)) for k, v in ms.items()),
        " ".join(sx_str(l.encode("utf-8")) for l in teal.split("\n")))
    r = model.ask(req)
    if r and r[0] == S("ok"):
        return ("ok",)
    if r and r[0] in (S("bad"), S("uncovered")):
        return (r[0].name, r[1].name if isinstance(r[1], Sym) else str(r[1]), r[2], r[3] if len(r) > 3 else "")
    return ("error", repr(r)[:300])


# ---------------------------------------------------------------------------------------------
# known findings: class predicate on the verdict (+ target), and the textual repair that removes
# exactly that defect from the text so that the rest of the program is still checked
# ---------------------------------------------------------------------------------------------
def classify(res, teal, version, app):
    """-> (finding id, repaired text, repaired version) or None."""
    if res[0] != "bad":
        return None
    kind, detail = res[1], res[3]
    m = re.fullmatch(r"(\S+) (\d+)", detail)
    if kind == "imm-range" and m and m.group(1) in ("intc", "bytec") and int(m.group(2)) > 255:
        blk = re.search(r"^%sblock (.*)$" % m.group(1), teal, re.M)
        if blk and len(blk.group(1).split(" //")[0].split()) > 256:
            pat = re.compile(r"^(intc|bytec) (\d+)( //.*)?$", re.M)
            return ("const-block-index-over-255", pat.sub(lambda mm: mm.group(0) if int(mm.group(2)) <= 255 else "%s 0" % mm.group(1), teal), version)
    if kind == "field-mode" and not app:
        mm = re.fullmatch(r"(\S+) (\S+)", detail)
        if mm and mm.group(1) == "global" and mm.group(2) in APP_ONLY_GLOBALS:
            return ("app-only-field-in-signature-mode", re.sub(r"^global (%s)$" % "|".join(APP_ONLY_GLOBALS), "global MinTxnFee", teal, flags=re.M), version)
        if mm and mm.group(1) in ("txn", "gtxn", "gtxns", "txna", "gtxna", "gtxnsa", "txnas", "gtxnas", "gtxnsas") and mm.group(2) in EFFECT_FIELDS:
            t = re.sub(r"^((?:txn|gtxn \d+|gtxns)) (NumLogs|CreatedAssetID|CreatedApplicationID)$", r"\1 Fee", teal, flags=re.M)
            t = re.sub(r"^((?:txn|gtxn \d+|gtxns)) LastLog$", r"\1 Note", t, flags=re.M)
            t = re.sub(r"^((?:txna|gtxna \d+|gtxnsa|txnas|gtxnas \d+|gtxnsas)) Logs", r"\1 ApplicationArgs", t, flags=re.M)
            return ("app-only-field-in-signature-mode", t, version)
    if kind == "field-unknown" and detail == "vrf_verify VrfChainlink":
        return ("vrf-chainlink-not-an-avm-field", re.sub(r"^vrf_verify VrfChainlink$", "vrf_verify VrfAlgorand", teal, flags=re.M), version)
    if kind in ("itxn-field-not-settable", "itxn-field-version", "field-version") and detail.startswith("itxn_field "):
        f = detail.split()[1]
        return ("itxn-field-not-settable", re.sub(r"^itxn_field %s$" % re.escape(f), "itxn_field Fee", teal, flags=re.M), version)
    if kind == "back-branch" and version < 4:
        return ("loop-below-v4", re.sub(r"^#pragma version %d$" % version, "#pragma version 4", teal, count=1, flags=re.M), 4)
    return None


FINDING_TEXT = {
    "const-block-index-over-255": "with assembleConstants=True and more than 256 distinct repeated constants the block index exceeds one byte (intc 256 / bytec 256)",
    "app-only-field-in-signature-mode": "a field the AVM offers in Application mode only (global Round/LatestTimestamp/CurrentApplicationID/CreatorAddress/..., txn Logs/NumLogs/Created*ID/LastLog) compiles in Signature mode: PyTeal has no mode column for fields",
    "vrf-chainlink-not-an-avm-field": "VrfVerify.chainlink emits vrf_verify VrfChainlink, which is not a field of the AVM (only VrfAlgorand)",
    "itxn-field-not-settable": "InnerTxnBuilder.SetField accepts any TxnField of the program version: itxn_field is emitted for fields the AVM never lets an inner transaction set (FirstValid, TxID, NumAppArgs, ...) or only from a later version (Note, RekeyTo, application fields: v6), and the field's own minimum version is not checked either (itxn_field StateProofPK at v5)",
    "enumint-name-unchecked": "the public EnumInt constructor prints any name verbatim after `int`: a name that is not one of the assembler's named constants (here: a valid name with a stray line break) gives an `int` statement the assembler cannot read",
    "loop-below-v4": "While/For compile at versions 2 and 3 although backward branches exist only from version 4",
}


class Session:
    def __init__(self, ck, model):
        self.ck, self.model = ck, model
        self.stats = {}
        self.kinds = {}
        self.ops_seen = {}
        self.known_hits = {}
        self.uncovered = {}
        self.violations = 0
        self.per_kind = {}
        self.accepted = 0

    def bump(self, d, k, n=1):
        d[k] = d.get(k, 0) + n

    def note_ops(self, teal):
        for l in teal.split("\n"):
            t = l.split(" ", 1)[0]
            if t and not t.endswith(":") and not t.startswith("//") and not t.startswith("#"):
                self.bump(self.ops_seen, t)

    def check_text(self, teal, version, app, case, extra_known=None):
        """Run the checker on one real output; attribute / report. Returns True if nothing new is wrong."""
        ck = self.ck
        text, ver = teal, version
        for _ in range(12):
            res = legal(self.model, text, ver, app)
            if res[0] == "ok":
                return True
            if res[0] == "error":
                ck.model_problem("the extracted checker could not read a request: %s" % res[1])
                return False
            if res[0] == "uncovered":
                self.bump(self.uncovered, "%s %s" % (res[1], res[3]))
                return True
            c = classify(res, text, ver, app)
            if c is None and extra_known is not None:
                c = extra_known(res, text, ver)
            if c is not None and ck.match_known(lambda f: f["id"] == c[0]) is not None:
                fid, text2, ver2 = c
                self.bump(self.known_hits, fid)
                ck.known(fid, "%s [first seen: %s v%d %s -> %s %s]" % (FINDING_TEXT.get(fid, fid), case.get("name", case.get("family")), version,
                                                                         "app" if app else "sig", res[1], res[3]))
                if text2 is None or (text2 == text and ver2 == ver):
                    return True
                text, ver = text2, ver2
                continue
            if res[1] == "parse" and re.fullmatch(r"(frame_dig|frame_bury) -?\d+", str(res[3])):
                res = ("bad", "imm-range", res[2], "%s (immediate outside the signed 8-bit range; AVM/Parse.v refuses the line)" % res[3])
            self.bump(self.kinds, res[1])
            self.violations += 1
            vk = (res[1], str(res[3]).split(" ")[0], case.get("family"))
            self.bump(self.per_kind, vk)
            # replay files for at most 3 cases per (kind, op, family), so that one frequent defect does not crowd out another
            if self.per_kind[vk] <= 3 and len(ck.violations) < 60:
                ck.violation("PyTeal emitted TEAL that is not legal for version %d %s mode: %s at instruction %s (%s) [%s]" % (
                    version, "Application" if app else "Signature", res[1], res[2], res[3], case.get("name", case.get("family"))),
                    {"kind": "illegal-output", "case": case, "version": version, "mode": "app" if app else "sig",
                     "verdict": list(res), "teal": teal.split("\n")[:400], "checked_text_differs": text != teal})
            return False
        ck.model_problem("known-finding repair loop did not converge for %r" % (case,))
        return False

    def compile_and_check(self, thunk, version, app, case, optimize=None, assemble_constants=False, extra_known=None):
        import pyteal as pt
        ck = self.ck
        def go():
            e = thunk()
            return pt.compileTeal(e, pt.Mode.Application if app else pt.Mode.Signature, version=version,
                                  assembleConstants=assemble_constants, optimize=optimize)
        r = call_real(go)
        fam = case["family"]
        if r[0] == "exc":
            self.bump(self.stats, fam + ":" + ("rejected" if r[1] in PYTEAL_ERRORS else "crash:" + r[1]))
            ck.count(None, nontrivial=False)
            return None
        teal = r[1]
        self.bump(self.stats, fam + ":compiled")
        ck.count((fam, version, app, hashlib.sha1(teal.encode("utf-8", "replace")).hexdigest()))
        self.note_ops(teal)
        ok = self.check_text(teal, version, app, case, extra_known)
        if ok:
            self.accepted += 1
            if len(ck.samples) < 1 and len(teal) > 200:
                ck.sample({"family": fam, "case": case.get("name", case.get("key")), "version": version, "mode": "app" if app else "sig",
                           "teal_lines": len(teal.split("\n")), "legal_check": "ok", "first_lines": teal.split("\n")[:6]})
        return teal


def opts_for(pt, rng, version):
    ss = rng.choice([None, None, True, False])
    fp = rng.choice([None, None, None, False, True]) if version >= 8 else rng.choice([None, None, False])
    return ss, fp, (optimize_of(pt, ss, fp))


# ---------------------------------------------------------------------------------------------
# families
# ---------------------------------------------------------------------------------------------
def fam_corpus(ses, pt, rng, thorough, shard=0, nshards=1):
    """progcorpus / gen_prog recipes through build.Builder (main-routine programs)."""
    def one(recipe, version, app, ss, fp, ac, tag):
        b = Builder(pt)
        r = call_real(b.build, recipe)
        if r[0] != "ok":
            ses.bump(ses.stats, "corpus:unbuildable")
            return
        ses.compile_and_check(lambda: r[1], version, app, {"family": "corpus", "name": tag, "recipe": repr(recipe)[:3000],
                                                          "scratch_slots": ss, "frame_pointers": fp, "assemble_constants": ac},
                              optimize=optimize_of(pt, ss, fp), assemble_constants=ac)
    smalls = small_recipes()
    for k, r in enumerate(smalls):
        if k % nshards != shard:
            continue
        for v in (G.VERSIONS if thorough else [2, 3, 4, 6, 8, 10]):
            for app in (True, False):
                one(r, v, app, None, None, False, "small")
    n = (5000 if thorough else 500) // nshards
    for i in range(n):
        version, app, ss, fp = random_case_params(rng)
        g = Gen(rng, version, app, size=rng.choice([5, 10, 20, 40, 60]), allow_new_ops=0.03)
        r = g.program(depth=rng.choice([1, 2, 3, 4]))
        init = tuple(("op", "store", (("slot", k),), "n", ((I(0) if t == "u" else B(b"")),)) for k, t in g.vars.items())
        if init and rng.random() < 0.9:
            r = ("seq",) + init + (r,)
        one(r, version, app, ss, fp, version >= 3 and rng.random() < 0.3, "random")
    ses.ck.coverage["corpus_small_shapes"] = len(smalls)


def enumint_known(res, text, ver):
    """class predicate of enumint-name-unchecked: the program is an EnumInt probe (the name handed to the public EnumInt
    constructor is not one of the assembler's named constants) and the checker cannot read the `int NAME` statement."""
    if res[0] == "bad" and res[1] == "parse" and str(res[3]).split(" ")[0] in ("int", "pushint", "intcblock"):
        return ("enumint-name-unchecked", None, ver)
    return None


def fam_sweep(ses, pt, rng, thorough, shard=0, nshards=1):
    """catalogue + raw ops x versions x modes: accepted => legal."""
    cat = G.catalogue(pt)
    raw = G.raw_cases(pt)
    acc = {}
    for idx, (name, thunk, tags) in enumerate(cat):
        if idx % nshards != shard:
            continue
        for v in G.VERSIONS:
            for app in (True, False):
                ss, fp = [(None, None), (True, None), (False, False), (None, True)][(idx + v) % 4]
                if fp and v < 8:
                    fp = None
                ac = v >= 3 and (idx + v) % 3 == 0
                t = ses.compile_and_check(thunk, v, app, {"family": "catalogue", "name": name, "key": idx, "scratch_slots": ss,
                                                          "frame_pointers": fp, "assemble_constants": ac},
                                          optimize=optimize_of(pt, ss, fp), assemble_constants=ac,
                                          extra_known=enumint_known if name.startswith("EnumInt+") else None)
                if t is not None:
                    acc.setdefault(name, []).append((v, app))
    never = [n for k, (n, _, tags) in enumerate(cat) if k % nshards == shard and n not in acc and "v11" not in tags]
    ses.ck.coverage["catalogue_entries"] = len(cat)
    ses.ck.coverage.setdefault("catalogue_never_accepted", []).extend(never[:40])
    for idx, (name, thunk) in enumerate(raw):
        if idx % nshards != shard:
            continue
        for v in G.VERSIONS:
            for app in (True, False):
                ses.compile_and_check(thunk, v, app, {"family": "raw", "name": "raw:" + name, "key": idx})
    ses.ck.coverage["raw_ops"] = len(raw)


def fam_subs(ses, pt, rng, thorough, shard=0, nshards=1):
    n = (6000 if thorough else 750) // nshards
    hist = {}
    for i in range(n):
        seed = rng.randrange(1 << 40)
        version = rng.choice([2, 3, 4, 4, 5, 6, 6, 7, 8, 8, 9, 10, 10])
        app = rng.random() < 0.7
        ss, fp, opt = opts_for(pt, rng, version)
        ac = version >= 3 and rng.random() < 0.25
        meta = {}
        def thunk():
            e, m = G.gen_subs_program(pt, seed, version, app)
            meta.update(m)
            return e
        ses.compile_and_check(thunk, version, app, {"family": "subs", "key": seed, "scratch_slots": ss, "frame_pointers": fp,
                                                   "assemble_constants": ac}, optimize=opt, assemble_constants=ac)
        for k, v in meta.get("hist", {}).items():
            hist[k] = hist.get(k, 0) + v
        ses.bump(ses.stats, "subs:nsub=%s" % meta.get("nsub", "?"))
    ses.ck.coverage["subs_constructor_histogram"] = hist


def fam_names(ses, pt, rng, thorough, shard=0, nshards=1):
    n = 400 if thorough else 90
    for i in range(n):
        seed = rng.randrange(1 << 40)
        version = rng.choice([4, 5, 6, 8, 10])
        app = rng.random() < 0.5
        ss, fp, opt = opts_for(pt, rng, version)
        ses.compile_and_check(lambda: G.gen_names_program(pt, seed, version, app)[0], version, app,
                              {"family": "names", "key": seed, "scratch_slots": ss, "frame_pointers": fp}, optimize=opt)
    for i in range(30 if thorough else 10):
        seed = rng.randrange(1 << 40)
        version = rng.choice([4, 6, 8])
        # regression family for the repaired finding subroutine-name-line-feed (/repo 3627216): a rejection is a violation
        ses.compile_and_check(lambda: G.gen_names_program(pt, seed, version, True, newline=True)[0], version, True,
                              {"family": "names-newline", "key": seed})


def fam_router(ses, pt, rng, thorough, shard=0, nshards=1):
    n = (500 if thorough else 70) // nshards
    for i in range(n):
        seed = rng.randrange(1 << 40)
        version = rng.choice([6, 6, 7, 8, 8, 9, 10])
        ss, fp, opt = opts_for(pt, rng, version)
        ac = rng.random() < 0.3
        case = {"family": "router", "key": seed, "scratch_slots": ss, "frame_pointers": fp, "assemble_constants": ac}
        def go():
            router, meta = G.gen_router(pt, seed, version)
            return router.compile_program(version=version, assemble_constants=ac, optimize=opt)
        r = call_real(go)
        if r[0] == "exc":
            ses.bump(ses.stats, "router:" + ("rejected" if r[1] in PYTEAL_ERRORS else "crash:" + r[1]))
            ses.ck.count(None, nontrivial=False)
            continue
        ap, cl, _ = r[1]
        for which, teal in (("approval", ap), ("clear", cl)):
            ses.bump(ses.stats, "router:compiled")
            ses.ck.count(("router", version, which, hashlib.sha1(teal.encode("utf-8", "replace")).hexdigest()))
            ses.note_ops(teal)
            if ses.check_text(teal, version, True, dict(case, name="router-" + which)):
                ses.accepted += 1


def fam_consts(ses, pt, rng, thorough, shard=0, nshards=1):
    sizes = [(1, 1), (4, 4), (5, 5), (17, 3), (255, 0), (256, 0), (0, 256), (257, 0), (0, 257), (260, 258)]
    if thorough:
        sizes += [(254, 254), (256, 256), (258, 1), (400, 2), (2, 700), (300, 300)]
    for k, (ni, nb) in enumerate(sizes):
        for version in ([3, 6, 10] if thorough or ni + nb < 100 else [[3, 6, 10][k % 3]]):
            for app in ((True, False) if thorough or ni + nb < 100 else (k % 2 == 0,)):
                ses.compile_and_check(lambda: G.gen_consts_program(pt, ni, nb), version, app,
                                      {"family": "consts", "name": "consts:%d:%d" % (ni, nb), "key": [ni, nb], "assemble_constants": True},
                                      assemble_constants=True)


def run_job(arg):
    """One family shard in a worker process: its own Check book-keeping and checker process."""
    (fam, shard, nshards), tier, seed = arg
    import random
    import pyteal as pt
    t0 = time.time()
    ck = Check("C04", tier)
    ck.rng = random.Random("%d:%s:%d:%d" % (seed, fam, shard, nshards))
    model = Model("c04")
    ses = Session(ck, model)
    try:
        globals()["fam_" + fam](ses, pt, ck.rng, tier == "thorough", shard, nshards)
    finally:
        model.close()
    return {"wall": round(time.time() - t0, 1), "evaluations": ck.evaluations, "distinct": ck.distinct, "violations": ck.violations,
            "broken": ck.broken, "known_seen": ck.known_seen, "stats": ses.stats, "kinds": ses.kinds, "ops_seen": ses.ops_seen,
            "known_hits": ses.known_hits, "uncovered": ses.uncovered, "nviol": ses.violations, "accepted": ses.accepted,
            "coverage": ck.coverage, "samples": ck.samples}


def fam_frames(ses, pt, rng, thorough, shard=0, nshards=1):
    """subroutines with k ABI locals around the 128-cell frame limit, versions 8..10, frame pointers default / True."""
    cases = G.frames_cases()
    for idx, (kd, k, na) in enumerate(cases):
        if idx % nshards != shard:
            continue
        for version in (8, 9, 10):
            for fp in (None, True):
                if not thorough and k == 200 and (version, fp) not in ((8, None), (10, True)):
                    continue
                ses.compile_and_check(lambda: G.gen_frames_program(pt, kd, k, na), version, True,
                                      {"family": "frames", "name": "frames:%s:%d:%d" % (kd, k, na), "key": [kd, k, na],
                                       "scratch_slots": None, "frame_pointers": fp}, optimize=optimize_of(pt, None, fp))


def fam_tails(ses, pt, rng, thorough, shard=0, nshards=1):
    """routine tails: every leave/stay pattern of If / ElseIf / Cond / nested tails, in subroutines and in main."""
    cases = G.tails_cases()
    for idx, (ti, mask, where, follow) in enumerate(cases):
        if idx % nshards != shard:
            continue
        for version in (G.VERSIONS[2:] if thorough else [4, 5, 6, 8, 9, 10][idx % 2::2] + [[7, 8][idx % 2]]):
            app = (idx + version) % 3 != 0
            for fp in ((None, False) if version >= 8 else (None,)):
                ss = [None, True, False][(idx + version) % 3]
                ses.compile_and_check(lambda: G.gen_tail_program(pt, ti, mask, where, follow, app), version, app,
                                      {"family": "tails", "name": "tails:%d:%d:%s:%s" % (ti, mask, where, follow),
                                       "key": [ti, mask, where, follow], "scratch_slots": ss, "frame_pointers": fp},
                                      optimize=optimize_of(pt, ss, fp))


def build_case(pt, case, version, app):
    """Rebuild the program of a replay file. Returns a thunk or raises."""
    fam, key = case["family"], case.get("key")
    if fam == "catalogue":
        return G.catalogue(pt)[key][1]
    if fam == "raw":
        return G.raw_cases(pt)[key][1]
    if fam == "subs":
        return lambda: G.gen_subs_program(pt, key, version, app)[0]
    if fam == "names":
        return lambda: G.gen_names_program(pt, key, version, app)[0]
    if fam == "names-newline":
        return lambda: G.gen_names_program(pt, key, version, True, newline=True)[0]
    if fam == "consts":
        return lambda: G.gen_consts_program(pt, key[0], key[1])
    if fam == "tails":
        return lambda: G.gen_tail_program(pt, key[0], key[1], key[2], key[3], app)
    if fam == "frames":
        return lambda: G.gen_frames_program(pt, key[0], key[1], key[2])
    if fam == "corpus":
        recipe = eval(case["recipe"])
        return lambda: Builder(pt).build(recipe)
    raise ValueError("cannot rebuild family %r" % fam)


def replay(path):
    import pyteal as pt
    data = json.load(open(path))
    print(json.dumps({k: data[k] for k in data if k in ("what", "kind", "broken", "verdict")}, indent=1))
    case = data.get("case")
    if not case:
        return 0
    version, app = data["version"], data["mode"] == "app"
    model = Model("c04")
    if case["family"] == "router":
        router, _ = G.gen_router(pt, case["key"], version)
        ap, cl, _ = router.compile_program(version=version, assemble_constants=case.get("assemble_constants", False),
                                            optimize=optimize_of(pt, case.get("scratch_slots"), case.get("frame_pointers")))
        teal = ap if case.get("name") == "router-approval" else cl
    else:
        thunk = build_case(pt, case, version, app)
        r = call_real(lambda: pt.compileTeal(thunk(), mode_of(pt, app), version=version,
                                             assembleConstants=case.get("assemble_constants", False),
                                             optimize=optimize_of(pt, case.get("scratch_slots"), case.get("frame_pointers"))))
        if r[0] != "ok":
            print("the compiler now rejects the program:", r[1], r[2])
            return 0
        teal = r[1]
    res = legal(model, teal, version, app)
    print("legal_check:", res)
    if res[0] == "bad":
        c = classify(res, teal, version, app)
        print("known-finding class:", c[0] if c else None)
        print("\n".join(teal.split("\n")[:60]))
        return 1 if c is None else 0
    return 0


def main(argv):
    args = parse_args(argv)
    if args.replay:
        return replay(args.replay)
    ck = Check("C04", args.tier)
    thorough = args.tier == "thorough"
    import pyteal as pt
    t0 = time.time()
    for script in ("translate.py", "c04_translate.py"):
        rc, out = sh("%s %s/harness/%s" % (PY, VERIF, script))
        if rc != 0:
            ck.violation("translator aborted: PyTeal's tables no longer have the expected shape (%s)" % script,
                         {"broken": "harness/" + script, "log": out[-2000:]}, no_failing_input=True)
            return ck.finish(level="proof", rule="translator failed")
    ck.run_proofs("Props/C04.v", PROOF_FILES, extra_targets=["Extract/Main_c04.vo"])
    ck.coverage["t_proofs_s"] = round(time.time() - t0, 1)
    try:
        model = Model("c04")
    except RuntimeError as e:
        ck.violation("the extracted checker no longer builds (proof/model files broken)", {"broken": "ocaml/pv_c04", "log": str(e)[-1500:]}, no_failing_input=True)
        return ck.finish(level="proof", rule="extraction failed")
    unk = model.ask("(unknowns)")
    ck.coverage["langspec_unknown_rows"] = {"ops": [str(x) for x in unk[1][1:]], "itxn_field_settability": [str(x) for x in unk[2][1:]]}
    model.close()
    # families run as parallel jobs (own interpreter state, own checker process each); results are merged here
    jobs = [("sweep", k, 3) for k in range(3)] + [("consts", 0, 1), ("names", 0, 1), ("router", k, 2) if False else ("router", 0, 1)] + \
           [("subs", k, 5) for k in range(5)] + [("corpus", k, 3) for k in range(3)] + [("frames", k, 2) for k in range(2)] + \
           [("tails", k, 3) for k in range(3)]
    if thorough:
        jobs = [("sweep", k, 3) for k in range(3)] + [("consts", 0, 1), ("names", 0, 1)] + [("router", k, 2) for k in range(2)] + \
               [("subs", k, 8) for k in range(8)] + [("corpus", k, 4) for k in range(4)] + [("frames", k, 3) for k in range(3)] + \
               [("tails", k, 4) for k in range(4)]
    import multiprocessing as mp
    from concurrent.futures import ProcessPoolExecutor
    t1 = time.time()
    with ProcessPoolExecutor(max_workers=min(NPROC, len(jobs)), mp_context=mp.get_context("fork")) as ex:
        results = list(ex.map(run_job, [(j, args.tier, ck.seed) for j in jobs]))
    ses = Session(ck, None)
    timing = {}
    for (fam, k, n), r in zip(jobs, results):
        timing["%s[%d/%d]" % (fam, k, n)] = r["wall"]
        ck.evaluations += r["evaluations"]
        ck.distinct |= r["distinct"]
        ck.violations += r["violations"]
        for b in r["broken"]:
            ck.model_problem(b)
        for fid, what in r["known_seen"]:
            ck.known(fid, what)
        for name in ("stats", "kinds", "ops_seen", "known_hits", "uncovered"):
            for kk, vv in r[name].items():
                ses.bump(getattr(ses, name), kk, vv)
        ses.violations += r["nviol"]
        ses.accepted += r["accepted"]
        if k == 0:
            for sm in r["samples"]:
                ck.sample(sm, limit=7)
        for kk, vv in r["coverage"].items():
            if isinstance(vv, list):
                ck.coverage.setdefault(kk, []).extend(vv)
            elif isinstance(vv, dict):
                d = ck.coverage.setdefault(kk, {})
                for a, b in vv.items():
                    d[a] = d.get(a, 0) + b
            else:
                ck.coverage[kk] = vv
    ck.coverage["families_wall_s"] = round(time.time() - t1, 1)
    ck.coverage["family_wall_s"] = timing
    ck.coverage["outcomes"] = dict(sorted(ses.stats.items()))
    ck.coverage["accepted_outputs"] = ses.accepted
    ck.coverage["rejection_kinds_unattributed"] = ses.kinds
    ck.coverage["known_finding_hits"] = ses.known_hits
    ck.coverage["uncovered_by_langspec"] = ses.uncovered
    ck.coverage["opcodes_seen_in_real_outputs"] = len(ses.ops_seen)
    ck.coverage["opcode_histogram_top"] = dict(sorted(ses.ops_seen.items(), key=lambda kv: -kv[1])[:60])
    ck.coverage["disagreements_checked"] = ses.violations + sum(ses.known_hits.values())
    ck.sample({"note": "each evaluation = one real compileTeal/compile_program output checked by the extracted legal_check",
               "families": list(timing)})
    # a known finding listed in the file but no longer reproduced is simply not printed
    if not ck.proof_ok:
        if ses.violations == 0:
            ck.violation("proof obligation broken: Props/C04.v (table conservativeness, checker soundness or label injectivity) no longer checks; "
                         "the sweep over every op/field x versions x modes found no illegal output",
                         {"kind": "proof", "broken": "Props/C04.v", "log": ck.proof_log[-2500:]}, no_failing_input=True)
        else:
            ck.notes.append("proof obligation broken (see proof_failure_log); the sweep found concrete illegal outputs, reported above")
    return ck.finish(
        level="proof",
        rule="every evaluation is one REAL compiler output (compileTeal / Router.compile_program) decided by the extracted, proved-sound legal_check; "
             "inputs: (a) every op family / field / immediate shape of the catalogue and every Op via MultiValue x versions 2..10 x {Application, Signature} "
             "x option rotation, (b) constant-block sizes around 256, (c) odd and colliding subroutine names, (d) seeded random Routers, "
             "(e) seeded random programs with 0..40 subroutines (recursive, by-reference, ABI), (e2) subroutines (plain / ABI void / ABI output) with 126..129 and 200 ABI locals at v8..10 with frame pointers, (f) the shared main-routine corpus (exhaustive small shapes + seeded random); "
             "distinct = (family, version, mode, emitted text); non-trivial = the compiler emitted TEAL (rejections and crashes are counted but not distinct)",
        trusted_base=[
            "AVM/Langspec.v: hand-written langspec (op versions, modes, immediates, field tables, itxn_field settability, back-branch rule) from the AVM specification; rows marked Unknown are listed in langspec_unknown_rows",
            "AVM/Parse.v tokenizer + parse_stmt + build_prog: the assembler's reading of TEAL text (hand-written, no assembler offline)",
            "AVM/Machine.v step/run: reference machine the soundness theorem speaks about (switch/match are outside its fragment)",
            "C04_label_injective is about the model functions Comp.Compile.sanitize / Comp.Passes.label_of, tied to the code by the C01/C02 text-equality correspondence and here by the odd-names family (label-duplicate would be reported)",
            "method selectors (SHA-512/256) supplied by the harness; they do not influence legality",
            "Extraction: ExtrOcamlBasic + ExtrOcamlNativeString, driver.ml; the text travels as a list of lines joined with LF in Main_c04.v",
        ])


if __name__ == "__main__":
    sys.exit(run_main(main))
