"""C17 helpers, source level: program recipes, the builder (recipe -> PyTeal objects through the public
API) and an independent definite-assignment analysis on the recipe (the semantic oracle).

Recipe (JSON-able):
  {"vars": {name: {"kind": "auto"|"reserved"|"abi", "id": n}}, "dyn": [name], "mvs": [name],
   "subs": [{"name", "nval", "ref": bool, "ret": "none"|"uint64", "body": [stmt...], "result": expr|None}],
   "main": [stmt...]}
  stmt ::= ["store", v, e] | ["pop", e] | ["seq", [stmt]] | ["if", e, [stmt], [stmt]|None]
         | ["cond", [[e, [stmt]], ...]] | ["while", e, [stmt]] | ["for", [stmt], e, [stmt], [stmt]]
         | ["break"] | ["continue"] | ["ret", e|None] | ["err"] | ["approve"] | ["assert", e]
         | ["call", f, [e], refvar|None] | ["mv", m] | ["dset", d, v] | ["dstore", d, e, site]
         | ["refstore", e]
  e    ::= ["int", n] | ["fee"] | ["load", v, site] | ["add", e, e] | ["lt", e, e] | ["not", e]
         | ["callv", f, [e], refvar|None] | ["seqv", [stmt], e] | ["ifv", e, e, e]
         | ["mvval", m, site] | ["mvhas", m, site] | ["dload", d, site] | ["param", i] | ["refload"]
A [stmt] list is built as Seq(...); an empty list as Seq().
Variables of a MaybeValue m are called m+".v" and m+".h"; a DynamicScratchVar d is itself a variable d
(set_index stores it, dstore/dload read it).
"""
import copy
import json

# ---------------------------------------------------------------------------------------------
# builder
# ---------------------------------------------------------------------------------------------


class Built:
    pass


def build(recipe):
    import pyteal as pt

    B = Built()
    B.keep = []
    B.slot_of_var = {}
    B.site_of_expr = {}   # id(ScratchLoad) -> site
    B.var_of_slot = {}
    objs = {}
    for name, d in recipe["vars"].items():
        if d["kind"] == "auto":
            o = pt.ScratchVar(pt.TealType.uint64)
            slot = o.slot
        elif d["kind"] == "reserved":
            o = pt.ScratchVar(pt.TealType.uint64, d["id"])
            slot = o.slot
        else:
            o = pt.abi.Uint64()
            slot = o._stored_value.slot
        objs[name] = o
        B.slot_of_var[name] = slot
    for name in recipe["dyn"]:
        o = pt.DynamicScratchVar(pt.TealType.uint64)
        objs[name] = o
        B.slot_of_var[name] = o.slot
    for name in recipe["mvs"]:
        o = pt.App.globalGetEx(pt.Int(0), pt.Bytes(name))
        objs[name] = o
        B.slot_of_var[name + ".v"] = o.output_slots[0]
        B.slot_of_var[name + ".h"] = o.output_slots[1]
    for v, s in B.slot_of_var.items():
        B.var_of_slot[id(s)] = v
    subs = {}

    def note(expr, site):
        B.keep.append(expr)
        B.site_of_expr[id(expr)] = site
        return expr

    def E(e, ctx):
        k = e[0]
        if k == "int":
            return pt.Int(e[1])
        if k == "fee":
            return pt.Txn.fee()
        if k == "load":
            o = objs[e[1]]
            if recipe["vars"][e[1]]["kind"] == "abi":
                return note(o.get(), e[2])
            return note(o.load(), e[2])
        if k == "add":
            return E(e[1], ctx) + E(e[2], ctx)
        if k == "lt":
            return E(e[1], ctx) < E(e[2], ctx)
        if k == "not":
            return pt.Not(E(e[1], ctx))
        if k == "callv":
            args = [E(a, ctx) for a in e[2]]
            if e[3] is not None:
                args.append(objs[e[3]])
            return subs[e[1]](*args)
        if k == "seqv":
            return pt.Seq(*([Sx(s, ctx) for s in e[1]] + [E(e[2], ctx)]))
        if k == "ifv":
            return pt.If(E(e[1], ctx), E(e[2], ctx), E(e[3], ctx))
        if k == "mvval":
            return note(objs[e[1]].value(), e[2])
        if k == "mvhas":
            return note(objs[e[1]].hasValue(), e[2])
        if k == "dload":
            x = objs[e[1]].load()
            note(x.index_expression, e[2])
            return x
        if k == "param":
            return ctx["params"][e[1]]
        if k == "refload":
            return ctx["ref"].load()
        raise ValueError(e)

    def L(stmts, ctx):
        return pt.Seq(*[Sx(s, ctx) for s in stmts])

    def Sx(s, ctx):
        k = s[0]
        if k == "store":
            o = objs[s[1]]
            if recipe["vars"][s[1]]["kind"] == "abi":
                return o.set(E(s[2], ctx))
            return o.store(E(s[2], ctx))
        if k == "pop":
            return pt.Pop(E(s[1], ctx))
        if k == "seq":
            return L(s[1], ctx)
        if k == "if":
            x = pt.If(E(s[1], ctx)).Then(L(s[2], ctx))
            if s[3] is not None:
                x = x.Else(L(s[3], ctx))
            return x
        if k == "cond":
            return pt.Cond(*[[E(c, ctx), L(b, ctx)] for c, b in s[1]])
        if k == "while":
            return pt.While(E(s[1], ctx)).Do(L(s[2], ctx))
        if k == "for":
            return pt.For(L(s[1], ctx), E(s[2], ctx), L(s[3], ctx)).Do(L(s[4], ctx))
        if k == "break":
            return pt.Break()
        if k == "continue":
            return pt.Continue()
        if k == "ret":
            return pt.Return(E(s[1], ctx)) if s[1] is not None else pt.Return()
        if k == "err":
            return pt.Err()
        if k == "approve":
            return pt.Approve()
        if k == "assert":
            return pt.Assert(E(s[1], ctx))
        if k == "call":
            args = [E(a, ctx) for a in s[2]]
            if s[3] is not None:
                args.append(objs[s[3]])
            return subs[s[1]](*args)
        if k == "mv":
            return objs[s[1]]
        if k == "dset":
            return objs[s[1]].set_index(objs[s[2]])
        if k == "dstore":
            x = objs[s[1]].store(E(s[2], ctx))
            note(x.index_expression, s[3])
            return x
        if k == "refstore":
            return ctx["ref"].store(E(s[1], ctx))
        raise ValueError(s)

    def make_sub(sd):
        def body(params, ref):
            ctx = {"params": params, "ref": ref}
            parts = [Sx(s, ctx) for s in sd["body"]]
            if sd["ret"] == "uint64":
                parts.append(E(sd["result"], ctx))
            return pt.Seq(*parts)

        nval, ref = sd["nval"], sd["ref"]
        if nval == 0 and not ref:
            def f():
                return body([], None)
        elif nval == 1 and not ref:
            def f(a0: pt.Expr):
                return body([a0], None)
        elif nval == 2 and not ref:
            def f(a0: pt.Expr, a1: pt.Expr):
                return body([a0, a1], None)
        elif nval == 0 and ref:
            def f(r: pt.ScratchVar):
                return body([], r)
        elif nval == 1 and ref:
            def f(a0: pt.Expr, r: pt.ScratchVar):
                return body([a0], r)
        else:
            def f(a0: pt.Expr, a1: pt.Expr, r: pt.ScratchVar):
                return body([a0, a1], r)
        # "pyname" = the Python function name PyTeal sees (SubroutineDefinition.name()); several routines may share
        # it (factory-made subroutines from one inner def, a subroutine literally called main); "name" stays the
        # recipe's own unique key
        f.__name__ = sd.get("pyname", sd["name"])
        if sd.get("abi"):
            assert nval == 0 and not ref and sd["ret"] == "none"
            return pt.ABIReturnSubroutine(f)
        rt = pt.TealType.uint64 if sd["ret"] == "uint64" else pt.TealType.none
        return pt.Subroutine(rt)(f)

    for sd in recipe["subs"]:
        subs[sd["name"]] = make_sub(sd)
    B.subs = subs
    B.main = L(recipe["main"], {"params": [], "ref": None})
    B.objs = objs
    return B


# ---------------------------------------------------------------------------------------------
# the oracle: collecting semantics of "set of variables stored so far" over all syntactic paths
# ---------------------------------------------------------------------------------------------
class Oracle:
    """analyse(routine) abstractly executes the routine's recipe over SETS of stored-variable sets (one
    per syntactic path class).  Branch conditions are not interpreted (both ways possible), loops run to
    a fixpoint (zero iterations included), Break/Continue jump, Return/Err/Approve end the path unless
    ignore_term (then they fall through, which is how the block graph is wired and what a block scan
    that ignores terminators can see).  count_dynamic: a store through a DynamicScratchVar / by a callee
    through a by-reference parameter counts as a store to every variable it may hit."""

    def __init__(self, recipe):
        self.r = recipe
        self.subs = {s["name"]: s for s in recipe["subs"]}
        self.dyn_targets = {}
        self._scan_targets(recipe["main"])
        for s in recipe["subs"]:
            self._scan_targets(s["body"])
        # phase 1: which routines are compiled, which variables each references in graph-reachable code
        self.refs = {}
        todo = [None]
        self.compiled = []
        while todo:
            rt = todo.pop(0)
            if rt in self.compiled:
                continue
            self.compiled.append(rt)
            self.mode = dict(count_dynamic=False, ignore_term=True, locals=None)
            self.cur_refs = set()
            self.cur_calls = []
            self.offending = {}
            self._run_routine(rt)
            self.refs[rt] = self.cur_refs
            for c in self.cur_calls:
                if c not in self.compiled and c not in todo:
                    todo.append(c)
        cnt = {}
        for rt, vs in self.refs.items():
            for v in vs:
                cnt[v] = cnt.get(v, 0) + 1
        self.global_vars = set(v for v, n in cnt.items() if n > 1)

    def _scan_targets(self, x):
        if isinstance(x, list):
            if len(x) >= 3 and x[0] == "dset":
                self.dyn_targets.setdefault(x[1], set()).add(x[2])
            for y in x:
                self._scan_targets(y)

    def _body(self, rt):
        return self.r["main"] if rt is None else self.subs[rt]["body"]

    def _run_routine(self, rt):
        st = {frozenset()}
        n, b, c = self.X(self._body(rt), st)
        if rt is not None and self.subs[rt]["ret"] == "uint64":
            self.Ev(self.subs[rt]["result"], n)

    def analyse(self, rt, count_dynamic, ignore_term):
        """-> {site: variable} of loads that some path reaches with the variable not stored"""
        self.mode = dict(count_dynamic=count_dynamic, ignore_term=ignore_term, locals=self.refs[rt] - self.global_vars)
        self.cur_refs = set()
        self.cur_calls = []
        self.offending = {}
        self._run_routine(rt)
        return dict(self.offending)

    # -- helpers
    def _load(self, v, site, st):
        if st:
            self.cur_refs.add(v)
        loc = self.mode["locals"]
        if loc is not None and v not in loc:
            return
        for s in st:
            if v not in s:
                self.offending[site] = v
                return

    def _store(self, vs, st):
        if st:
            self.cur_refs.update(vs)
        return {s | frozenset(vs) for s in st}

    def _ref(self, v, st):
        if st:
            self.cur_refs.add(v)

    def _call(self, f, args, ref, st):
        for a in args:
            st = self.Ev(a, st)
        if st:
            self.cur_calls.append(f)
        if ref is not None:
            self._ref(ref, st)
            if self.mode["count_dynamic"] and self.subs[f]["ref"]:
                st = {s | frozenset([ref]) for s in st}
        return st

    # -- expressions: state set -> state set
    def Ev(self, e, st):
        k = e[0]
        if k in ("int", "fee", "param", "refload"):
            return st
        if k == "load":
            self._load(e[1], e[2], st)
            return st
        if k in ("add", "lt"):
            return self.Ev(e[2], self.Ev(e[1], st))
        if k == "not":
            return self.Ev(e[1], st)
        if k == "callv":
            return self._call(e[1], e[2], e[3], st)
        if k == "seqv":
            n, b, c = self.X(e[1], st)
            return self.Ev(e[2], n)
        if k == "ifv":
            st = self.Ev(e[1], st)
            return self.Ev(e[2], st) | self.Ev(e[3], st)
        if k == "mvval":
            self._load(e[1] + ".v", e[2], st)
            return st
        if k == "mvhas":
            self._load(e[1] + ".h", e[2], st)
            return st
        if k == "dload":
            self._load(e[1], e[2], st)
            return st
        raise ValueError(e)

    # -- statement lists: state set -> (normal, break, continue)
    def X(self, stmts, st):
        brk, cont = set(), set()
        for s in stmts:
            st, b, c = self.X1(s, st)
            brk |= b
            cont |= c
        return st, brk, cont

    def X1(self, s, st):
        k = s[0]
        E = set()
        if k == "store":
            st = self.Ev(s[2], st)
            return self._store([s[1]], st), E, E
        if k in ("pop", "assert"):
            return self.Ev(s[1], st), E, E
        if k == "seq":
            return self.X(s[1], st)
        if k == "if":
            st = self.Ev(s[1], st)
            n1, b1, c1 = self.X(s[2], st)
            if s[3] is not None:
                n2, b2, c2 = self.X(s[3], st)
            else:
                n2, b2, c2 = st, E, E
            return n1 | n2, b1 | b2, c1 | c2
        if k == "cond":
            out, brk, cont = set(), set(), set()
            for c, body in s[1]:
                st = self.Ev(c, st)
                n, b, cc = self.X(body, st)
                out |= n
                brk |= b
                cont |= cc
            return out, brk, cont     # falling off the last condition is `err` with no successor
        if k == "while":
            head = set(st)
            while True:
                after = self.Ev(s[1], head)
                n, b, c = self.X(s[2], after)
                new = head | n | c
                if new == head:
                    break
                head = new
            return after | b, E, E
        if k == "for":
            st, b0, c0 = self.X(s[1], st)
            head = set(st)
            while True:
                after = self.Ev(s[2], head)
                n, b, c = self.X(s[4], after)
                sn, sb, sc = self.X(s[3], n | c)
                new = head | sn
                if new == head:
                    break
                head = new
            return after | b, b0, c0
        if k == "break":
            return E, set(st), E
        if k == "continue":
            return E, E, set(st)
        if k == "ret":
            if s[1] is not None:
                st = self.Ev(s[1], st)
            return (st if self.mode["ignore_term"] else E), E, E
        if k in ("err", "approve"):
            return (st if self.mode["ignore_term"] else E), E, E
        if k == "call":
            return self._call(s[1], s[2], s[3], st), E, E
        if k == "mv":
            return self._store([s[1] + ".v", s[1] + ".h"], st), E, E
        if k == "dset":
            self._ref(s[2], st)
            return self._store([s[1]], st), E, E
        if k == "dstore":
            self._load(s[1], s[3], st)
            st = self.Ev(s[2], st)
            if self.mode["count_dynamic"]:
                tg = self.dyn_targets.get(s[1], set())
                st = {x | frozenset(tg) for x in st}
            return st, E, E
        if k == "refstore":
            return self.Ev(s[1], st), E, E
        raise ValueError(s)

    def verdict(self):
        """-> dict(must=sites that semantically read-before-write on a live path,
                   exact=sites PyTeal's rule must reject (direct stores only, live paths),
                   dead=additional sites visible only when terminators are ignored)"""
        must, exact, dead = {}, {}, {}
        for rt in self.compiled:
            must.update(self.analyse(rt, True, False))
            exact.update(self.analyse(rt, False, False))
            d = self.analyse(rt, False, True)
            for k, v in d.items():
                if k not in exact:
                    dead[k] = v
        return must, exact, dead


# ---------------------------------------------------------------------------------------------
# generators
# ---------------------------------------------------------------------------------------------
class Gen:
    def __init__(self, rng, size="small"):
        self.rng = rng
        self.site = 0
        self.size = size

    def new_site(self):
        self.site += 1
        return self.site

    def program(self):
        rng = self.rng
        nv = rng.randrange(1, 5)
        vars_ = {}
        used = set()
        for i in range(nv):
            q = rng.random()
            if q < 0.7:
                vars_["x%d" % i] = {"kind": "auto"}
            elif q < 0.85:
                while True:
                    r = rng.randrange(0, 256)
                    if r not in used:
                        used.add(r)
                        break
                vars_["x%d" % i] = {"kind": "reserved", "id": r}
            else:
                vars_["x%d" % i] = {"kind": "abi"}
        dyn = ["d0"] if rng.random() < 0.2 else []
        mvs = ["m0"] if rng.random() < 0.2 else []
        nsub = rng.choice([0, 0, 0, 1, 1, 2])
        self.recipe = {"vars": vars_, "dyn": dyn, "mvs": mvs, "subs": [], "main": []}
        self.subsig = []
        for j in range(nsub):
            nl = rng.randrange(0, 3)
            loc = []
            for i in range(nl):
                nm = "f%d_z%d" % (j, i)
                vars_[nm] = {"kind": "auto"}
                loc.append(nm)
            self.subsig.append({"name": "f%d" % j, "nval": rng.randrange(0, 3), "ref": rng.random() < 0.35,
                                "ret": rng.choice(["none", "uint64"]), "locals": loc})
        # routine NAMES need not be unique: factory-made subroutines share the inner def's name, and nothing stops a
        # user from calling a subroutine `main`
        q = rng.random()
        if nsub >= 2 and q < 0.35:
            for sg in self.subsig:
                sg["pyname"] = "helper"
        elif nsub >= 1 and q < 0.45:
            rng.choice(self.subsig)["pyname"] = "main"
        main_vars = [v for v in vars_ if not v.startswith("f")]
        for j, sg in enumerate(self.subsig):
            pool = list(sg["locals"])
            if rng.random() < 0.4 or not pool:
                pool += rng.sample(main_vars, min(len(main_vars), rng.randrange(1, 3)))   # shared -> global
            ctx = {"vars": pool, "abi": [], "sub": sg, "callable": self.subsig[j:] if (rng.random() < 0.3 and not sg["ref"]) else self.subsig[j + 1:],
                   "dyn": [], "mvs": []}
            body = self.prologue(ctx, pool) + self.stmts(ctx, 2, False, rng.randrange(1, 5))
            body = self.guard_first(body)
            res = self.expr(ctx, 2) if sg["ret"] == "uint64" else None
            self.recipe["subs"].append({"name": sg["name"], "nval": sg["nval"], "ref": sg["ref"], "ret": sg["ret"],
                                        "body": body, "result": res})
            if "pyname" in sg:
                self.recipe["subs"][-1]["pyname"] = sg["pyname"]
        ctx = {"vars": main_vars, "sub": None, "callable": self.subsig, "dyn": dyn, "mvs": mvs}
        depth = 3 if self.size == "small" else 4
        main = self.prologue(ctx, main_vars) + self.stmts(ctx, depth, False, rng.randrange(1, 6 if self.size == "small" else 9))
        main = self.guard_first(main)
        if rng.random() < 0.8:
            main.append(["ret", self.expr(ctx, 1)])
        else:
            main.append(["approve"])
        self.recipe["main"] = main
        return self.recipe

    def prologue(self, ctx, vs):
        """most variables get an initial store, so that the interesting question is which later paths miss one"""
        p = self.rng.choice([0.0, 0.5, 0.8, 0.8, 1.0])
        return [["store", v, ["int", 0]] for v in vs if self.rng.random() < p]

    def guard_first(self, body):
        """a routine that starts with a loop trips NormalizeBlocks' start-block defect (C20): mostly avoid it"""
        def first(b):
            while b and b[0][0] == "seq":
                b = b[0][1]
            return b[0][0] if b else None
        if first(body) in ("while", "for") and self.rng.random() < 0.9:
            return [["pop", ["int", 0]]] + body
        return body

    def nonabi(self, ctx):
        return [v for v in ctx["vars"] if self.recipe["vars"][v]["kind"] != "abi"]

    def expr(self, ctx, depth):
        rng = self.rng
        opts = [("int", 20), ("fee", 8), ("load", 40)]
        if depth > 0:
            opts += [("add", 8), ("lt", 6), ("seqv", 4), ("ifv", 4)]
            if any(s["ret"] == "uint64" for s in ctx["callable"]):
                opts.append(("callv", 8))
        if ctx["mvs"]:
            opts.append(("mv", 6))
        if ctx["dyn"]:
            opts.append(("dload", 4))
        if ctx["sub"] is not None:
            if ctx["sub"]["nval"]:
                opts.append(("param", 8))
            if ctx["sub"]["ref"]:
                opts.append(("refload", 6))
        k = self.pick(opts)
        if k == "int":
            return ["int", rng.randrange(0, 10)]
        if k == "fee":
            return ["fee"]
        if k == "load":
            return ["load", rng.choice(ctx["vars"]), self.new_site()]
        if k in ("add", "lt"):
            return [k, self.expr(ctx, depth - 1), self.expr(ctx, depth - 1)]
        if k == "seqv":
            ss = [self.simple_stmt(ctx, depth - 1) for _ in range(rng.randrange(1, 3))]
            return ["seqv", ss, self.expr(ctx, depth - 1)]
        if k == "ifv":
            return ["ifv", self.expr(ctx, depth - 1), self.expr(ctx, depth - 1), self.expr(ctx, depth - 1)]
        if k == "callv":
            f = rng.choice([s for s in ctx["callable"] if s["ret"] == "uint64"])
            return ["callv", f["name"], [self.expr(ctx, depth - 1) for _ in range(f["nval"])], self.refarg(ctx, f)]
        if k == "mv":
            m = rng.choice(ctx["mvs"])
            return [rng.choice(["mvval", "mvhas"]), m, self.new_site()]
        if k == "dload":
            return ["dload", rng.choice(ctx["dyn"]), self.new_site()]
        if k == "param":
            return ["param", rng.randrange(ctx["sub"]["nval"])]
        return ["refload"]

    def refarg(self, ctx, f):
        if not f["ref"]:
            return None
        cands = self.nonabi(ctx)
        if not cands:
            # no ScratchVar available to pass by reference: use a fresh one
            nm = "r%d" % len(self.recipe["vars"])
            self.recipe["vars"][nm] = {"kind": "auto"}
            ctx["vars"].append(nm)
            return nm
        return self.rng.choice(cands)

    def pick(self, opts):
        tot = sum(w for _, w in opts)
        x = self.rng.random() * tot
        for k, w in opts:
            x -= w
            if x < 0:
                return k
        return opts[-1][0]

    def simple_stmt(self, ctx, depth):
        rng = self.rng
        opts = [("store", 50), ("pop", 30)]
        if ctx["mvs"]:
            opts.append(("mv", 10))
        k = self.pick(opts)
        if k == "store":
            return ["store", rng.choice(ctx["vars"]), self.expr(ctx, depth)]
        if k == "pop":
            return ["pop", self.expr(ctx, depth)]
        return ["mv", rng.choice(ctx["mvs"])]

    def stmts(self, ctx, depth, in_loop, n):
        return [self.stmt(ctx, depth, in_loop) for _ in range(n)]

    def stmt(self, ctx, depth, in_loop):
        rng = self.rng
        opts = [("store", 30), ("pop", 22), ("assert", 3), ("storeuse", 7)]
        if depth > 0:
            opts += [("if", 10), ("ifelse", 8), ("cond", 6), ("while", 8), ("for", 6), ("seq", 4)]
        if in_loop:
            opts += [("break", 7), ("continue", 6)]
        opts += [("ret", 5), ("err", 1), ("approve", 1)]
        if any(s["ret"] == "none" for s in ctx["callable"]):
            opts.append(("call", 7))
        if ctx["mvs"]:
            opts.append(("mv", 5))
        if ctx["dyn"] and self.nonabi(ctx):
            opts += [("dset", 4), ("dstore", 3)]
        if ctx["sub"] is not None and ctx["sub"]["ref"]:
            opts.append(("refstore", 5))
        k = self.pick(opts)
        d = depth - 1
        if k == "store":
            return ["store", rng.choice(ctx["vars"]), self.expr(ctx, min(d, 1) if d >= 0 else 0)]
        if k == "pop":
            return ["pop", self.expr(ctx, max(0, min(d, 2)))]
        if k == "assert":
            return ["assert", self.expr(ctx, 1)]
        if k == "if":
            return ["if", self.expr(ctx, 1), self.stmts(ctx, d, in_loop, rng.randrange(1, 3)), None]
        if k == "ifelse":
            return ["if", self.expr(ctx, 1), self.stmts(ctx, d, in_loop, rng.randrange(1, 3)), self.stmts(ctx, d, in_loop, rng.randrange(1, 3))]
        if k == "cond":
            return ["cond", [[self.expr(ctx, 1), self.stmts(ctx, d, in_loop, rng.randrange(1, 3))] for _ in range(rng.randrange(1, 4))]]
        if k == "while":
            return ["while", self.expr(ctx, 1), self.stmts(ctx, d, True, rng.randrange(1, 4))]
        if k == "for":
            return ["for", [self.simple_stmt(ctx, 0) for _ in range(rng.randrange(0, 2))], self.expr(ctx, 1),
                    [self.simple_stmt(ctx, 0) for _ in range(rng.randrange(0, 2))], self.stmts(ctx, d, True, rng.randrange(1, 4))]
        if k == "seq":
            return ["seq", self.stmts(ctx, d, in_loop, rng.randrange(0, 3))]
        if k == "storeuse":
            # adjacent store/load pair of one variable in one block (what the scratch-slot optimiser cancels)
            v = rng.choice(ctx["vars"])
            return ["seq", [["store", v, ["int", rng.randrange(10)]], ["pop", ["load", v, self.new_site()]]]]
        if k == "break":
            return ["break"]
        if k == "continue":
            return ["continue"]
        if k == "ret":
            if ctx["sub"] is None:
                return ["ret", self.expr(ctx, 1)]
            return ["ret", self.expr(ctx, 1) if ctx["sub"]["ret"] == "uint64" else None]
        if k == "err":
            return ["err"]
        if k == "approve":
            return ["approve"]
        if k == "call":
            f = rng.choice([s for s in ctx["callable"] if s["ret"] == "none"])
            return ["call", f["name"], [self.expr(ctx, 1) for _ in range(f["nval"])], self.refarg(ctx, f)]
        if k == "mv":
            return ["mv", rng.choice(ctx["mvs"])]
        if k == "dset":
            return ["dset", rng.choice(ctx["dyn"]), rng.choice(self.nonabi(ctx))]
        if k == "dstore":
            return ["dstore", rng.choice(ctx["dyn"]), self.expr(ctx, 1), self.new_site()]
        return ["refstore", self.expr(ctx, 1)]


def _has_load(x):
    if isinstance(x, list):
        if len(x) == 3 and x[0] == "load" and x[1] == "x":
            return True
        return any(_has_load(y) for y in x)
    return False


def many_conditional_stores(k, load_var=0, first_unconditional=False):
    """k independent one-armed If(..).Then(v_i.store(..)) followed by a read of v_<load_var>: the validator's state
    space is 2^k slot sets; with load_var = 0 the only unstored path (false edge of the FIRST If) is the last one a
    true-edge-first depth-first walk reaches, after ~2^(k-1) * 2 (block, set) states."""
    vs = ["y"] + ["v%d" % i for i in range(k)]
    main = [["store", "y", ["int", 0]]]
    for i in range(k):
        if i == 0 and first_unconditional:
            main.append(["store", "v0", ["int", 1]])
        else:
            main.append(["if", ["fee"], [["store", "v%d" % i, ["int", 1]]], None])
    main += [["pop", ["load", "v%d" % load_var, 1]], ["ret", ["int", 1]]]
    return {"vars": {v: {"kind": "auto"} for v in vs}, "dyn": [], "mvs": [], "subs": [], "main": main}


def same_name_family():
    """Several routines with the SAME Python name; exactly one of them (every position in definition order, calls in
    both orders) reads its own local before writing it on the path that skips the store; also a subroutine called
    `main` (clean sub / bad main, bad sub / clean main) and same-named void ABIReturnSubroutines."""
    out = []
    site = [0]

    def sub(j, bad, ret, abi=False, pyname="helper"):
        z = "z%d" % j
        site[0] += 2
        if bad:
            body = [["if", ["param", 0] if ret == "uint64" else ["fee"], [["store", z, ["int", 1]]], None]]
        else:
            body = [["store", z, ["int", 1]]]
        d = {"name": "h%d" % j, "pyname": pyname, "nval": 1 if ret == "uint64" else 0, "ref": False, "ret": ret, "body": body,
             "result": ["load", z, site[0]] if ret == "uint64" else None}
        if ret == "none":
            d["body"] = body + [["pop", ["load", z, site[0]]]]
        if abi:
            d["abi"] = True
        return d

    def prog(subs, order, main_bad=False):
        vars_ = {"y": {"kind": "auto"}, "x": {"kind": "auto"}}
        for sd in subs:
            vars_["z" + sd["name"][1:]] = {"kind": "auto"}
        main = [["store", "y", ["int", 0]]]
        if main_bad:
            site[0] += 1
            main += [["if", ["fee"], [["store", "x", ["int", 1]]], None], ["pop", ["load", "x", site[0]]]]
        for j in order:
            sd = subs[j]
            if sd["ret"] == "uint64":
                main.append(["pop", ["callv", sd["name"], [["fee"]], None]])
            else:
                main.append(["call", sd["name"], [], None])
        main.append(["ret", ["int", 1]])
        return {"vars": vars_, "dyn": [], "mvs": [], "subs": subs, "main": main}

    for n in (2, 3, 4):
        for bad in list(range(n)) + [None]:
            for ret in ("uint64", "none"):
                for rev in (False, True):
                    subs = [sub(j, j == bad, ret) for j in range(n)]
                    order = list(range(n))[::-1] if rev else list(range(n))
                    out.append((prog(subs, order), "same-name-%d-bad%s-%s%s" % (n, bad, ret, "-rev" if rev else "")))
    for n in (2, 3):
        for bad in range(n):
            subs = [sub(j, j == bad, "none", abi=True) for j in range(n)]
            out.append((prog(subs, list(range(n))), "same-name-abi-%d-bad%d" % (n, bad)))
    # a subroutine literally called main
    out.append((prog([sub(0, False, "uint64", pyname="main")], [0], main_bad=True), "sub-called-main-bad-main"))
    out.append((prog([sub(0, True, "uint64", pyname="main")], [0], main_bad=False), "sub-called-main-bad-sub"))
    out.append((prog([sub(0, False, "none", pyname="main"), sub(1, False, "none", pyname="main")], [0, 1], main_bad=True), "two-subs-called-main-bad-main"))
    out.append((prog([sub(0, False, "none", pyname="main")], [0], main_bad=False), "sub-called-main-clean"))
    return out


def exhaustive_small(level):
    """Systematic one/two-variable programs: every combination of a control shape with short bodies
    of {store x, read x, break, continue, return} followed by a final read of x."""
    site = [0]

    def Lx(v="x"):
        site[0] += 1
        return ["pop", ["load", v, site[0]]]

    def atoms(in_loop):
        a = [lambda: ["store", "x", ["int", 1]], lambda: Lx(), lambda: ["ret", ["int", 1]]]
        if in_loop:
            a += [lambda: ["break"], lambda: ["continue"]]
        return a

    def bodies(in_loop, maxlen):
        at = atoms(in_loop)
        out = [[a] for a in at]
        if maxlen >= 2:
            out += [[a, b] for a in at for b in at]
        return out

    conds = [lambda: ["fee"], lambda: ["lt", ["load", "x", 0], ["int", 3]]]

    def fix_sites(x):
        if isinstance(x, list):
            if len(x) == 3 and x[0] == "load" and x[2] == 0:
                site[0] += 1
                x[2] = site[0]
            for y in x:
                fix_sites(y)
        return x

    def mk(stmts):
        stmts = [s() if callable(s) else s for s in stmts]
        return stmts

    def inst(b):
        return [a() for a in b]

    progs = []

    def emit(shape):
        # the leading store to y keeps the start block non-empty: a routine that starts with a loop trips
        # NormalizeBlocks' start-block defect (C20) and never reaches validateSlots
        main = [["store", "y", ["int", 0]]] + shape + [Lx(), ["ret", ["int", 1]]]
        progs.append({"vars": {"x": {"kind": "auto"}, "y": {"kind": "auto"}}, "dyn": [], "mvs": [], "subs": [], "main": fix_sites(main)})
        # the same shape followed by an ADJACENT `x.store(e); use(x.load())`: with the scratch-slot optimiser on the pair
        # is a cancellation candidate, and cancelling it deletes every load/store of x in the routine — the optimiser
        # must see the earlier reads of x (in an If arm, a loop body, a sibling block) as dependencies
        if any(_has_load(s_) for s_ in shape):
            main2 = [["store", "y", ["int", 0]]] + copy.deepcopy(shape) + [["store", "x", ["int", 5]], ["ret", ["load", "x", 0]]]
            progs.append({"vars": {"x": {"kind": "auto"}, "y": {"kind": "auto"}}, "dyn": [], "mvs": [], "subs": [], "main": fix_sites(renumber(main2))})

    def renumber(x):
        if isinstance(x, list):
            if len(x) == 3 and x[0] == "load":
                x[2] = 0
            for y in x:
                renumber(y)
        return x

    for b in bodies(False, 2):
        emit(inst(b))
    for c in conds:
        for b in bodies(False, 2):
            emit([["if", c(), inst(b), None]])
            for b2 in bodies(False, 1):
                emit([["if", c(), inst(b), inst(b2)]])
            emit([["cond", [[c(), inst(b)]]]])
            for b2 in bodies(False, 1):
                emit([["cond", [[c(), inst(b)], [["fee"], inst(b2)]]]])
        for b in bodies(True, 2):
            emit([["while", c(), inst(b)]])
            emit([["for", [], c(), [], inst(b)]])
            if level >= 1:
                emit([["for", [["store", "y", ["int", 0]]], c(), [["store", "x", ["int", 2]]], inst(b)]])
        # a conditional inside the loop body, then one more atom
        for a1 in atoms(True):
            for a2 in atoms(True):
                emit([["while", c(), [["if", ["fee"], [a1()], None], a2()]]])
                if level >= 1:
                    for a3 in atoms(True):
                        emit([["while", c(), [["if", ["fee"], [a1()], [a3()]], a2()]]])
                        emit([["for", [], c(), [a3()] if a3()[0] in ("store", "pop") else [], [["if", ["fee"], [a1()], None], a2()]]])
    if level >= 1:
        # nested loops with exits at both levels
        for a1 in atoms(True):
            for a2 in atoms(True):
                for a3 in atoms(True):
                    emit([["while", ["fee"], [["while", ["fee"], [a1(), ["if", ["fee"], [a2()], None]]], a3()]]])
    return progs


def dumps(recipe):
    return json.dumps(recipe, sort_keys=True)
