"""Shared by the whole-program checks (C01, C03, C04, C05, C18, C20): generate recipes, build the real
PyTeal objects, compile with the real compiler and with the model, run real TEAL on the extracted AVM
and evaluate the recipe with the source semantics."""
import itertools
import random

from common import *  # noqa
from build import Builder, BuildError, wire_opts
from gen_prog import Gen, gen_context, I, B


def mode_of(pt, app):
    return pt.Mode.Application if app else pt.Mode.Signature


def optimize_of(pt, ss, fp):
    if ss is None and fp is None:
        return None
    return pt.OptimizeOptions(scratch_slots=ss, frame_pointers=fp)


class Case:
    __slots__ = ("recipe", "version", "app", "ss", "fp", "builder", "real", "model", "wire_prog", "wire_opts", "expr")

    def describe(self):
        return {"recipe": repr(self.recipe), "version": self.version, "mode": "app" if self.app else "sig",
                "scratch_slots": self.ss, "frame_pointers": self.fp,
                "real": (self.real[0], self.real[1] if self.real[0] != "ok" else self.real[1].split("\n")),
                "model": repr(self.model)[:4000]}


def compile_case(pt, model, recipe, version, app, ss=None, fp=None, prepare=None):
    """Build + compile one recipe with the real compiler and the model. Returns a Case (or None if the
    recipe cannot be built through the public constructors)."""
    c = Case()
    c.recipe, c.version, c.app, c.ss, c.fp = recipe, version, app, ss, fp
    b = Builder(pt)
    if prepare:
        prepare(b)
    r = call_real(b.build, recipe)
    if r[0] != "ok":
        c.builder, c.real, c.model, c.expr = b, ("build-exc", r[1], r[2]), None, None
        return c
    c.expr = r[1]
    c.builder = b
    if b.subs:
        use_fp = fp if fp is not None else version >= 8
        if not (use_fp and version < 8):
            r2 = call_real(b.evaluate_subs, use_fp)
            if r2[0] != "ok":
                c.real, c.model = ("build-exc", r2[1], r2[2]), None
                return c
    c.real = call_real(lambda: pt.compileTeal(c.expr, mode_of(pt, app), version=version, optimize=optimize_of(pt, ss, fp)))
    c.wire_prog = b.wire_prog(recipe)
    c.wire_opts = wire_opts(version, app, ss, fp)
    c.model = model.ask("(compile %s %s)" % (c.wire_opts, c.wire_prog))
    return c


def same_outcome(c):
    """Does the model reproduce the real compiler's observable outcome exactly?"""
    if c.model is None:
        return None
    if c.model[0] == S("err") and isinstance(c.model[1], list) and c.model[1] and c.model[1][0] == S("unsupported"):
        return None
    if c.real[0] == "ok":
        return c.model[0] == S("ok") and "\n".join(c.model[1:]) == c.real[1]
    if c.real[0] == "exc":
        return c.model[0] == S("err") and repr(c.model[1]) == c.real[1]
    return None


def run_teal(model, ctx, teal):
    return model.ask((S("run"), ctx, teal))


def run_denote(model, ctx, c):
    return model.ask("(denote %s %s %s)" % (sx(ctx), c.wire_opts, c.wire_prog))


def run_denote_c(model, ctx, c):
    return model.ask("(denote-c %s %s %s)" % (sx(ctx), c.wire_opts, c.wire_prog))


def observable(res):
    """(verdict, trace) of a (ran ...) response; None when inconclusive (fuel / unsupported op)."""
    if not isinstance(res, list) or not res or res[0] != S("ran"):
        return None
    v = res[1]
    if v == S("fuel") or (isinstance(v, list) and v and v[0] == S("unsup")):
        return None
    # a failing or rejected call leaves no effects behind: only the verdict is observable
    if v != S("approve"):
        return (repr(v), None)
    return (repr(v), repr(res[3]))


def has_ctrl_in_operand(recipe, in_operand=False):
    """class predicate of the known finding `ctrl_in_operand`: a Break/Continue/Return/Exit evaluated
    while an operand of an enclosing operator may still be on the stack."""
    if recipe in ("break", "continue"):
        return in_operand
    k = recipe[0]
    if k in ("return", "exit"):
        if in_operand:
            return True
        return any(has_ctrl_in_operand(x, True) for x in recipe[1:] if isinstance(x, tuple))
    if k == "op":
        args = recipe[4]
        return any(has_ctrl_in_operand(a, True if len(args) >= 1 else in_operand) for a in args)
    if k == "nary":
        return any(has_ctrl_in_operand(a, True) for a in recipe[3])
    if k == "seq":
        return any(has_ctrl_in_operand(a, in_operand) for a in recipe[1:])
    if k == "if":
        return has_ctrl_in_operand(recipe[1], True) or any(has_ctrl_in_operand(a, in_operand) for a in recipe[2:])
    if k == "cond":
        return any(has_ctrl_in_operand(c, True) or has_ctrl_in_operand(v, in_operand) for (c, v) in recipe[1:])
    if k == "while":
        return has_ctrl_in_operand(recipe[1], True) or has_ctrl_in_operand(recipe[2], in_operand)
    if k == "for":
        return has_ctrl_in_operand(recipe[1], in_operand) or has_ctrl_in_operand(recipe[2], True) or \
            has_ctrl_in_operand(recipe[3], in_operand) or has_ctrl_in_operand(recipe[4], in_operand)
    if k == "assert":
        return any(has_ctrl_in_operand(a, True) for a in recipe[1])
    if k == "multi":
        return any(has_ctrl_in_operand(a, True) for a in recipe[3])
    if k == "wide":
        return any(has_ctrl_in_operand(a, True) for a in recipe[1] + recipe[2])
    if k == "call":
        return any(has_ctrl_in_operand(a, True) for a in recipe[2] if isinstance(a, tuple) and a[0] not in ("varref", "paramref"))
    if k in ("varref", "paramref", "param", "refload"):
        return False
    if k == "refstore":
        return has_ctrl_in_operand(recipe[2], True)
    return False


def small_recipes():
    """Exhaustive-ish small control-flow shapes (degenerate ones included)."""
    fee = ("op", "txn", ("Fee",), "u", ())
    c1 = ("op", "<", (), "u", (fee, I(3)))
    pop1 = ("op", "pop", (), "n", (I(1),))
    atoms = [pop1, ("seq",), "break", "continue", ("exit", I(1)), ("if", c1, pop1), ("if", c1, pop1, ("seq",)),
             ("if", c1, "break"), ("if", c1, "continue", pop1), ("seq", pop1, "break"), ("assert", (c1,))]
    out = []
    for body in atoms:
        out.append(("seq", ("while", c1, body), ("exit", I(1))))
        out.append(("seq", pop1, ("while", c1, body), ("exit", I(1))))
        out.append(("seq", ("for", ("seq",), c1, ("seq",), body), ("exit", I(1))))
        out.append(("seq", ("while", I(0), ("while", c1, body)), ("exit", I(0))))
    simple = [a for a in atoms if a not in ("break", "continue") and "break" not in repr(a) and "continue" not in repr(a)]
    for a, b in itertools.product(simple, repeat=2):
        out.append(("seq", a, b, ("exit", I(1))))
        out.append(("seq", ("if", c1, a, b), ("exit", I(1))))
        out.append(("cond", (c1, ("seq", a, ("exit", I(1)))), (I(1), ("seq", b, ("exit", I(0))))))
    out.append(("seq",))
    out.append(("seq", ("seq",), ("seq", ("seq",))))
    out.append(I(1))
    out.append(("exit", I(1)))
    out.append(("return", ("if", c1, I(1), I(0))))
    out.append(("nary", "+", "u", (I(1),)))
    out.append(("seq", ("op", "store", (("slot", "x"),), "n", (I(1),)), ("op", "store", (("slot", "x"),), "n", (I(2),)),
                ("return", ("op", "load", (("slot", "x"),), "u", ()))))
    out.append(("seq", ("op", "store", (("slot", "x"),), "n", (I(7),)), ("return", ("op", "load", (("slot", "x"),), "u", ()))))
    return out


def random_case_params(rng):
    version = rng.choice([2, 3, 4, 5, 6, 6, 7, 8, 8, 9, 10, 10])
    app = rng.random() < 0.7
    ss = rng.choice([None, None, True, False])
    fp = rng.choice([None, None, None, False, True]) if version >= 8 else rng.choice([None, None, False])
    return version, app, ss, fp
