"""C11 cross-process determinism probe — executed in a FRESH interpreter under a given PYTHONHASHSEED:
    python c11_probe.py <variant-seed> <rebuild-rounds> [name ...]
    python c11_probe.py <variant-seed> fresh <recompile-program> <label>
    python c11_probe.py <variant-seed> seq <independent-program> ...     (in this order, one interpreter)
Builds a directed set of programs written directly against PyTeal's public API (dict/set/enum driven constructs:
InnerTxnBuilder.MethodCall / ExecuteMethodCall / SetFields / Execute with several fields, transaction-typed method
arguments, Router programs, subroutine-heavy programs, many ScratchVars, Cond, NamedTuple, abi.make, methods with
many arguments, MultiValue/MaybeValue, Tmpl, OptimizeOptions) and prints {name: [outcome, TEAL or exception class]}.

<variant-seed> (from VERIF_SEED) picks, identically in every child, how many and which fields / arguments / variables
each program uses and in which SOURCE order they are written; the child's own hash seed must not matter."""
import json
import random
import sys


def programs(vseed):
    from typing import Literal
    import pyteal as pt
    from pyteal import abi

    R = random.Random(vseed)
    T = pt.TealType
    F = pt.TxnField
    P = {}

    def reg(fn):
        P[fn.__name__] = fn
        return fn

    def app(expr, version=8, **kw):
        return pt.compileTeal(expr, pt.Mode.Application, version=version, **kw)

    extra_pool = [
        (F.fee, lambda: pt.Int(0)),
        (F.note, lambda: pt.Bytes("deposit")),
        (F.on_completion, lambda: pt.OnComplete.OptIn),
        (F.sender, lambda: pt.Global.current_application_address()),
        (F.rekey_to, lambda: pt.Global.zero_address()),
        (F.lease, lambda: pt.Bytes("base16", "0x" + "11" * 32)),
        (F.global_num_uints, lambda: pt.Int(1)),
        (F.extra_program_pages, lambda: pt.Int(0)),
    ]

    def extras(n):
        picked = R.sample(extra_pool, n)
        return lambda: {k: mk() for k, mk in picked}

    ex4, ex3, ex5, ex2 = extras(4), extras(3), extras(5), extras(2)
    v_mc = R.choice([6, 7, 8, 10])

    @reg
    def execute_method_call_extra_fields():
        return app(pt.Seq(pt.InnerTxnBuilder.ExecuteMethodCall(
            app_id=pt.Int(1234), method_signature="deposit(uint64)void", args=[pt.Itob(pt.Int(5))], extra_fields=ex4()), pt.Approve()), v_mc)

    @reg
    def method_call_three_extra_fields_and_txn_arg():
        return app(pt.Seq(
            pt.InnerTxnBuilder.Begin(),
            pt.InnerTxnBuilder.MethodCall(
                app_id=pt.Int(77), method_signature="swap(pay,uint64,account)uint64",
                args=[{F.type_enum: pt.TxnType.Payment, F.receiver: pt.Txn.sender(), F.amount: pt.Int(10), F.fee: pt.Int(0), F.note: pt.Bytes("p")},
                      pt.Itob(pt.Int(3)), pt.Txn.sender()],
                extra_fields=ex3()),
            pt.InnerTxnBuilder.Next(),
            pt.InnerTxnBuilder.MethodCall(app_id=None, method_signature="create(string,uint8)void",
                                          args=[pt.Bytes("x"), pt.Bytes("base16", "0x01")], extra_fields=ex5()),
            pt.InnerTxnBuilder.Submit(), pt.Approve()), 8)

    @reg
    def method_call_abi_values_and_references():
        a = abi.Uint64()
        s = abi.String()
        acct = abi.Account()
        asset = abi.Asset()
        return app(pt.Seq(
            a.set(pt.Int(1)), s.set(pt.Bytes("hi")),
            pt.InnerTxnBuilder.Begin(),
            pt.InnerTxnBuilder.MethodCall(app_id=pt.Int(9), method_signature="m(uint64,string,account,asset,application)void",
                                          args=[a, s, pt.Txn.sender(), pt.Int(5), pt.Int(6)], extra_fields=ex2()),
            pt.InnerTxnBuilder.Submit(), pt.Approve()), 8)

    sf_pool = [(F.type_enum, lambda: pt.TxnType.AssetConfig), (F.config_asset_total, lambda: pt.Int(1000)), (F.config_asset_decimals, lambda: pt.Int(2)),
               (F.config_asset_unit_name, lambda: pt.Bytes("U")), (F.config_asset_name, lambda: pt.Bytes("Unit")),
               (F.config_asset_manager, lambda: pt.Global.current_application_address()), (F.fee, lambda: pt.Int(0)),
               (F.note, lambda: pt.Bytes("n")), (F.config_asset_default_frozen, lambda: pt.Int(0))]
    sf = R.sample(sf_pool[1:], R.randint(4, 7))
    R.shuffle(sf)

    @reg
    def set_fields_many():
        d = {F.type_enum: pt.TxnType.AssetConfig}
        for k, mk in sf:
            d[k] = mk()
        d2 = {F.type_enum: pt.TxnType.ApplicationCall, F.application_id: pt.Int(5), F.application_args: [pt.Bytes("a"), pt.Bytes("b")],
              F.accounts: [pt.Txn.sender(), pt.Global.zero_address()], F.assets: [pt.Int(1), pt.Int(2)], F.applications: [pt.Int(3)],
              F.on_completion: pt.OnComplete.NoOp, F.fee: pt.Int(0)}
        return app(pt.Seq(pt.InnerTxnBuilder.Begin(), pt.InnerTxnBuilder.SetFields(d), pt.InnerTxnBuilder.Next(), pt.InnerTxnBuilder.SetFields(d2),
                          pt.InnerTxnBuilder.Submit(), pt.InnerTxnBuilder.Execute({F.type_enum: pt.TxnType.Payment, F.receiver: pt.Txn.sender(),
                                                                                  F.amount: pt.Int(1), F.close_remainder_to: pt.Txn.sender(), F.fee: pt.Int(0)}),
                          pt.Approve()), R.choice([6, 8]))

    nvars = R.randint(12, 40)

    @reg
    def many_scratch_vars_and_cond():
        vs = [pt.ScratchVar(T.uint64) for _ in range(nvars)]
        res = [pt.ScratchVar(T.uint64, i) for i in (3, 200, 17)]
        dyn = pt.DynamicScratchVar(T.uint64)
        mv = pt.App.globalGetEx(pt.Int(0), pt.Bytes("k"))
        return app(pt.Seq(
            *[v.store(pt.Int(i)) for i, v in enumerate(vs + res)],
            dyn.set_index(vs[0]), dyn.store(pt.Int(9)), mv,
            pt.Cond(*[[v.load() == pt.Int(i), pt.Seq(vs[(i * 7) % nvars].store(v.load() + dyn.load()), pt.Pop(res[i % 3].load()))] for i, v in enumerate(vs[:9])],
                    [mv.hasValue(), pt.Pop(mv.value())]),
            pt.For(vs[1].store(pt.Int(0)), vs[1].load() < pt.Int(4), vs[1].store(vs[1].load() + pt.Int(1))).Do(
                pt.If(vs[2].load()).Then(pt.Continue()).ElseIf(vs[3].load()).Then(pt.Break()).Else(vs[4].store(pt.Int(1)))),
            pt.Approve()), R.choice([6, 8, 10]))

    nsubs = R.randint(5, 9)
    edges = {k: sorted(R.sample(range(nsubs), R.randint(0, 3))) for k in range(nsubs)}

    @reg
    def subroutine_heavy():
        ws = [None] * nsubs

        def mk(k):
            def body(x, y):
                t = pt.ScratchVar(T.uint64)
                return pt.Seq(t.store(x + y), *[pt.If(t.load() > pt.Int(k + 1)).Then(t.store(ws[c](t.load() - pt.Int(1), y))) for c in edges[k]], t.load())
            body.__name__ = "sub%d" % k
            return pt.Subroutine(T.uint64)(body)
        for k in range(nsubs):
            ws[k] = mk(k)

        @pt.Subroutine(T.none)
        def byref(v: pt.ScratchVar, a: abi.Uint64):
            return v.store(v.load() + a.get())
        z = pt.ScratchVar(T.uint64)
        u = abi.Uint64()
        out = {}
        for ver, opt in ((6, None), (8, None), (10, pt.OptimizeOptions(scratch_slots=True, frame_pointers=False))):
            e = pt.Seq(z.store(pt.Int(1)), u.set(pt.Int(2)), byref(z, u), *[pt.Pop(w(z.load(), pt.Int(k))) for k, w in enumerate(ws)], pt.Approve())
            out[ver] = app(e, ver, **({"optimize": opt} if opt else {}))
        return "\n====\n".join(out[k] for k in sorted(out))

    @reg
    def named_tuple_and_abi_make():
        class Acct(abi.NamedTuple):
            owner: abi.Field[abi.Address]
            balance: abi.Field[abi.Uint64]
            name: abi.Field[abi.String]
            tags: abi.Field[abi.DynamicArray[abi.Uint16]]
            flag: abi.Field[abi.Bool]
        acct = Acct()
        owner, bal, name, flag = abi.Address(), abi.Uint64(), abi.String(), abi.Bool()
        tags = abi.make(abi.DynamicArray[abi.Uint16])
        t1, t2 = abi.Uint16(), abi.Uint16()
        tup = abi.make(abi.Tuple3[abi.Uint64, abi.StaticArray[abi.Byte, Literal[4]], abi.String])
        sa = abi.make(abi.StaticArray[abi.Byte, Literal[4]])
        bs = [abi.Byte() for _ in range(4)]
        return app(pt.Seq(
            owner.set(pt.Txn.sender()), bal.set(pt.Int(7)), name.set("n"), flag.set(pt.Int(1)), t1.set(1), t2.set(2), tags.set([t1, t2]),
            acct.set(owner, bal, name, tags, flag),
            *[b.set(i) for i, b in enumerate(bs)], sa.set(bs), tup.set(bal, sa, name),
            acct.balance.use(lambda b: pt.Pop(b.get())), acct.name.use(lambda s: pt.Log(s.get())),
            tup[2].use(lambda s: pt.Log(s.get())), pt.Log(acct.encode()), pt.Log(tup.encode()), pt.Approve()), R.choice([7, 8, 10]))

    nargs = R.randint(3, 7)
    arg_types = [R.choice(["abi.Uint64", "abi.String", "abi.Bool", "abi.Address", "abi.Uint8", "abi.DynamicBytes"]) for _ in range(nargs)]

    @reg
    def router_many_methods():
        r = pt.Router("probe", pt.BareCallActions(
            no_op=pt.OnCompleteAction.create_only(pt.Approve()), opt_in=pt.OnCompleteAction.call_only(pt.Approve()),
            close_out=pt.OnCompleteAction.always(pt.Approve()), update_application=pt.OnCompleteAction.never(),
            delete_application=pt.OnCompleteAction.call_only(pt.Reject())), clear_state=pt.Approve())
        ns = {"pt": pt, "abi": abi}
        src = "def many(%s, *, output: abi.Uint64):\n    return output.set(pt.Int(%d))\n" % (", ".join("a%d: %s" % (i, t) for i, t in enumerate(arg_types)), nargs)
        exec(src, ns)
        r.add_method_handler(pt.ABIReturnSubroutine(ns["many"]))

        @r.method(no_op=pt.CallConfig.CALL, opt_in=pt.CallConfig.ALL)
        def add(a: abi.Uint64, b: abi.Uint64, *, output: abi.Uint64):
            return output.set(a.get() + b.get())

        @r.method
        def echo(s: abi.String, t: abi.PaymentTransaction, acc: abi.Account, *, output: abi.String):
            return output.set(s.get())

        @r.method(delete_application=pt.CallConfig.CALL)
        def bye():
            return pt.Approve()
        out = []
        for ver in (6, 8):
            a, c, contract = r.compile_program(version=ver)
            out += [a, c]
        out.append(json.dumps(contract.dictify(), sort_keys=False))
        return "\n====\n".join(out)

    big = R.randint(16, 18)

    @reg
    def router_sixteen_plus_args():
        r = pt.Router("wide", pt.BareCallActions(no_op=pt.OnCompleteAction.create_only(pt.Approve())), clear_state=pt.Approve())
        ns = {"pt": pt, "abi": abi}
        src = "def wide(%s, *, output: abi.Uint64):\n    return output.set(a0.get() + a%d.get())\n" % (", ".join("a%d: abi.Uint64" % i for i in range(big)), big - 1)
        exec(src, ns)
        r.add_method_handler(pt.ABIReturnSubroutine(ns["wide"]))
        return "\n====\n".join(sum((list(r.compile_program(version=v)[:2]) for v in (6, 8)), []))

    @reg
    def tmpl_and_assembled_constants():
        cs = [pt.Int(R.randrange(1, 10**6)) for _ in range(6)]
        e = pt.Seq(*[pt.Pop(c + c + pt.Tmpl.Int("TMPL_A")) for c in cs], pt.Pop(pt.Concat(pt.Bytes("a"), pt.Bytes("a"), pt.Tmpl.Bytes("TMPL_B"), pt.Tmpl.Addr("TMPL_C"))),
                   pt.Pop(pt.MethodSignature("f(uint64)void")), pt.Pop(pt.MethodSignature("f(uint64)void")), pt.Approve())
        return app(e, 6, assembleConstants=True) + "\n====\n" + pt.compileTeal(pt.Seq(pt.Pop(cs[0] + cs[0]), pt.Int(1)), pt.Mode.Signature, version=5, assembleConstants=True)

    @reg
    def multivalue_gitxn_and_wide_math():
        ap = pt.AssetParam.total(pt.Int(1))
        ah = pt.AssetHolding.balance(pt.Txn.sender(), pt.Int(1))
        bx = pt.BoxLen(pt.Bytes("b"))
        return app(pt.Seq(ap, ah, bx, pt.Pop(pt.If(ap.hasValue(), ap.value(), pt.Int(0)) + pt.If(ah.hasValue(), ah.value(), pt.Int(0)) + bx.value()),
                          pt.Pop(pt.WideRatio([pt.Int(2), pt.Int(3), pt.Txn.fee()], [pt.Int(5), pt.Int(7)])),
                          pt.Pop(pt.Gitxn[0].fee() + pt.Gtxn[1].fee() + pt.Txn.accounts.length()),
                          pt.Assert(pt.Int(1), pt.Int(2), comment="both"), pt.Approve()), 8)

    # ------------------------------------------------------------------------------------------
    # the SAME object compiled again, in version orders that cross PyTeal's version-dependent lowering choices in both
    # directions (extract family at 5, assert at 3, cover/uncover at 5, frame pointers at 8, optimiser default at 9).
    # A recompile program is {"build": () -> compile(label) -> text, "seq": [labels]}; the child compiles ONE object along
    # seq; the driver compares every attempt with a FRESH object compiled once at that label in a fresh interpreter.
    OPT = pt.OptimizeOptions
    CFG = {
        "v2": {"version": 2}, "v3": {"version": 3}, "v4": {"version": 4}, "v5": {"version": 5}, "v6": {"version": 6}, "v7": {"version": 7},
        "v8": {"version": 8}, "v9": {"version": 9}, "v10": {"version": 10},
        "v5ac": {"version": 5, "assembleConstants": True}, "v8nofp": {"version": 8, "optimize": OPT(frame_pointers=False)},
        "v10noopt": {"version": 10, "optimize": OPT(scratch_slots=False)}, "v8opt": {"version": 8, "optimize": OPT(scratch_slots=True)},
    }
    RC = {}

    def rec(seq):
        def deco(fn):
            RC[fn.__name__] = {"build": fn, "seq": seq}
            return fn
        return deco

    def expr_compiler(expr, mode):
        return lambda label: pt.compileTeal(expr, mode, **CFG[label])

    def router_compiler(r):
        def c(label):
            kw = dict(CFG[label])
            if "assembleConstants" in kw:
                kw["assemble_constants"] = kw.pop("assembleConstants")
            a_, c_, _ = r.compile_program(**kw)
            return a_ + "\n====\n" + c_
        return c

    @rec(["v4", "v6", "v4", "v2", "v5", "v3", "v6", "v2", "v5ac", "v4"])
    def recompile_bytes_lowering_v2_up():
        x = pt.Txn.note()
        v = pt.ScratchVar(T.bytes)
        e = pt.Seq(
            v.store(pt.Concat(x, pt.Bytes("abcdef"), pt.Bytes("base16", "0x0011"))),
            pt.Pop(pt.Substring(v.load(), pt.Int(1), pt.Int(3))), pt.Pop(pt.Substring(x, pt.Int(0), pt.Int(0))),
            pt.Pop(pt.Substring(x, pt.Int(2), pt.Int(300))), pt.Pop(pt.Substring(x, pt.Int(256), pt.Int(260))),
            pt.Pop(pt.Substring(x, pt.Txn.fee(), pt.Int(5))), pt.Pop(pt.Len(pt.Concat(x, x, x))),
            pt.If(pt.Txn.fee() > pt.Int(3), pt.Pop(pt.Int(1)), pt.Pop(pt.Int(2))),
            pt.Assert(pt.Txn.fee() < pt.Int(9), comment="c"), pt.Assert(pt.Int(1), pt.Int(2), comment="d"),
            pt.Cond([pt.Txn.fee() == pt.Int(1), pt.Int(1)], [pt.Int(1), pt.Int(2)]))
        return expr_compiler(e, pt.Mode.Signature)

    @rec(["v5", "v7", "v5", "v8", "v7", "v9", "v8", "v6", "v10", "v5"])
    def recompile_extract_suffix_wide_v5_up():
        x = pt.Txn.note()
        mv = pt.App.globalGetEx(pt.Int(0), pt.Bytes("k"))
        ah = pt.AssetHolding.balance(pt.Txn.sender(), pt.Int(1))
        e = pt.Seq(
            pt.Pop(pt.Extract(x, pt.Int(1), pt.Int(2))), pt.Pop(pt.Extract(x, pt.Int(0), pt.Int(0))), pt.Pop(pt.Extract(x, pt.Int(3), pt.Int(300))),
            pt.Pop(pt.Extract(x, pt.Txn.fee(), pt.Int(2))), pt.Pop(pt.Suffix(x, pt.Int(2))), pt.Pop(pt.Suffix(x, pt.Int(300))), pt.Pop(pt.Suffix(x, pt.Txn.fee())),
            pt.Pop(pt.Substring(x, pt.Int(1), pt.Int(3))), pt.Pop(pt.BytesZero(pt.Int(4))), pt.Pop(pt.Concat(pt.BytesZero(pt.Int(2)), x)),
            pt.Pop(pt.ExtractUint16(x, pt.Int(0))), pt.Pop(pt.WideRatio([pt.Txn.fee(), pt.Int(3), pt.Int(5)], [pt.Int(2), pt.Int(7)])),
            mv, ah, pt.Pop(pt.If(mv.hasValue(), mv.value(), pt.Int(0)) + pt.If(ah.hasValue(), ah.value(), pt.Int(0))),
            pt.Cond([pt.Txn.fee() == pt.Int(1), pt.Pop(pt.Int(1))], [pt.Int(1), pt.Pop(pt.Int(2))]),
            pt.Assert(pt.Txn.fee() <= pt.Int(1000), comment="fee too high"), pt.Approve())
        return expr_compiler(e, pt.Mode.Application)

    @rec(["v6", "v6", "v8", "v6", "v10noopt", "v8", "v7", "v8", "v7", "v9", "v8", "v6"])
    def recompile_assert_comment_pragma_nonce():
        v = pt.ScratchVar(T.uint64)
        mv = pt.App.globalGetEx(pt.Int(0), pt.Bytes("k"))
        body = pt.Seq(
            pt.Assert(pt.Txn.fee() <= pt.Int(1000), comment="fee too high"),
            pt.Assert(pt.Txn.fee() > pt.Int(0), pt.Txn.first_valid() > pt.Int(1), pt.Int(1), comment="three conditions"),
            pt.Assert(pt.Int(1)), pt.Assert(pt.Int(1), pt.Int(2)),
            pt.Comment("outer", pt.Seq(v.store(pt.Int(1)), pt.Comment("inner\nsecond line", pt.Pop(v.load())))),
            mv, pt.If(mv.hasValue()).Then(pt.Pop(mv.value())).ElseIf(v.load()).Then(pt.Pop(pt.Int(2))).Else(pt.Pop(pt.Int(3))),
            pt.Cond([v.load() == pt.Int(1), pt.Pop(pt.Int(1))], [pt.Int(1), pt.Pop(pt.WideRatio([v.load(), pt.Int(3)], [pt.Int(2)]))]),
            pt.Pop(pt.Nonce("base16", "0xabcd", pt.Int(7))),
            pt.Approve())
        return expr_compiler(pt.Pragma(body, compiler_version=">=0.20.0"), pt.Mode.Application)

    @rec(["v2", "v3", "v2", "v5", "v3", "v5ac", "v3", "v2", "v5ac"])
    def recompile_signature_low_versions():
        e = pt.Seq(pt.Assert(pt.Txn.fee() < pt.Int(9), comment="c"), pt.Assert(pt.Int(1), pt.Int(2), comment="d"),
                   pt.Pop(pt.Substring(pt.Arg(0), pt.Int(1), pt.Int(3))), pt.Int(1))
        return expr_compiler(e, pt.Mode.Signature)

    @rec(["v7", "v8", "v7", "v9", "v8", "v6", "v8nofp", "v10", "v8opt", "v9", "v7", "v10noopt"])
    def recompile_subroutines_abi_itxn():
        @pt.Subroutine(T.uint64)
        def fact(n):
            t = pt.ScratchVar(T.uint64)
            return pt.Seq(pt.Assert(n < pt.Int(30), comment="bounded"), t.store(n), pt.If(n <= pt.Int(1), pt.Int(1), fact(n - pt.Int(1)) * t.load()))

        @pt.Subroutine(T.none)
        def swap(a: pt.ScratchVar, k, b: pt.ScratchVar):
            t = pt.ScratchVar(T.uint64)
            return pt.Seq(t.store(a.load() + k), a.store(b.load()), b.store(t.load()))

        @pt.ABIReturnSubroutine
        def inc(a: abi.Uint64, *, output: abi.Uint64):
            return pt.Seq(pt.Assert(a.get() < pt.Int(100), comment="small"), output.set(a.get() + pt.Int(1)))
        x, y = abi.Uint64(), abi.Uint64()
        p_, q_ = pt.ScratchVar(T.uint64), pt.ScratchVar(T.uint64)
        tup = abi.make(abi.Tuple2[abi.Uint64, abi.String])
        s_ = abi.String()
        opup = pt.OpUp(pt.OpUpMode.OnCall)
        e = pt.Seq(x.set(pt.Int(3)), inc(x).store_into(y), s_.set("s"), tup.set(y, s_), pt.Log(tup.encode()), pt.Pop(fact(y.get())),
                   p_.store(pt.Int(1)), q_.store(pt.Int(2)), swap(p_, pt.Int(1), q_), opup.ensure_budget(pt.Int(2000)),
                   pt.Pop(pt.Extract(s_.get(), pt.Int(0), pt.Int(1))), pt.Pop(pt.Substring(s_.get(), pt.Int(0), pt.Int(1))),
                   pt.InnerTxnBuilder.ExecuteMethodCall(app_id=pt.Int(1), method_signature="m(uint64)void", args=[y], extra_fields=ex2()),
                   pt.InnerTxnBuilder.Execute({F.type_enum: pt.TxnType.Payment, F.amount: pt.Int(1), F.receiver: pt.Txn.sender()}), pt.Approve())
        return expr_compiler(e, pt.Mode.Application)

    def single_method_router(ret):
        r = pt.Router("rc", pt.BareCallActions(no_op=pt.OnCompleteAction.create_only(pt.Seq(pt.Assert(pt.Txn.fee() < pt.Int(5000), comment="bare"), pt.Approve()))),
                      clear_state=pt.Seq(pt.Assert(pt.Int(1), comment="clear"), pt.Approve()))
        if ret:
            @r.method
            def m(a: abi.Uint64, b: abi.String, *, output: abi.Uint64):
                return pt.Seq(pt.Assert(a.get() > pt.Int(0), comment="positive"), pt.Pop(pt.Substring(b.get(), pt.Int(0), pt.Int(1))),
                              output.set(a.get() + pt.Len(b.get())))
        else:
            @r.method
            def n(a: abi.Uint64, s: abi.DynamicBytes):
                return pt.Seq(pt.Assert(a.get() > pt.Int(0), comment="positive"), pt.Assert(pt.Int(1), pt.Int(2), comment="two"),
                              pt.Pop(pt.Suffix(s.get(), pt.Int(1))))
        return router_compiler(r)

    @rec(["v6", "v6", "v8", "v7", "v8", "v7", "v9", "v8", "v6", "v8nofp", "v10"])
    def recompile_router_returning_method():
        return single_method_router(True)

    @rec(["v7", "v8", "v7", "v8", "v9", "v8", "v6", "v6", "v8nofp", "v6"])
    def recompile_router_void_method():
        return single_method_router(False)

    # ------------------------------------------------------------------------------------------
    # the same SOURCE built and compiled many times in one process, with unrelated allocations in between (object addresses,
    # hence the iteration order of sets of objects hashed by identity, differ from build to build)
    RB = {}

    def reb(fn):
        RB[fn.__name__] = fn
        return fn

    res_ids = R.sample([8, 16, 24, 32, 40, 64, 128], 3)

    @reb
    def rebuilt_recursive_reserved_slots():
        @pt.Subroutine(T.uint64)
        def f(n):
            tmp = pt.ScratchVar(T.uint64, res_ids[0])
            return pt.Seq(tmp.store(n * pt.Int(2)), pt.If(n == pt.Int(0), pt.Int(0), f(n - pt.Int(1)) + tmp.load()))

        @pt.Subroutine(T.uint64)
        def g(n, m):
            a = pt.ScratchVar(T.uint64, res_ids[1])
            b = pt.ScratchVar(T.uint64)
            c = pt.ScratchVar(T.uint64, res_ids[2])
            d = pt.ScratchVar(T.uint64)
            return pt.Seq(a.store(n), b.store(m), c.store(n + m), d.store(n * m),
                          pt.If(n == pt.Int(0), m, g(n - pt.Int(1), h(m)) + a.load() + b.load() + c.load() + d.load()))

        @pt.Subroutine(T.uint64)
        def h(k):
            w = pt.ScratchVar(T.uint64)
            z = pt.ScratchVar(T.uint64)
            return pt.Seq(w.store(k), z.store(k + pt.Int(1)), pt.If(k > pt.Int(5), g(k - pt.Int(6), z.load()), w.load() + z.load()))
        prog = pt.Return(f(pt.Int(5)) + g(pt.Int(2), pt.Int(3)))
        return "\n====\n".join([pt.compileTeal(prog, pt.Mode.Application, version=v) for v in (4, 6)] +
                                [pt.compileTeal(prog, pt.Mode.Application, version=9, optimize=pt.OptimizeOptions(frame_pointers=False, scratch_slots=False))])

    v_rb = R.choice([6, 7])

    @reb
    def rebuilt_many_subroutines_and_slots():
        ws = []
        def mk(k):
            def body(x):
                vs = [pt.ScratchVar(T.uint64) for _ in range(3)]
                return pt.Seq(*[v.store(x + pt.Int(i)) for i, v in enumerate(vs)], *[pt.Pop(w(vs[0].load())) for w in ws[max(0, k - 2):k]], vs[1].load() + vs[2].load())
            body.__name__ = "rb%d" % k
            return pt.Subroutine(T.uint64)(body)
        for k in range(6):
            ws.append(mk(k))
        gl = pt.ScratchVar(T.uint64)
        return pt.compileTeal(pt.Seq(gl.store(pt.Int(1)), *[pt.Pop(w(gl.load())) for w in ws], pt.Approve()), pt.Mode.Application, version=v_rb)

    nref = [2, 3, 4]

    @reg
    def byref_parameters_frame_pointers():
        ws = []
        for n in nref:
            kinds = ["ref"] * n + ["val"] * R.randint(1, 2) + (["abi"] if R.random() < 0.5 else [])
            R.shuffle(kinds)
            ann = {"ref": "pt.ScratchVar", "val": "pt.Expr", "abi": "abi.Uint64"}
            names = ["p%d" % i for i in range(len(kinds))]
            refs = [nm for nm, k in zip(names, kinds) if k == "ref"]
            vals = [nm if k == "val" else nm + ".get()" for nm, k in zip(names, kinds) if k != "ref"]
            src = "def br%d(%s):\n    return pt.Seq(%s, %s)\n" % (
                n, ", ".join("%s: %s" % (nm, ann[k]) for nm, k in zip(names, kinds)),
                ", ".join("%s.store(%s.load() + %s)" % (a, b, vals[i % len(vals)]) for i, (a, b) in enumerate(zip(refs, refs[1:] + refs[:1]))),
                " + ".join(r_ + ".load()" for r_ in refs))
            ns = {"pt": pt, "abi": abi}
            exec(src, ns)
            ws.append((pt.Subroutine(T.uint64)(ns["br%d" % n]), kinds))
        vs = [pt.ScratchVar(T.uint64) for _ in range(5)]
        au = abi.Uint64()
        calls = []
        for w, kinds in ws:
            it = iter(vs)
            calls.append(pt.Pop(w(*[next(it) if k == "ref" else (pt.Int(7) if k == "val" else au) for k in kinds])))
        e = pt.Seq(*[v.store(pt.Int(i)) for i, v in enumerate(vs)], au.set(pt.Int(1)), *calls, pt.Approve())
        out = []
        for kw in ({"version": 8}, {"version": 9}, {"version": 10}, {"version": 8, "optimize": pt.OptimizeOptions(frame_pointers=True)},
                   {"version": 10, "optimize": pt.OptimizeOptions(frame_pointers=True, scratch_slots=False)}, {"version": 6}, {"version": 8, "optimize": pt.OptimizeOptions(frame_pointers=False)}):
            out.append(app(e, **kw))
        return "\n====\n".join(out)

    # ------------------------------------------------------------------------------------------
    # independent little programs (no shared objects), each built AND compiled by its factory; a child runs them in some
    # order in ONE interpreter; every outcome — TEAL or which error — must equal that of the program alone in a fresh one.
    HS = {}

    def hs(fn):
        HS[fn.__name__] = fn
        return fn

    SIG = "ping()void"
    ADDR = "AAAAAAAAAAAAAAAAAAAAAAAAAAAAAAAAAAAAAAAAAAAAAAAAAAAAY5HFKQ"
    ADDR2 = "7777777777777777777777777777777777777777777777777774MSJUVU"

    def ac(e, v=6, mode=pt.Mode.Application):
        return pt.compileTeal(e, mode, version=v, assembleConstants=True)

    @hs
    def c_method_signature():
        return ac(pt.Seq(pt.Pop(pt.MethodSignature(SIG)), pt.If(pt.Txn.application_args[0] == pt.MethodSignature(SIG), pt.Approve(), pt.Reject())))

    @hs
    def c_bytes_with_signature_text():
        return ac(pt.Seq(pt.Log(pt.Bytes(SIG)), pt.Log(pt.Bytes(SIG)), pt.Log(pt.Bytes("x" + SIG)), pt.Approve()))

    @hs
    def c_bytes_with_tmpl_text():
        return ac(pt.Seq(pt.Log(pt.Bytes("TMPL_X")), pt.Log(pt.Bytes("TMPL_X")), pt.Log(pt.Bytes("TMPL_ADDR")), pt.Pop(pt.Int(7) + pt.Int(7)), pt.Approve()))

    @hs
    def c_tmpl_constants():
        return ac(pt.Seq(pt.Log(pt.Tmpl.Bytes("TMPL_X")), pt.Log(pt.Tmpl.Bytes("TMPL_X")), pt.Pop(pt.Tmpl.Addr("TMPL_ADDR")), pt.Pop(pt.Tmpl.Int("TMPL_X") + pt.Tmpl.Int("TMPL_X")), pt.Approve()))

    @hs
    def c_addr_constants():
        return ac(pt.Seq(pt.Pop(pt.Addr(ADDR)), pt.Pop(pt.Addr(ADDR)), pt.Pop(pt.Addr(ADDR2)), pt.Approve()))

    @hs
    def c_bytes_with_addr_text():
        return ac(pt.Seq(pt.Log(pt.Bytes(ADDR)), pt.Log(pt.Bytes(ADDR)), pt.Log(pt.Bytes(ADDR2)), pt.Approve()))

    @hs
    def c_bytes_encodings_same_value():
        return ac(pt.Seq(pt.Log(pt.Bytes("base16", "0x70696e67")), pt.Log(pt.Bytes("base64", "cGluZw==")), pt.Log(pt.Bytes("ping")), pt.Log(pt.Bytes("base32", "OBUW4ZY")),
                         pt.Log(pt.Bytes("0x70696e67")), pt.Log(pt.Bytes("cGluZw==")), pt.Approve()))

    @hs
    def c_int_names_and_values():
        return ac(pt.Seq(pt.Pop(pt.OnComplete.NoOp + pt.Int(0) + pt.TxnType.Payment + pt.Int(1) + pt.OnComplete.OptIn + pt.Int(1) + pt.TxnType.ApplicationCall + pt.Int(6)),
                         pt.Approve()), 5)

    @hs
    def c_method_signature_v8_router_like():
        return ac(pt.Cond([pt.Txn.application_args[0] == pt.MethodSignature("add(uint64,uint64)uint64"), pt.Approve()],
                          [pt.Txn.application_args[0] == pt.MethodSignature(SIG), pt.Seq(pt.Log(pt.Bytes("add(uint64,uint64)uint64")), pt.Approve())]), 8)

    def loop_fail(kind):
        i = pt.ScratchVar(T.uint64)
        if kind == "sqrt3":
            return pt.compileTeal(pt.Seq(i.store(pt.Int(0)), pt.While(i.load() < pt.Int(3)).Do(pt.Seq(pt.Pop(pt.Sqrt(pt.Int(4))), i.store(i.load() + pt.Int(1)))), pt.Int(1)),
                                  pt.Mode.Signature, version=3)
        if kind == "log4":
            return app(pt.Seq(pt.For(i.store(pt.Int(0)), i.load() < pt.Int(3), i.store(i.load() + pt.Int(1))).Do(
                pt.Seq(pt.While(pt.Int(1)).Do(pt.Seq(pt.Log(pt.Bytes("x")), pt.Break())))), pt.Approve()), 4)
        if kind == "sub6":
            @pt.Subroutine(T.none)
            def looper(n):
                return pt.While(n > pt.Int(0)).Do(pt.Seq(pt.Pop(pt.Replace(pt.Bytes("abc"), pt.Int(0), pt.Bytes("z"))), pt.Continue()))
            return app(pt.Seq(looper(pt.Int(2)), pt.Approve()), 6)
        if kind == "type":
            return app(pt.Seq(i.store(pt.Int(0)), pt.While(i.load() < pt.Int(3)).Do(pt.Seq(i.store(pt.Btoi(pt.Int(1))))), pt.Approve()), 6)

    @hs
    def f_while_body_op_above_version_3():
        return loop_fail("sqrt3")

    @hs
    def f_nested_for_while_op_above_version_4():
        return loop_fail("log4")

    @hs
    def f_subroutine_while_op_above_version_6():
        return loop_fail("sub6")

    @hs
    def f_while_body_ill_typed():
        return loop_fail("type")

    @hs
    def f_subroutine_body_raises_v8():
        @pt.Subroutine(T.uint64)
        def bad(a):
            raise ValueError("probe")
        return app(pt.Seq(pt.Pop(bad(pt.Int(1))), pt.Approve()), 8)

    @hs
    def f_too_many_slots():
        vs = [pt.ScratchVar(T.uint64) for _ in range(257)]
        return app(pt.Seq(*[v.store(pt.Int(1)) for v in vs], pt.Approve()), 6)

    @hs
    def r_break_outside_loop():
        return app(pt.Seq(pt.If(pt.Txn.fee() > pt.Int(3)).Then(pt.Break()), pt.Approve()), 6)

    @hs
    def r_continue_outside_loop():
        return app(pt.Seq(pt.If(pt.Txn.fee() > pt.Int(3)).Then(pt.Continue()), pt.Approve()), 8)

    @hs
    def r_break_in_subroutine_outside_loop():
        @pt.Subroutine(T.none)
        def s_(n):
            return pt.Seq(pt.If(n).Then(pt.Break()), pt.Pop(n))
        i = pt.ScratchVar(T.uint64)
        return app(pt.Seq(i.store(pt.Int(0)), pt.While(i.load() < pt.Int(2)).Do(pt.Seq(s_(i.load()), i.store(i.load() + pt.Int(1)))), pt.Approve()), 6)

    @hs
    def r_return_outside_type():
        @pt.Subroutine(T.uint64)
        def s_(n):
            return pt.Seq(pt.If(n).Then(pt.Return()), pt.Int(1))
        return app(pt.Seq(pt.Pop(s_(pt.Int(1))), pt.Approve()), 6)

    @hs
    def r_uninitialised_load():
        a, b_ = pt.ScratchVar(T.uint64), pt.ScratchVar(T.uint64)
        return app(pt.Seq(b_.store(pt.Int(1)), pt.Pop(a.load() + b_.load()), pt.Approve()), 6)

    @hs
    def r_duplicate_reserved_slot():
        a, b_ = pt.ScratchVar(T.uint64, 7), pt.ScratchVar(T.uint64, 7)
        return app(pt.Seq(a.store(pt.Int(1)), b_.store(pt.Int(2)), pt.Approve()), 6)

    @hs
    def r_frame_pointers_below_8():
        return app(pt.Approve(), 6, optimize=pt.OptimizeOptions(frame_pointers=True))

    @hs
    def o_loops_with_break_and_continue():
        i, j = pt.ScratchVar(T.uint64), pt.ScratchVar(T.uint64)
        return app(pt.Seq(pt.For(i.store(pt.Int(0)), i.load() < pt.Int(3), i.store(i.load() + pt.Int(1))).Do(pt.Seq(
            j.store(pt.Int(0)), pt.While(j.load() < pt.Int(5)).Do(pt.Seq(pt.If(j.load() == pt.Int(2)).Then(pt.Break()), j.store(j.load() + pt.Int(1)),
                                                                       pt.If(j.load() == pt.Int(1)).Then(pt.Continue()))), pt.If(i.load()).Then(pt.Continue()))), pt.Approve()), 6)

    @hs
    def o_abi_main_and_subroutine_v8():
        x = abi.Uint64()

        @pt.Subroutine(T.uint64)
        def twice(a: abi.Uint64):
            y = abi.Uint64()
            return pt.Seq(y.set(a.get() * pt.Int(2)), y.get())
        return app(pt.Seq(x.set(pt.Int(7)), pt.Pop(twice(x)), pt.Approve()), 8)

    return P, RC, RB, HS


def rebuild(fn, vseed, rounds):
    """Build + compile the same source `rounds` times; between builds allocate unrelated objects and keep them alive."""
    import pyteal as pt
    N = random.Random(vseed * 7919 + 13)
    keep = []
    variants = {}
    for k in range(rounds):
        try:
            v = ["ok", fn()]
        except RecursionError:
            v = ["exc", "RecursionError"]
        except Exception as e:  # noqa
            v = ["exc", type(e).__name__ + ": " + str(e)[:200]]
        variants.setdefault(json.dumps(v), []).append(k)
        keep.append([pt.ScratchSlot() for _ in range(N.randrange(5))])
        keep.append([pt.ScratchVar() for _ in range(N.randrange(3))])
        keep.append([object() for _ in range(N.randrange(40))])
        if N.random() < 0.3:
            keep.append(bytearray(N.randrange(1, 5000)))
        if N.random() < 0.2 and keep:
            del keep[N.randrange(len(keep))]
    vs = sorted(variants.items(), key=lambda kv: kv[1][0])
    first = json.loads(vs[0][0])
    extra = {"variants": len(vs)}
    if len(vs) > 1:
        extra["other"] = json.loads(vs[1][0])
        extra["rounds"] = [kv[1][:8] for kv in vs[:4]]
    return first, extra


def one(comp, label):
    try:
        return ["ok", comp(label)]
    except RecursionError:
        return ["exc", "RecursionError"]
    except Exception as e:  # noqa
        return ["exc", type(e).__name__]


def main():
    vseed = int(sys.argv[1])
    if sys.argv[2] == "fresh":
        # a FRESH object of recompile program NAME compiled exactly once, at LABEL
        P, RC, RB, HS = programs(vseed)
        json.dump(one(RC[sys.argv[3]]["build"](), sys.argv[4]), sys.stdout)
        return
    if sys.argv[2] == "seq":
        # the independent programs NAME1 NAME2 ... built and compiled in this order in this interpreter
        P, RC, RB, HS = programs(vseed)
        json.dump([[nm, one(lambda _l, nm=nm: HS[nm](), None)] for nm in sys.argv[3:]], sys.stdout)
        return
    if sys.argv[2] == "names":
        json.dump(list(programs(vseed)[3]), sys.stdout)
        return
    rounds = int(sys.argv[2])
    only = sys.argv[3:]
    out = {}
    P, RC, RB, HS = programs(vseed)
    for name, fn in P.items():
        if only and name not in only:
            continue
        try:
            out[name] = ["ok", fn()]
        except RecursionError:
            out[name] = ["exc", "RecursionError"]
        except Exception as e:  # noqa
            out[name] = ["exc", type(e).__name__ + ": " + str(e)[:200]]
    for name, rc in RC.items():
        if only and name not in only:
            continue
        try:
            comp = rc["build"]()
        except Exception as e:  # noqa
            out[name] = ["exc", type(e).__name__ + ": " + str(e)[:200]]
            continue
        att = [[label, one(comp, label)] for label in rc["seq"]]
        first = {}
        bad = None
        for k, (label, val) in enumerate(att):
            if label not in first:
                first[label] = (k, val)
            elif first[label][1] != val and bad is None:
                bad = {"config": label, "attempt_first": first[label][0] + 1, "attempt_later": k + 1, "first": first[label][1], "later": val,
                       "sequence": [a[0] for a in att]}
        out[name] = ["ok", json.dumps(att), {"recompile_differs": bad} if bad else {}]
    for name, fn in RB.items():
        if only and name not in only:
            continue
        first, extra = rebuild(fn, vseed, rounds)
        out[name] = [first[0], first[1], extra]
    json.dump(out, sys.stdout)


if __name__ == "__main__":
    main()
