"""Seeded generator of well-typed PyTeal program recipes (see build.py for the recipe format)
and of transaction contexts to run them in."""

U64 = (1 << 64) - 1


def I(n):
    return ("op", "int", (n,), "u", ())


def B(b):
    return ("op", "byte", ("0x" + bytes(b).hex(),), "b", ())


TXN_U = ["Fee", "FirstValid", "LastValid", "Amount", "GroupIndex", "TypeEnum"]
TXN_B = ["Sender", "Note", "Receiver"]
GLOB_U = ["MinTxnFee", "MinBalance", "MaxTxnLife", "GroupSize"]
GLOB_B = ["ZeroAddress"]

# (name, min_version, arg types, result type)
UN = [("!", 2, "u", "u"), ("~", 2, "u", "u"), ("len", 2, "b", "u"), ("itob", 2, "u", "b"), ("btoi", 2, "b", "u"),
      ("sha256", 2, "b", "b"), ("sqrt", 4, "u", "u"), ("bitlen", 4, "a", "u"), ("bzero", 4, "u", "b"), ("b~", 4, "b", "b"),
      ("bsqrt", 6, "b", "b"), ("keccak256", 2, "b", "b"), ("sha512_256", 2, "b", "b")]
BIN = [("-", 2, "uu", "u"), ("/", 2, "uu", "u"), ("%", 2, "uu", "u"), ("<", 2, "uu", "u"), (">", 2, "uu", "u"),
       ("<=", 2, "uu", "u"), (">=", 2, "uu", "u"), ("==", 2, "uu", "u"), ("!=", 2, "uu", "u"), ("==", 2, "bb", "u"), ("!=", 2, "bb", "u"),
       ("&", 2, "uu", "u"), ("|", 2, "uu", "u"), ("^", 2, "uu", "u"), ("exp", 4, "uu", "u"), ("shl", 4, "uu", "u"), ("shr", 4, "uu", "u"),
       ("getbit", 3, "bu", "u"), ("getbit", 3, "uu", "u"), ("getbyte", 3, "bu", "u"),
       ("b+", 4, "bb", "b"), ("b-", 4, "bb", "b"), ("b*", 4, "bb", "b"), ("b/", 4, "bb", "b"), ("b%", 4, "bb", "b"),
       ("b<", 4, "bb", "u"), ("b>", 4, "bb", "u"), ("b<=", 4, "bb", "u"), ("b>=", 4, "bb", "u"), ("b==", 4, "bb", "u"), ("b!=", 4, "bb", "u"),
       ("b&", 4, "bb", "b"), ("b|", 4, "bb", "b"), ("b^", 4, "bb", "b"),
       ("extract_uint16", 5, "bu", "u"), ("extract_uint32", 5, "bu", "u"), ("extract_uint64", 5, "bu", "u")]
TER = [("setbit", 3, "buu", "b"), ("setbit", 3, "uuu", "u"), ("setbyte", 3, "buu", "b"), ("divw", 6, "uuu", "u")]
NARY = [("+", "u"), ("*", "u"), ("&&", "u"), ("||", "u"), ("concat", "b")]


class Gen:
    def __init__(self, rng, version, app, size=30, allow_new_ops=0.0, ctrl_in_operand=False):
        self.r = rng
        self.v = version
        self.app = app
        self.budget = size
        self.vars = {}            # key -> 'u' | 'b'
        self.dynvar = None
        self.allow_new = allow_new_ops
        self.nmulti = 0
        self.hist = {}
        self.ctrl_in_operand = ctrl_in_operand

    def note(self, k):
        self.hist[k] = self.hist.get(k, 0) + 1

    def ok_version(self, minv):
        return minv <= self.v or self.r.random() < self.allow_new

    # ---------------- expressions ----------------
    def const_u(self):
        r = self.r
        return I(r.choice([0, 1, 2, 3, 5, 7, 8, 63, 64, 255, 256, 65535, 1 << 32, (1 << 63), U64, r.randrange(0, 100), r.randrange(0, U64)]))

    def const_b(self):
        r = self.r
        n = r.choice([0, 1, 2, 3, 8, 8, 16, 32])
        return B(bytes(r.randrange(256) for _ in range(n)))

    def leaf(self, ty):
        r = self.r
        if ty == "a":
            ty = r.choice("ub")
        opts = ["const", "const", "txn", "global", "var", "var"]
        if self.app and self.v >= 2:
            opts.append("apparg") if ty == "b" else None
        if not self.app and ty == "b":
            opts.append("lsigarg")
        k = r.choice(opts)
        self.note("leaf:" + k)
        if k == "var":
            cands = [key for key, t in self.vars.items() if t == ty]
            if cands:
                return ("op", "load", (("slot", r.choice(cands)),), ty, ())
            k = "const"
        if k == "txn":
            return ("op", "txn", (r.choice(TXN_U if ty == "u" else TXN_B),), ty, ())
        if k == "global":
            return ("op", "global", (r.choice(GLOB_U if ty == "u" else GLOB_B),), ty, ())
        if k == "apparg":
            return ("op", "txna", ("ApplicationArgs", r.randrange(0, 3)), "b", ())
        if k == "lsigarg":
            return ("op", "arg", (r.randrange(0, 3),), "b", ())
        return self.const_u() if ty == "u" else self.const_b()

    def expr(self, ty, d, no_ctrl=True):
        r = self.r
        self.budget -= 1
        if d <= 0 or self.budget <= 0:
            return self.leaf(ty)
        want = ty if ty != "a" else r.choice("ub")
        k = r.choice(["leaf", "un", "bin", "bin", "ter", "nary", "nary", "if", "cond", "seq", "wide", "maybe"])
        self.note("expr:" + k)
        if k == "un":
            c = [x for x in UN if x[3] == want and self.ok_version(x[1])]
            if c:
                name, _, at, _ = r.choice(c)
                return ("op", name, (), want, (self.expr(at, d - 1),))
        if k == "bin":
            c = [x for x in BIN if x[3] == want and self.ok_version(x[1])]
            if c:
                name, _, ats, _ = r.choice(c)
                return ("op", name, (), want, (self.expr(ats[0], d - 1), self.expr(ats[1], d - 1)))
        if k == "ter":
            c = [x for x in TER if x[3] == want and self.ok_version(x[1])]
            if c:
                name, _, ats, _ = r.choice(c)
                return ("op", name, (), want, tuple(self.expr(t, d - 1) for t in ats))
        if k == "nary":
            c = [x for x in NARY if x[1] == want]
            if c:
                name, _ = r.choice(c)
                n = r.choice([1, 2, 2, 3, 4])
                return ("nary", name, want, tuple(self.expr(want, d - 1) for _ in range(n)))
        if k == "if":
            return ("if", self.expr("u", d - 1), self.expr(want, d - 1), self.expr(want, d - 1))
        if k == "cond":
            n = r.choice([1, 2, 3])
            arms = [(self.expr("u", d - 1), self.expr(want, d - 1)) for _ in range(n)]
            if r.random() < 0.8:
                arms.append((I(1), self.expr(want, d - 1)))
            return ("cond",) + tuple(arms)
        if k == "seq":
            n = r.choice([0, 1, 2])
            return ("seq",) + tuple(self.stmt(d - 1, False, no_ctrl=not self.ctrl_in_operand) for _ in range(n)) + (self.expr(want, d - 1),)
        if k == "wide" and want == "u" and self.ok_version(5):
            nn, nd = r.choice([(1, 2), (2, 1), (2, 2), (3, 2), (1, 3)])
            return ("wide", tuple(self.expr("u", d - 2) for _ in range(nn)), tuple(self.expr("u", d - 2) for _ in range(nd)))
        if k == "maybe" and self.app:
            self.nmulti += 1
            key = "%s_mv%d" % (getattr(self, "prefix", "m"), self.nmulti)
            mv = ("multi", "app_global_get_ex", (), (I(0), self.expr("b", d - 2)), 2, key)
            # value slot has anytype: read the flag (uint64) or, for bytes/uint, guard by type is not possible; use the flag
            if want == "u":
                return ("seq", mv, ("op", "load", (("slot", (key, 1)),), "u", ()))
        return self.leaf(want)

    # ---------------- statements ----------------
    def new_var(self, ty):
        key = "v%d" % len(self.vars)
        self.vars[key] = ty
        return key

    def stmt(self, d, in_loop, no_ctrl=False):
        r = self.r
        self.budget -= 1
        kinds = ["pop", "store", "store", "assert", "if", "ifelse", "seq", "comment"]
        if self.app and self.v >= 5:
            kinds += ["log", "log"]
        if self.app:
            kinds += ["gput", "gdel"]
        if d > 0 and self.budget > 0:
            kinds += ["while", "for", "cond"]
        if in_loop and not no_ctrl:
            kinds += ["break", "continue"]
        if not no_ctrl:
            kinds += ["exit"] if r.random() < 0.3 else []
        if d <= 0 or self.budget <= 0:
            kinds = [k for k in kinds if k in ("pop", "store", "log", "gput", "break", "continue", "comment", "assert")]
        k = r.choice(kinds)
        self.note("stmt:" + k)
        if k == "pop":
            return ("op", "pop", (), "n", (self.expr(r.choice("ub"), d - 1),))
        if k == "store":
            cands = list(self.vars.items())
            if cands and r.random() < 0.7:
                key, ty = r.choice(cands)
            else:
                ty = r.choice("ub")
                key = None
            e = self.expr(ty, d - 1)
            if key is None:
                key = self.new_var(ty)
            return ("op", "store", (("slot", key),), "n", (e,))
        if k == "log":
            return ("op", "log", (), "n", (self.expr("b", d - 1),))
        if k == "gput":
            return ("op", "app_global_put", (), "n", (self.expr("b", d - 1) if r.random() < 0.3 else B(r.choice([b"k1", b"k2", b"k3"])), self.expr(r.choice("ub"), d - 1)))
        if k == "gdel":
            return ("op", "app_global_del", (), "n", (B(r.choice([b"k1", b"k2", b"k3"])),))
        if k == "assert":
            n = r.choice([1, 1, 2, 3])
            conds = tuple(self.expr("u", d - 1) for _ in range(n))
            if self.r.random() < 0.3:
                return ("assert", conds, r.choice(["c", "why not", "two\nlines"]))
            return ("assert", conds)
        if k == "comment":
            return ("op", "//", (r.choice(["note", "a b c", "x\ny"]),), "n", ())
        if k == "if":
            return ("if", self.expr("u", d - 1), self.block(d - 1, in_loop, no_ctrl))
        if k == "ifelse":
            return ("if", self.expr("u", d - 1), self.block(d - 1, in_loop, no_ctrl), self.block(d - 1, in_loop, no_ctrl))
        if k == "cond":
            n = r.choice([1, 2, 3])
            arms = [(self.expr("u", d - 1), self.block(d - 1, in_loop, no_ctrl)) for _ in range(n)]
            if r.random() < 0.85:
                arms.append((I(1), self.block(d - 1, in_loop, no_ctrl)))
            return ("cond",) + tuple(arms)
        if k == "seq":
            return self.block(d - 1, in_loop, no_ctrl, force_seq=True)
        if k == "while":
            i = self.new_var("u")
            bound = r.choice([0, 1, 2, 3])
            ld = ("op", "load", (("slot", i),), "u", ())
            body = ("seq", ("op", "store", (("slot", i),), "n", (("nary", "+", "u", (ld, I(1))),)),) + tuple(
                self.stmt(d - 1, True, no_ctrl) for _ in range(r.choice([0, 1, 2])))
            return ("seq", ("op", "store", (("slot", i),), "n", (I(0),)), ("while", ("op", "<", (), "u", (ld, I(bound))), body))
        if k == "for":
            i = self.new_var("u")
            bound = r.choice([0, 1, 2, 3])
            ld = ("op", "load", (("slot", i),), "u", ())
            body = self.block(d - 1, True, no_ctrl)
            return ("for", ("op", "store", (("slot", i),), "n", (I(0),)), ("op", "<", (), "u", (ld, I(bound))),
                    ("op", "store", (("slot", i),), "n", (("nary", "+", "u", (ld, I(1))),)), body)
        if k == "break":
            return "break"
        if k == "continue":
            return "continue"
        if k == "exit":
            return r.choice([("exit", I(1)), ("exit", I(0)), ("return", self.expr("u", d - 1))])
        return ("op", "pop", (), "n", (self.const_u(),))

    def block(self, d, in_loop, no_ctrl=False, force_seq=False):
        n = self.r.choice([0, 1, 1, 2, 3])
        stmts = tuple(self.stmt(d, in_loop, no_ctrl) for _ in range(n))
        if len(stmts) == 1 and not force_seq and self.r.random() < 0.5:
            return stmts[0]
        return ("seq",) + stmts

    def program(self, depth=4, shape=None):
        r = self.r
        shape = shape or r.choice(["seq", "seq", "seq", "loopfirst", "expr", "cond"])
        self.note("shape:" + shape)
        if shape == "expr":
            return self.expr("u", depth)
        body = [self.stmt(depth, False) for _ in range(r.choice([1, 2, 3, 4]))]
        if shape == "loopfirst":
            body = [self.stmt_of_kind("while", depth)] + body
        fin = r.choice([("exit", I(1)), ("return", self.expr("u", 2)), ("exit", I(1)), ("exit", I(0)), ("return", self.expr("u", 3))] + ([None] if r.random() < 0.1 else []))
        if shape == "cond":
            return ("cond", (self.expr("u", 2), ("seq",) + tuple(body) + (("exit", I(1)),)), (I(1), ("exit", I(0))))
        if fin is None:
            return ("seq",) + tuple(body)
        return ("seq",) + tuple(body) + (fin,)

    def stmt_of_kind(self, kind, d):
        r = self.r
        i = self.new_var("u")
        ld = ("op", "load", (("slot", i),), "u", ())
        if r.random() < 0.5:
            # a loop whose condition does not start with a store: the loop head is the routine's first block
            return ("while", ("op", "<", (), "u", (("op", "txn", ("Fee",), "u", ()), I(r.choice([0, 3])))), self.block(1, True, no_ctrl=False) if r.random() < 0.5 else "break")
        return ("while", ("op", "<", (), "u", (ld, I(2))), ("seq", ("op", "store", (("slot", i),), "n", (("nary", "+", "u", (ld, I(1))),))))


def uses_uninit_ok(recipe):
    return True


def gen_context(rng, app):
    """A transaction context as the wire s-expression body (list of (key ...) forms)."""
    from common import S
    u = lambda: rng.choice([0, 1, 2, 3, 1000, 5000, (1 << 32) + 7, rng.randrange(0, 1 << 20)])
    bs = lambda n=None: bytes(rng.randrange(256) for _ in range(n if n is not None else rng.choice([0, 1, 8, 32])))
    fields = [("Fee", u()), ("FirstValid", u()), ("LastValid", u()), ("Amount", u()), ("GroupIndex", 0), ("TypeEnum", rng.choice([1, 6])),
              ("Sender", bs(32)), ("Note", bs()), ("Receiver", bs(32)), ("NumAppArgs", 3), ("ApplicationID", 77), ("OnCompletion", 0)]
    args = [bs(rng.choice([0, 1, 8, 8, 32])) for _ in range(3)]
    ctx = [S("ctx"), (S("mode"), S("app") if app else S("sig")), (S("gi"), 0), (S("app-id"), 77),
           (S("group"), ((S("fields"),) + tuple((k, v) for k, v in fields), (S("arrays"), ("ApplicationArgs", tuple(args))))),
           (S("globals"), ("MinTxnFee", 1000), ("MinBalance", 100000), ("MaxTxnLife", 1000), ("GroupSize", 1), ("ZeroAddress", bytes(32))),
           (S("args"),) + tuple(args),
           (S("gstate"),) + tuple((k, rng.choice([u(), bs(8)])) for k in [b"k1", b"k2"] if rng.random() < 0.6),
           (S("fuel"), 4000)]
    return tuple(ctx)
