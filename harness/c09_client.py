"""C09: an ARC-4 CLIENT written for the harness from the ARC-4 text — independent of PyTeal, of
algosdk's composer and of the Coq model (coq/Router/Args.v); all three are cross-checked against it.

Types are ARC-4 type STRINGS, parsed by the 40-line parser of c19_abi (`parse_type_str`) into layout trees
    'bool' | ('uint', n) | ('arr', L, n) | ('dyn', L) | ('tup', L...) | 'txn' | ('ref', kind)
values are bool | int | bytes (a byte array) | list.

ARC-4, as read here
  * uintN: N/8 bytes big-endian; bool: one byte, 0x80 = true;
  * tuple: heads then tails; a static member's head is its encoding; a dynamic member's head is the uint16
    offset of its tail counted from the start of the tuple; up to 8 CONSECUTIVE bools share one head byte,
    first bool in the most significant bit;
  * T[N] = the N-tuple of T;  T[] = uint16 count followed by the count-tuple of T;
  * method call: ApplicationArgs[0] = first four bytes of SHA-512/256 of `name(argtypes)rettype`;
    every argument that is not a transaction takes the next ApplicationArgs entry; with MORE than 15 such
    arguments the first 14 are passed alone and all the others as one tuple in ApplicationArgs[15];
    account / asset / application arguments are put into the Accounts / ForeignAssets / ForeignApps array
    and passed as a uint8 index (Accounts and ForeignApps have an implicit entry 0 — the sender / the
    called application — so explicit entries start at 1, and 0 is used for the sender / called app itself);
    transaction arguments are the transactions placed immediately before the call, in argument order;
  * result: last log entry = 0x151f7c75 ++ encoding.
"""
import hashlib

from c19_abi import parse_type_str

RETURN_PREFIX = bytes.fromhex("151f7c75")
TYPE_ENUM = {"pay": 1, "keyreg": 2, "acfg": 3, "axfer": 4, "afrz": 5, "appl": 6}
TXN_STRS = ("txn",) + tuple(TYPE_ENUM)
REF_STRS = ("account", "asset", "application")


class EncodeError(Exception):
    pass


def sha512_256(b):
    h = hashlib.new("sha512_256")
    h.update(b)
    return h.digest()


def selector(sig):
    return sha512_256(sig.encode("utf-8"))[:4]


def is_dynamic(L):
    if L == "bool" or L == "txn":
        return False
    h = L[0]
    if h == "dyn":
        return True
    if h == "arr":
        return is_dynamic(L[1])
    if h == "tup":
        return any(is_dynamic(x) for x in L[1:])
    return False


def _items(v):
    return list(v) if isinstance(v, (bytes, bytearray)) else v


def enc_members(Ls, vs):
    if len(Ls) != len(vs):
        raise EncodeError("arity")
    heads = []   # bytes, or ('dyn', tail)
    i = 0
    while i < len(Ls):
        if Ls[i] == "bool":
            j = i
            while j < len(Ls) and Ls[j] == "bool" and j - i < 8:
                j += 1
            byte = 0
            for k in range(i, j):
                if not isinstance(vs[k], bool):
                    raise EncodeError("bool expected")
                if vs[k]:
                    byte |= 0x80 >> (k - i)
            heads.append(bytes([byte]))
            i = j
            continue
        e = enc(Ls[i], vs[i])
        heads.append(("dyn", e) if is_dynamic(Ls[i]) else e)
        i += 1
    head_len = sum(2 if isinstance(h, tuple) else len(h) for h in heads)
    out, tails, off = b"", b"", head_len
    for h in heads:
        if isinstance(h, tuple):
            if off >= 1 << 16:
                raise EncodeError("offset")
            out += off.to_bytes(2, "big")
            tails += h[1]
            off += len(h[1])
        else:
            out += h
    return out + tails


def enc(L, v):
    if L == "bool":
        if not isinstance(v, bool):
            raise EncodeError("bool expected")
        return b"\x80" if v else b"\x00"
    h = L[0]
    if h == "uint":
        if isinstance(v, bool) or not isinstance(v, int) or not 0 <= v < (1 << L[1]):
            raise EncodeError("uint range")
        return v.to_bytes(L[1] // 8, "big")
    if h == "arr":
        vs = _items(v)
        if len(vs) != L[2]:
            raise EncodeError("length")
        return enc_members([L[1]] * L[2], vs)
    if h == "dyn":
        vs = _items(v)
        if len(vs) >= 1 << 16:
            raise EncodeError("count")
        return len(vs).to_bytes(2, "big") + enc_members([L[1]] * len(vs), vs)
    if h == "tup":
        return enc_members(list(L[1:]), list(v))
    raise EncodeError("not an ARC-4 value type: %r" % (L,))


def encode_str(type_str, v):
    return enc(parse_type_str(type_str), v)


def signature(name, arg_strs, ret_str):
    return "%s(%s)%s" % (name, ",".join(arg_strs), ret_str)


class Call:
    """What the client sends. `placement[p]` says where parameter p went:
    ('arg', i) | ('member', 15, j) | ('txn', back) with back = distance from the call in the group."""
    __slots__ = ("sig", "app_args", "accounts", "assets", "apps", "txns", "placement", "wire", "tuple_types")


def client_call(name, arg_strs, ret_str, args, sender, app_id):
    """args[p]: a value (plain), a dict describing a transaction (with 'type'), bytes (account address),
    int (asset / application id)."""
    c = Call()
    c.sig = signature(name, arg_strs, ret_str)
    c.accounts, c.assets, c.apps, c.txns = [], [], [], []
    wire = []          # (layout, value, parameter number)
    txn_params = []
    for p, (ts, a) in enumerate(zip(arg_strs, args)):
        if ts in TXN_STRS:
            if ts != "txn" and a["type"] != TYPE_ENUM[ts]:
                raise EncodeError("transaction of type %r passed for %s" % (a["type"], ts))
            c.txns.append(a)
            txn_params.append(p)
        elif ts == "account":
            if a == sender:
                idx = 0
            else:
                if a not in c.accounts:
                    c.accounts.append(a)
                idx = c.accounts.index(a) + 1
            wire.append((("uint", 8), idx, p))
        elif ts == "asset":
            if a not in c.assets:
                c.assets.append(a)
            wire.append((("uint", 8), c.assets.index(a), p))
        elif ts == "application":
            if a == app_id:
                idx = 0
            else:
                if a not in c.apps:
                    c.apps.append(a)
                idx = c.apps.index(a) + 1
            wire.append((("uint", 8), idx, p))
        else:
            wire.append((parse_type_str(ts), a, p))
    c.placement = [None] * len(arg_strs)
    for k, p in enumerate(txn_params):
        c.placement[p] = ("txn", len(txn_params) - k)
    c.app_args = [selector(c.sig)]
    c.tuple_types = []
    if len(wire) > 15:
        alone, rest = wire[:14], wire[14:]
    else:
        alone, rest = wire, []
    for k, (L, v, p) in enumerate(alone):
        c.app_args.append(enc(L, v))
        c.placement[p] = ("arg", k + 1)
    if rest:
        c.app_args.append(enc(("tup",) + tuple(L for L, _, _ in rest), [v for _, v, _ in rest]))
        for j, (L, v, p) in enumerate(rest):
            c.placement[p] = ("member", 15, j)
        c.tuple_types = [L for L, _, _ in rest]
    c.wire = [(L, v) for L, v, _ in wire]
    return c


# ---------------------------------------------------------------------------------------------
# independent reader of an encoded tuple (to locate what sits in a tuple slot): decode heads by the text
# ---------------------------------------------------------------------------------------------
def static_len(L):
    if L == "bool":
        return 1
    h = L[0]
    if h == "uint":
        return L[1] // 8
    if h == "arr":
        if L[1] == "bool":
            return (L[2] + 7) // 8
        return L[2] * static_len(L[1])
    if h == "tup":
        return members_static_len(list(L[1:]))
    raise EncodeError("no static length")


def members_static_len(Ls):
    n, i = 0, 0
    while i < len(Ls):
        if Ls[i] == "bool":
            j = i
            while j < len(Ls) and Ls[j] == "bool":
                j += 1
            n += (j - i + 7) // 8
            i = j
        else:
            n += 2 if is_dynamic(Ls[i]) else static_len(Ls[i])
            i += 1
    return n


def split_members(Ls, bs):
    """encoded tuple -> the encoding of every member (a bool member is given as 0x80 / 0x00)"""
    pos, i = 0, 0
    slots = []
    while i < len(Ls):
        if Ls[i] == "bool":
            j = i
            while j < len(Ls) and Ls[j] == "bool" and j - i < 8:
                j += 1
            for k in range(i, j):
                slots.append(("bit", pos, k - i))
            pos += 1
            i = j
            continue
        if is_dynamic(Ls[i]):
            slots.append(("dyn", int.from_bytes(bs[pos:pos + 2], "big")))
            pos += 2
        else:
            n = static_len(Ls[i])
            slots.append(("stat", pos, n))
            pos += n
        i += 1
    dyn_offs = [s[1] for s in slots if s[0] == "dyn"] + [len(bs)]
    out, d = [], 0
    for s in slots:
        if s[0] == "bit":
            out.append(b"\x80" if bs[s[1]] & (0x80 >> s[2]) else b"\x00")
        elif s[0] == "stat":
            out.append(bs[s[1]:s[1] + s[2]])
        else:
            out.append(bs[dyn_offs[d]:dyn_offs[d + 1]])
            d += 1
    return out
