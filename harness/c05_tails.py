"""C05 — routine-tail shapes: routines (main, none-typed and value-typed subroutines with 0..2 arguments) whose LAST
statement is an If / If-ElseIf-Else / Cond / nested combination in which some arms leave the routine (Return /
Approve / Reject / Err) and others do not, the leaving arm first / middle / last — always followed by another routine
in the program, so that a missing `retsub` (or a main routine that can run past its end) falls into foreign code.
Recipes in the format of build.py / c05_gen.py; yields (name, main recipe, subdefs)."""
from gen_prog import I, B

FEE = ("op", "txn", ("Fee",), "u", ())


def cnd(k):
    return ("op", ">", (), "u", (FEE, I(k)))


def stay(i):
    return [("op", "pop", (), "n", (I(40 + i),)),
            ("op", "app_global_put", (), "n", (B(b"n"), I(i))),
            ("seq", ("op", "pop", (), "n", (B(b"s"),)), ("op", "pop", (), "n", (I(i),)))][i % 3]


def leaves(ret):
    """ways of leaving a routine of return kind ret ('m' = main)"""
    out = [("exit", I(1)), ("exit", I(0)), ("op", "err", (), "n", ())]
    if ret == "n":
        out.append(("return",))
    elif ret == "m" or ret == "u":
        out.append(("return", I(1)))
    else:
        out.append(("return", B(b"r")))
    return out


def tails(leave, with_stay=True):
    """last statements built from one way of leaving; (name, recipe)"""
    s0, s1, s2 = stay(0), stay(1), stay(2)
    T = [
        ("if-leave-stay", ("if", cnd(1), leave, s0)),
        ("if-stay-leave", ("if", cnd(1), s0, leave)),
        ("if-leave-only", ("if", cnd(1), leave)),
        ("elseif-leave-first", ("if", cnd(9), leave, ("if", cnd(5), s0, s1))),
        ("elseif-leave-middle", ("if", cnd(9), s0, ("if", cnd(5), leave, s1))),
        ("elseif-leave-last", ("if", cnd(9), s0, ("if", cnd(5), s1, leave))),
        ("cond-leave-first", ("cond", (cnd(9), leave), (cnd(5), s0), (I(1), s1))),
        ("cond-leave-middle", ("cond", (cnd(9), s0), (cnd(5), leave), (I(1), s1))),
        ("cond-leave-last", ("cond", (cnd(9), s0), (cnd(5), s1), (I(1), leave))),
        ("cond-no-default-leave-last", ("cond", (cnd(9), s0), (cnd(5), leave))),
        ("cond-in-if", ("if", cnd(3), ("cond", (cnd(9), s0), (I(1), leave)), s2)),
        ("if-in-cond-last", ("cond", (cnd(9), s0), (I(1), ("if", cnd(3), s1, leave)))),
        ("if-in-cond-first", ("cond", (cnd(9), ("if", cnd(3), leave, s1)), (I(1), s2))),
        ("seq-in-arm", ("if", cnd(1), ("seq", s0, leave), ("seq", s1, s2))),
        ("all-leave-if", ("if", cnd(1), leave, leave)),
        ("all-leave-cond", ("cond", (cnd(9), leave), (I(1), leave))),
    ]
    return T


NEXT = {"key": "s1", "kinds": ["v"], "ptypes": ["u"], "ret": "n", "rec": None, "nabi": 0, "abi": False,
        "body": ("seq", ("op", "pop", (), "n", (("param", 0),)), ("op", "app_global_del", (), "n", (B(b"n"),)))}


def programs():
    """(name, main recipe, subdefs)"""
    for ret, nargs in (("n", 0), ("n", 1), ("n", 2), ("u", 1), ("b", 2), ("m", 0)):
        for li, leave in enumerate(leaves(ret)):
            for name, t in tails(leave):
                tag = "%s%d/%s/leave%d" % (ret, nargs, name, li)
                pre = ("op", "pop", (), "n", (I(7),))
                if ret == "m":
                    # the main routine itself ends in the tail; a subroutine follows it in the text
                    yield tag, ("seq", ("call", "s1", (I(2),)), pre, t), [dict(NEXT)]
                    continue
                kinds = ["v"] * nargs
                ptypes = ["u", "b"][:nargs]
                args = tuple([I(3), B(b"q")][:nargs])
                use = tuple(("op", "pop", (), "n", (("param", i),)) for i in range(nargs))
                sd = {"key": "s0", "kinds": kinds, "ptypes": ptypes, "ret": ret, "rec": None, "nabi": 0, "abi": False,
                      "body": ("seq",) + use + (pre, t)}
                call = ("call", "s0", args)
                main = ("seq", call if ret == "n" else ("op", "pop", (), "n", (call,)), ("call", "s1", (I(2),)), ("exit", I(1)))
                yield tag, main, [sd, dict(NEXT)]


OPTIONS = [(4, None, None), (6, None, None), (6, True, None), (8, None, None), (8, None, False), (9, None, None), (10, False, True)]


def all_cases():
    """(name, main, subdefs, version, ss, fp); every program at 2 of the option settings (rotating), so that the whole
    matrix versions 4..10 x conventions x optimiser is covered across the shapes"""
    for i, (name, main, subdefs) in enumerate(programs()):
        for j in (i % len(OPTIONS), (i * 3 + 2) % len(OPTIONS)):
            v, ss, fp = OPTIONS[j]
            yield name, main, subdefs, v, ss, fp
