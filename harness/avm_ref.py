"""avm_ref.py -- an INDEPENDENT reference implementation of the pure (stack-only) AVM opcodes.

Written from the AVM specification (TEAL opcode reference, versions 1..10) by a second author: it is
NOT a transliteration of coq/AVM/Ops.v.  Design differences on purpose: the stack is a Python list
with the TOP AT THE END, uint64 values are Python ints, byte strings are Python `bytes`, arithmetic is
done on unbounded Python ints followed by explicit range checks, byte-math goes through
int.from_bytes / int.to_bytes, bit operations on byte strings are done on the integer value of the
whole string.

`exec_pure(op, imms, stack)` returns the new stack (a new list) or raises `Panic` when the AVM would
fail the program.  `SIGS` gives, per opcode, the operand types the specification expects ('u' uint64,
'b' bytes, 'a' any), used by the generator in avm_validate.py to build well-typed and ill-typed cases.

Limits used (consensus parameters of the AVM):
  uint64 range, byte strings <= 4096 bytes, stack depth <= 1000; operands of the byte-ARITHMETIC and
  byte-comparison opcodes (b+ b- b* b/ b% b< b> b<= b>= b== b!= bsqrt: langspec type "bigint") <= 64 bytes.
  The BITWISE byte opcodes (b| b& b^ b~) take plain "[]byte" operands in the langspec and have no such
  limit -- see BITWISE_OPS below.
"""
import math

U64 = 1 << 64
MAXU64 = U64 - 1
MAX_BYTES = 4096
MAX_BYTEMATH_IN = 64
MAX_STACK = 1000


# Operands longer than 64 bytes for b| b& b^ b~ : this reference follows the langspec ("[]byte" operands,
# no limit).  PyTeal's docstrings say "must not exceed 64 bytes" for all byte operators and the Coq model
# follows them.  No data stored in the repository settles the point, so avm_validate.py records what the
# model does on these cases instead of failing (design_notes/AVM_validation.md, "open questions").
BITWISE_OPS = ("b|", "b&", "b^", "b~")


class Panic(Exception):
    """The AVM fails the program at this instruction."""


def _u(x):
    if isinstance(x, bool) or not isinstance(x, int):
        raise Panic("expected uint64")
    return x


def _b(x):
    if not isinstance(x, (bytes, bytearray)):
        raise Panic("expected bytes")
    return bytes(x)


def _need(stack, n):
    if len(stack) < n:
        raise Panic("stack underflow")


def _push_u(stack, v):
    if v < 0 or v > MAXU64:
        raise Panic("uint64 overflow/underflow")
    stack.append(v)


def _push_b(stack, v):
    if len(v) > MAX_BYTES:
        raise Panic("byte string too long")
    stack.append(bytes(v))


def _big(b):
    return int.from_bytes(b, "big")


def _minimal(n):
    """Shortest big-endian representation; zero is the empty string (Go's big.Int.Bytes())."""
    return n.to_bytes((n.bit_length() + 7) // 8, "big")


def _bm(stack, n):
    """Pop n byte-math operands (each at most 64 bytes), deepest first."""
    _need(stack, n)
    ops = [_b(x) for x in stack[-n:]]
    for o in ops:
        if len(o) > MAX_BYTEMATH_IN:
            raise Panic("byte-math operand longer than 64 bytes")
    del stack[-n:]
    return ops


def _pop_types(stack, types):
    """Pop len(types) operands, deepest first, checking 'u' / 'b' / 'a'."""
    n = len(types)
    _need(stack, n)
    vals = stack[-n:]
    for v, t in zip(vals, types):
        if t == "u":
            _u(v)
        elif t == "b":
            _b(v)
    del stack[-n:]
    return vals


def _imm(imms, n):
    if len(imms) != n or any((not isinstance(i, int)) or i < 0 for i in imms):
        raise Panic("bad immediates")
    return imms


# ------------------------------------------------------------------------------------------------
# operand signatures (deepest operand first), from the opcode reference
# ------------------------------------------------------------------------------------------------
SIGS = {
    "+": "uu", "-": "uu", "/": "uu", "*": "uu", "%": "uu", "<": "uu", ">": "uu", "<=": "uu", ">=": "uu",
    "&&": "uu", "||": "uu", "==": "aa", "!=": "aa", "!": "u", "|": "uu", "&": "uu", "^": "uu", "~": "u",
    "mulw": "uu", "addw": "uu", "divmodw": "uuuu", "divw": "uuu", "exp": "uu", "expw": "uu",
    "shl": "uu", "shr": "uu", "sqrt": "u", "bitlen": "a",
    "len": "b", "itob": "u", "btoi": "b", "concat": "bb", "substring": "b", "substring3": "buu",
    "extract": "b", "extract3": "buu", "extract_uint16": "bu", "extract_uint32": "bu", "extract_uint64": "bu",
    "getbit": "au", "setbit": "auu", "getbyte": "bu", "setbyte": "buu", "bzero": "u",
    "replace2": "bb", "replace3": "bub",
    "b+": "bb", "b-": "bb", "b*": "bb", "b/": "bb", "b%": "bb", "b<": "bb", "b>": "bb", "b<=": "bb", "b>=": "bb",
    "b==": "bb", "b!=": "bb", "b|": "bb", "b&": "bb", "b^": "bb", "b~": "b", "bsqrt": "b",
    "pop": "a", "dup": "a", "dup2": "aa", "swap": "aa", "select": "aau",
    "dig": "", "cover": "", "uncover": "", "bury": "", "popn": "", "dupn": "",
    "assert": "u", "int": "", "pushint": "",
}
# number of integer immediates
IMMS = {"substring": 2, "extract": 2, "replace2": 1, "dig": 1, "cover": 1, "uncover": 1, "bury": 1, "popn": 1, "dupn": 1,
        "int": 1, "pushint": 1}


def exec_pure(op, imms, stack):
    """One pure opcode.  `stack`: list, top at the end; not modified.  Returns the new stack."""
    st = list(stack)
    imms = list(imms)
    if op not in SIGS:
        raise KeyError(op)
    if op not in IMMS and imms:
        raise Panic("unexpected immediates")

    # ---- uint64 arithmetic -------------------------------------------------------------------
    if op == "+":
        a, b = _pop_types(st, "uu"); _push_u(st, a + b)
    elif op == "-":
        a, b = _pop_types(st, "uu"); _push_u(st, a - b)
    elif op == "*":
        a, b = _pop_types(st, "uu"); _push_u(st, a * b)
    elif op == "/":
        a, b = _pop_types(st, "uu")
        if b == 0:
            raise Panic("division by zero")
        st.append(a // b)
    elif op == "%":
        a, b = _pop_types(st, "uu")
        if b == 0:
            raise Panic("modulo by zero")
        st.append(a % b)
    elif op in ("<", ">", "<=", ">="):
        a, b = _pop_types(st, "uu")
        st.append(int({"<": a < b, ">": a > b, "<=": a <= b, ">=": a >= b}[op]))
    elif op == "&&":
        a, b = _pop_types(st, "uu"); st.append(int(a != 0 and b != 0))
    elif op == "||":
        a, b = _pop_types(st, "uu"); st.append(int(a != 0 or b != 0))
    elif op in ("==", "!="):
        a, b = _pop_types(st, "aa")
        if isinstance(a, int) != isinstance(b, int):
            raise Panic("comparing uint64 with bytes")
        st.append(int((a == b) == (op == "==")))
    elif op == "!":
        (a,) = _pop_types(st, "u"); st.append(int(a == 0))
    elif op == "|":
        a, b = _pop_types(st, "uu"); st.append(a | b)
    elif op == "&":
        a, b = _pop_types(st, "uu"); st.append(a & b)
    elif op == "^":
        a, b = _pop_types(st, "uu"); st.append(a ^ b)
    elif op == "~":
        (a,) = _pop_types(st, "u"); st.append(a ^ MAXU64)
    elif op == "mulw":
        a, b = _pop_types(st, "uu"); p = a * b
        st.append(p >> 64); st.append(p & MAXU64)
    elif op == "addw":
        a, b = _pop_types(st, "uu"); s = a + b
        st.append(s >> 64); st.append(s & MAXU64)
    elif op == "divmodw":
        a, b, c, d = _pop_types(st, "uuuu")
        num = (a << 64) | b
        den = (c << 64) | d
        if den == 0:
            raise Panic("divmodw by zero")
        q, r = divmod(num, den)
        st += [q >> 64, q & MAXU64, r >> 64, r & MAXU64]
    elif op == "divw":
        a, b, c = _pop_types(st, "uuu")
        if c == 0:
            raise Panic("divw by zero")
        q = ((a << 64) | b) // c
        _push_u(st, q)
    elif op == "exp":
        a, b = _pop_types(st, "uu")
        if a == 0 and b == 0:
            raise Panic("0^0")
        if a < 2:
            st.append(a)
        else:
            if b >= 64:
                raise Panic("exp overflow")
            _push_u(st, a ** b)
    elif op == "expw":
        a, b = _pop_types(st, "uu")
        if a == 0 and b == 0:
            raise Panic("0^0")
        if a < 2:
            st += [0, a]
        else:
            if b >= 128:
                raise Panic("expw overflow")
            p = a ** b
            if p >> 128:
                raise Panic("expw overflow")
            st += [p >> 64, p & MAXU64]
    elif op == "shl":
        a, b = _pop_types(st, "uu")
        if b > 63:
            raise Panic("shl by more than 63")
        st.append((a << b) & MAXU64)
    elif op == "shr":
        a, b = _pop_types(st, "uu")
        if b > 63:
            raise Panic("shr by more than 63")
        st.append(a >> b)
    elif op == "sqrt":
        (a,) = _pop_types(st, "u"); st.append(math.isqrt(a))
    elif op == "bitlen":
        (a,) = _pop_types(st, "a")
        st.append(a.bit_length() if isinstance(a, int) else _big(a).bit_length())

    # ---- byte strings ---------------------------------------------------------------------------
    elif op == "len":
        (a,) = _pop_types(st, "b"); st.append(len(a))
    elif op == "itob":
        (a,) = _pop_types(st, "u"); st.append(a.to_bytes(8, "big"))
    elif op == "btoi":
        (a,) = _pop_types(st, "b")
        if len(a) > 8:
            raise Panic("btoi of more than 8 bytes")
        st.append(_big(a))
    elif op == "concat":
        a, b = _pop_types(st, "bb"); _push_b(st, a + b)
    elif op == "substring":
        s, e = _imm(imms, 2)
        (a,) = _pop_types(st, "b")
        if e < s or e > len(a):
            raise Panic("substring range")
        st.append(a[s:e])
    elif op == "substring3":
        a, s, e = _pop_types(st, "buu")
        if e < s or e > len(a):
            raise Panic("substring3 range")
        st.append(a[s:e])
    elif op == "extract":
        s, ln = _imm(imms, 2)
        (a,) = _pop_types(st, "b")
        if s > len(a):
            raise Panic("extract start beyond end")
        if ln == 0:
            st.append(a[s:])
        else:
            if s + ln > len(a):
                raise Panic("extract range")
            st.append(a[s:s + ln])
    elif op == "extract3":
        a, s, ln = _pop_types(st, "buu")
        if s > len(a) or s + ln > len(a):
            raise Panic("extract3 range")
        st.append(a[s:s + ln])
    elif op in ("extract_uint16", "extract_uint32", "extract_uint64"):
        width = {"extract_uint16": 2, "extract_uint32": 4, "extract_uint64": 8}[op]
        a, s = _pop_types(st, "bu")
        if s + width > len(a):
            raise Panic("extract_uint range")
        st.append(_big(a[s:s + width]))
    elif op == "getbit":
        a, i = _pop_types(st, "au")
        if isinstance(a, int):
            if i > 63:
                raise Panic("getbit index > 63")
            st.append((a >> i) & 1)
        else:
            nbits = 8 * len(a)
            if i >= nbits:
                raise Panic("getbit index beyond byte string")
            # bit 0 is the most significant bit of the first byte
            st.append((_big(a) >> (nbits - 1 - i)) & 1)
    elif op == "setbit":
        a, i, v = _pop_types(st, "auu")
        if v > 1:
            raise Panic("setbit value > 1")
        if isinstance(a, int):
            if i > 63:
                raise Panic("setbit index > 63")
            st.append((a | (1 << i)) if v else (a & ~(1 << i) & MAXU64))
        else:
            nbits = 8 * len(a)
            if i >= nbits:
                raise Panic("setbit index beyond byte string")
            mask = 1 << (nbits - 1 - i)
            n = _big(a)
            n = (n | mask) if v else (n & ~mask)
            st.append(n.to_bytes(len(a), "big"))
    elif op == "getbyte":
        a, i = _pop_types(st, "bu")
        if i >= len(a):
            raise Panic("getbyte index")
        st.append(a[i])
    elif op == "setbyte":
        a, i, v = _pop_types(st, "buu")
        if i >= len(a):
            raise Panic("setbyte index")
        if v > 255:
            raise Panic("setbyte value > 255")
        ba = bytearray(a); ba[i] = v
        st.append(bytes(ba))
    elif op == "bzero":
        (n,) = _pop_types(st, "u")
        if n > MAX_BYTES:
            raise Panic("bzero too long")
        st.append(bytes(n))
    elif op == "replace2":
        (s,) = _imm(imms, 1)
        a, b = _pop_types(st, "bb")
        if s + len(b) > len(a):
            raise Panic("replace2 range")
        st.append(a[:s] + b + a[s + len(b):])
    elif op == "replace3":
        a, s, b = _pop_types(st, "bub")
        if s + len(b) > len(a):
            raise Panic("replace3 range")
        st.append(a[:s] + b + a[s + len(b):])

    # ---- byte math ------------------------------------------------------------------------------
    elif op == "b+":
        a, b = _bm(st, 2); st.append(_minimal(_big(a) + _big(b)))
    elif op == "b-":
        a, b = _bm(st, 2)
        d = _big(a) - _big(b)
        if d < 0:
            raise Panic("b- underflow")
        st.append(_minimal(d))
    elif op == "b*":
        a, b = _bm(st, 2); st.append(_minimal(_big(a) * _big(b)))
    elif op == "b/":
        a, b = _bm(st, 2)
        if _big(b) == 0:
            raise Panic("b/ by zero")
        st.append(_minimal(_big(a) // _big(b)))
    elif op == "b%":
        a, b = _bm(st, 2)
        if _big(b) == 0:
            raise Panic("b% by zero")
        st.append(_minimal(_big(a) % _big(b)))
    elif op in ("b<", "b>", "b<=", "b>=", "b==", "b!="):
        a, b = _bm(st, 2)
        x, y = _big(a), _big(b)
        st.append(int({"b<": x < y, "b>": x > y, "b<=": x <= y, "b>=": x >= y, "b==": x == y, "b!=": x != y}[op]))
    elif op in ("b|", "b&", "b^"):
        # bitwise byte ops take plain []byte operands (langspec: "[]byte", not "bigint"): no 64-byte limit
        a, b = _pop_types(st, "bb")
        n = max(len(a), len(b))
        x, y = _big(a), _big(b)      # zero-left-extension does not change the value
        r = {"b|": x | y, "b&": x & y, "b^": x ^ y}[op]
        st.append(r.to_bytes(n, "big"))
    elif op == "b~":
        (a,) = _pop_types(st, "b")
        st.append((_big(a) ^ ((1 << (8 * len(a))) - 1)).to_bytes(len(a), "big"))
    elif op == "bsqrt":
        (a,) = _bm(st, 1); st.append(_minimal(math.isqrt(_big(a))))

    # ---- stack manipulation -----------------------------------------------------------------------
    elif op == "pop":
        _need(st, 1); st.pop()
    elif op == "dup":
        _need(st, 1); st.append(st[-1])
    elif op == "dup2":
        _need(st, 2); st += st[-2:]
    elif op == "swap":
        _need(st, 2); st[-1], st[-2] = st[-2], st[-1]
    elif op == "select":
        a, b, c = _pop_types(st, "aau")
        st.append(b if c != 0 else a)
    elif op == "dig":
        (n,) = _imm(imms, 1)
        if n > 255 or n >= len(st):
            raise Panic("dig depth")
        st.append(st[-1 - n])
    elif op == "cover":
        (n,) = _imm(imms, 1)
        if n > 255 or n >= len(st):
            raise Panic("cover depth")
        top = st.pop()
        st.insert(len(st) - n, top)
    elif op == "uncover":
        (n,) = _imm(imms, 1)
        if n > 255 or n >= len(st):
            raise Panic("uncover depth")
        st.append(st.pop(len(st) - 1 - n))
    elif op == "bury":
        (n,) = _imm(imms, 1)
        if n == 0 or n > 255 or n >= len(st):
            raise Panic("bury depth")
        top = st.pop()
        st[len(st) - n] = top
    elif op == "popn":
        (n,) = _imm(imms, 1)
        if n > 255 or n > len(st):
            raise Panic("popn depth")
        if n:
            del st[-n:]
    elif op == "dupn":
        (n,) = _imm(imms, 1)
        if n > 255:
            raise Panic("dupn count")
        _need(st, 1)
        st += [st[-1]] * n
    elif op == "assert":
        (a,) = _pop_types(st, "u")
        if a == 0:
            raise Panic("assert failed")
    elif op in ("int", "pushint"):
        (n,) = _imm(imms, 1)
        _push_u(st, n)
    else:  # pragma: no cover
        raise KeyError(op)
    return st


ALL_OPS = sorted(SIGS)
